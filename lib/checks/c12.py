"""C12 - AUTO_INCREMENT values are distinct from every value the column ever held and strictly increase.

AutoInc.tla is the reference: the generated value is an INPUT of the Insert action constrained only by the property
(GenOK: g not in `held`, g > `lastGen`; both are ghosts that survive deletes, TRUNCATE, ROLLBACK and reopen).
 (1) TLC model-checks the reference with every admissible generated value (meta-invariants re-derived from the history).
 (2) TLC enumerates schedules (canonical generated values) to depth MaxOps and walks at random: inserts without id,
     with explicit ids (duplicate / previously deleted / below / exactly next / far above the counter), multi-row
     mixes, a failing multi-row insert, DELETE, TRUNCATE, UPDATE of the id, BEGIN..ROLLBACK/COMMIT, reopen and the
     four bulk APIs.
 (3) every schedule is executed on TurDB (harness rel-run); after every step the table is read back.
 (4) the OBSERVED traces are judged by TLC with AutoIncTrace.tla: the generated values are taken from the
     observation and fed to AutoInc's operators; the judge adopts the observed table after every step.
"""
import json, os, random
import vlib, reldl, autoinc

LEVEL = "model_checking"
MANIFEST = dict(cat=LEVEL, ref="DESIGN.md 6 (C12), notes/C12.md",
    tech="TLA+ reference AutoInc.tla (generated value = input constrained by GenOK) model-checked by TLC; TLC-enumerated "
         "schedules + random walks replayed on TurDB; observed traces validated by TLC against the reference with "
         "AutoIncTrace.tla (trace validation with adoption of the observed state)",
    text="every generated id observed in the replayed histories (depth<=3 exhaustive schedule classes in the quick tier, "
         "depth 4 + long walks in the thorough tier; SQL INSERT single/multi-row, explicit ids around the counter, DELETE, "
         "TRUNCATE, UPDATE id, ROLLBACK, reopen, insert_batch, insert_batch_into_schema, insert_cached, bulk_insert) is "
         "distinct from all values held before and larger than the previous generated one, except for the listed findings",
    note="one table t(id INT PRIMARY KEY AUTO_INCREMENT, v INT); ids below 2^31 (TLC integers); single handle; the "
         "renderer lib/autoinc.py and harness rel-run are trusted; values generated inside a failed statement are unobservable")


def replay_dict(hist, steps, v, events=None):
    return {"sql": autoinc.describe(hist), "hist": hist, "verdict": v, "observed_steps": steps, "events": events or []}


def selftest_perturb(traces):
    """binding test (VERIF_SELFTEST=1): falsify ONE observation - the second single generating INSERT of some trace is made
    to report the id the first one got - and let the judge find it (expected: a gen_reused violation)."""
    for t in traces:
        gens = [(i, s) for i, s in enumerate(t["steps"]) if s["k"] == "ins" and s["ok"] and len(s["items"]) == 1 and s["items"][0][0] == reldl.N and s["ret"]]
        if len(gens) >= 2 and gens[0][1]["ret"][0] != reldl.N and all(r[0] != reldl.N for s in t["steps"] for r in s["rows"]):
            (i, a), (j, b) = gens[0], gens[1]
            if any(s["k"] not in ("ins", "del", "reopen") for s in t["steps"][: j + 1]):
                continue
            old, new = b["ret"][0], a["ret"][0]
            b["ret"] = [new]
            b["rows"] = [[new if (r[0] == old and r[1] == b["items"][0][1]) else r[0], r[1]] for r in b["rows"]]
            t["steps"] = t["steps"][: j + 1]
            print("SELFTEST: trace %s step %d now reports generated id %d (held before) instead of %d" % (t["id"], j + 1, new, old))
            return
    raise vlib.ToolError("selftest: no suitable trace")


def evaluate(chk, hists):
    """hists: list of histories. Runs, observes, judges, classifies. -> stats"""
    cases = [autoinc.render(i, h) for i, h in enumerate(hists)]
    res = reldl.run_cases(cases)
    chk.mark("replay")
    traces, meta, st = [], {}, {"traces": 0, "steps_judged": 0, "generated_values_judged": 0, "cut": 0, "c12_divergences": {}, "other_divergences": {},
                                "conforming_steps": 0}
    for i, h in enumerate(hists):
        tr, events = autoinc.observe(i, h, res.get(i, []))
        for e in events:
            if e["kind"] == "panic":
                chk.classify("panic:%s:%s" % (e["op"], e["api"]), replay_dict(h, tr and tr["steps"], None, events))
                st["c12_divergences"]["panic:%s:%s" % (e["op"], e["api"])] = st["c12_divergences"].get("panic:%s:%s" % (e["op"], e["api"]), 0) + 1
            else:
                st["cut"] += 1
                key = "%s:%s:%s" % (e["kind"], e.get("op", "-"), e.get("api", "-"))
                st["other_divergences"][key] = st["other_divergences"].get(key, 0) + 1
        if tr and tr["steps"]:
            traces.append(tr)
            meta[i] = (h, tr)
    if not traces:
        raise vlib.ToolError("no trace could be observed")
    if os.environ.get("VERIF_SELFTEST") == "1":
        selftest_perturb(traces)
    verdicts, jstats = autoinc.judge(traces)
    chk.mark("tlc_judge")
    st["traces"] = len(traces)
    shapes = {}
    for (tid, step), v in sorted(verdicts.items()):
        h, tr = meta[tid]
        st["steps_judged"] += 1
        st["generated_values_judged"] += v["ngen"] if v["ok"] else 0
        if v["k"] in ("ins", "bulk"):
            key = "%s:%s:%s" % (v["api"], ",".join(v["shape"]), "ok" if v["ok"] else "err")
            shapes[key] = shapes.get(key, 0) + 1
        sigs = autoinc.signatures(v)
        if not sigs:
            st["conforming_steps"] += 1
        for sig, is_c12 in sigs:
            bucket = st["c12_divergences"] if is_c12 else st["other_divergences"]
            bucket[sig] = bucket.get(sig, 0) + 1
            if is_c12:
                chk.classify(sig, replay_dict(h[:step], tr["steps"][:step], v))
    st["statement_classes"] = shapes
    st["judge_tlc"] = jstats
    return st


def run(chk):
    thorough = chk.tier == "thorough"
    rng = random.Random(chk.seed)
    chk.assumptions += ["table t(id INT PRIMARY KEY AUTO_INCREMENT, v INT); v is a unique tag, so every stored row is attributed to its insert",
                        "generated values are read from the table after each step (and from RETURNING; both must agree)",
                        "explicit ids in a schedule are fixed by the canonical model run; the judge re-classifies them against the observed state",
                        "divergences that are not about generated values (C05/C06/C09 territory) are counted in the evidence and adopted, not reported here"]
    vlib.build_harness(); chk.mark("build")
    # (1) the reference checked against itself, all admissible generated values
    mc = vlib.run_tlc("MC_AutoInc.tla", reldl.cfg_with("MC_AutoInc.cfg", {"MaxOps": 4, "MaxId": 4} if thorough else {"MaxOps": 3}, "mc"), workers=8, timeout=2400)
    vlib.tlc_ok(mc, "MC_AutoInc")
    if mc["violated"]:
        raise vlib.ToolError("AutoInc.tla violates its own meta-invariant %s" % mc["violated"])
    chk.mark("tlc_mc")
    # (2) schedules
    depth = 3
    em, gstats = reldl.bfs("MC_AutoInc.tla", "Gen_AutoInc.cfg", {"MaxOps": depth})
    leaves = reldl.maximal(em)
    def cls(e):
        return tuple((s["op"]["k"], s["op"].get("api", ""), tuple(i["c"] for i in s["op"].get("items", [])), s["op"].get("w", "")) for s in e["hist"])
    nsample = 7000 if thorough else 1500
    picked = vlib.stratified_sample(leaves, cls, nsample, rng)
    # walks: the bulk APIs damage the table (C43), so most walks leave them out
    wn, wd = (600, 30) if thorough else (40, 14)
    ws = reldl.walks("MC_AutoInc.tla", "Gen_AutoInc.cfg", {"MaxOps": wd, "WithBulk": False}, wn, wd, chk.seed)
    ws += reldl.walks("MC_AutoInc.tla", "Gen_AutoInc.cfg", {"MaxOps": 8}, wn // 3, 8, chk.seed + 1000)
    chk.mark("tlc_gen")
    hists = [e["hist"] for e in picked] + [e["hist"] for e in ws]
    st = evaluate(chk, hists)
    need = ["sql:gen:ok", "sql:gen,gen:ok", "sql:far:ok", "sql:next:ok", "sql:gone:ok", "sql:dup:err"]
    missing = [n for n in need if not st["statement_classes"].get(n)]
    if missing:
        raise vlib.ToolError("statement classes never observed (vacuous run): %s" % missing)
    if st["generated_values_judged"] < 100:
        raise vlib.ToolError("only %d generated values were judged" % st["generated_values_judged"])
    chk.cov = {"states": mc["stats"].get("distinct", 0), "transitions": mc["stats"].get("generated", 0),
               "traces_validated_against_impl": st["traces"], "schedules_enumerated_by_tlc": len(em), "maximal_schedules": len(leaves),
               "schedules_replayed": len(picked), "random_walks_replayed": len(ws), "steps_judged": st["steps_judged"],
               "generated_values_judged": st["generated_values_judged"], "conforming_steps": st["conforming_steps"],
               "traces_cut_short": st["cut"], "c12_divergence_signatures": st["c12_divergences"],
               "divergences_of_other_properties_adopted": st["other_divergences"], "statement_classes": st["statement_classes"],
               "gen_tlc": gstats, "judge_tlc": st["judge_tlc"], "exhaustive": False,
               "samples": [autoinc.describe(h) for h in hists[:: max(1, len(hists) // 3)][:3]]}


def replay(chk, path):
    rep = json.load(open(path))["replay"]
    vlib.build_harness()
    st = evaluate(chk, [rep["hist"]])
    print("replayed: %s" % rep["sql"])
    print("  C12 divergences: %s" % json.dumps(st["c12_divergences"]))
    print("  other divergences (adopted): %s" % json.dumps(st["other_divergences"]))
    chk.cov = {"states": 1, "transitions": len(rep["hist"]), "traces_validated_against_impl": 1, "samples": [rep["sql"]], "replay_of": path}
    return chk.finish()

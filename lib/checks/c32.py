"""C32 - JSON documents round-trip through JSONB.

JsonGen.tla defines JSON values as a recursive structure (objects are SEQUENCES of pairs: unsorted and duplicate keys are
first-class; numbers and strings are named classes with several textual spellings), the operators of the property
(Lookup with a first/last policy for duplicate keys, Index, Path = fold of stepwise lookups, Normalize = read-back under
a policy, PathAny = every answer some choice of duplicates could give) and a generator: every scalar class at the root /
in an array / as an object value / as a key, every array and object of <= 3 members over a small alphabet, every key
sequence of length 2..5 over three keys with a duplicate, every wrapping spine to depth 2 (3 in the thorough tier) and
`-simulate` walks to depth 8.  TLC checks the operator laws on every document it emits and emits the expected answer of
every probe (all paths into the document, one absent key per object, one out-of-range index per array).

lib/formats.py renders each document as JSON TEXT in several spellings (whitespace, raw characters vs short escapes vs
\\uXXXX incl. surrogate pairs, number spellings such as -0 / 1e3 / 1.0E+3); the harness (jsonb-run) parses the text with
parsing::json::parse_json, builds JSONB (to_jsonb_bytes, and JsonbBuilder directly from the structure), reads the image
back (iterators, to_json_string) and answers every probe with JsonbView::get / array_get / get_path and
OwnedValue::jsonb_get / jsonb_get_path / jsonb_array_get.  A sample goes through SQL as well (INSERT '...' into a JSONB
column, SELECT d, d->'k', d->i, d#>'{a,b}').
"""
import json, os, random, re
import vlib, formats as F

LEVEL = "exploration"
MANIFEST = dict(cat=LEVEL, ref="DESIGN.md 6 (C31 C32 C33)",
    tech="TLA+ JsonGen.tla: recursive JSON values, Lookup/Index/Path/Normalize/PathAny with laws checked by TLC on every emitted document; "
         "documents rendered as JSON text in several spellings and replayed on parse_json / JsonbBuilder / JsonbView / OwnedValue::jsonb_* and through SQL",
    text="parse -> JSONB -> read-back yields an equal JSON value; every key / index / path probe answers as the spec says (duplicate keys: first or "
         "last, consistently); for all scalar classes, all small arrays/objects incl. unsorted and duplicate keys, all spines to depth 2-3, random walks to depth 8",
    note="numbers are IEEE doubles (JsonbValue::Number(f64) is the documented representation): a number class is equal to its nearest double; "
         "identity oracle over finite classes: the TLA+ content is the generator and the lookup laws, not the byte format")

SELFTEST = os.environ.get("VERIF_SELFTEST") == "1"


# ----------------------------------------------------------------------------- generation
def cfg(mode, depth, modes, flat_width=3, leaves="full"):
    return F.write_cfg("jg_%s_%d_%s.cfg" % (mode, depth, leaves),
                       'CONSTANTS Mode = "%s"  MaxDepth = %d  FlatWidth = %d  LeafMode = "%s"  GrowModes = {%s}\nSPECIFICATION Spec\nINVARIANT DepthOK\nINVARIANT LawsThenEmit\nCHECK_DEADLOCK FALSE\n'
                       % (mode, depth, flat_width, leaves, ", ".join('"%s"' % m for m in modes)))


def generate(chk):
    thorough = chk.tier == "thorough"
    nsim = 6 if thorough else 2
    walks = 40 if thorough else 10
    bfs = ["bare", "sib", "dupl", "dupf"]
    # quick: objects of the flat block up to 2 pairs, spines to depth 2 over a small leaf alphabet;
    # thorough: 3 pairs, spines to depth 2 over every scalar class and to depth 3 over the small alphabet
    jobs = [dict(name="static", module="MC_JsonGen.tla", cfg=cfg("static", 0, [], flat_width=3 if thorough else 2), timeout=1500),
            dict(name="grow", module="MC_JsonGen.tla", cfg=cfg("grow", 2, bfs, leaves="full" if thorough else "lite"), timeout=2400)]
    if thorough:
        jobs.append(dict(name="grow3", module="MC_JsonGen.tla", cfg=cfg("grow", 3, bfs, leaves="lite"), timeout=2400))
    deep = cfg("grow", 8, ["bare", "sib", "dupl", "dupf", "twin"])
    for k in range(nsim):
        jobs.append(dict(name="deep%d" % k, module="MC_JsonGen.tla", cfg=deep, simulate="num=%d" % walks, seed=chk.seed * 100 + k,
                         extra=["-depth", "9"], timeout=2400))
    res = F.tlc_many(jobs, workers=6 if thorough else 3)
    docs, tb, seen, stats = [], None, set(), {}
    for name, r in res.items():
        stats[name] = r["stats"] or {"emitted": len(r["emitted"])}
        for v in r["emitted"]:
            if v["grp"] == "tables":
                tb = F.JsonTables(v["tables"])
                continue
            key = json.dumps(v["doc"], sort_keys=True)
            if key in seen:
                continue
            seen.add(key)
            v["src"] = "deep" if name.startswith("deep") else ("grow" if name.startswith("grow") else name)
            v["probes"] = sorted(v["probes"], key=lambda p: json.dumps(p["steps"]))
            docs.append(v)
    if tb is None:
        raise vlib.ToolError("JsonGen did not emit its tables")
    return docs, tb, stats


# ----------------------------------------------------------------------------- document features
def classes_in(doc, acc=None):
    """scalar and key classes of a document: set of ("num"|"str"|"key", class)"""
    acc = set() if acc is None else acc
    t = doc["t"]
    if t in ("num", "str"):
        acc.add((t, doc["c"]))
    elif t == "arr":
        for e in doc["e"]:
            classes_in(e, acc)
    elif t == "obj":
        for p in doc["p"]:
            acc.add(("key", p["k"]))
            classes_in(p["v"], acc)
    return acc


def is_unsorted(doc, tb):
    if doc["t"] == "arr":
        return any(is_unsorted(e, tb) for e in doc["e"])
    if doc["t"] == "obj":
        ks = [tb.text_of(p["k"]).encode() for p in doc["p"]]
        return ks != sorted(ks) or any(is_unsorted(p["v"], tb) for p in doc["p"])
    return False


def construct_of(node):
    """name of the JSON construct of a (class-level or concrete) expected node"""
    t = node["t"]
    if t == "num":
        return "number." + node.get("c", "?")
    if t == "str":
        return "string." + node.get("c", "?")
    return {"arr": "array", "obj": "object", "null": "null", "bool": "bool", "missing": "missing"}[t]


def flip_bools(t):
    """selftest: a deliberately wrong expectation"""
    if t["t"] == "bool":
        return {"t": "bool", "b": not t["b"]}
    if t["t"] == "arr":
        return {"t": "arr", "e": [flip_bools(e) for e in t["e"]]}
    if t["t"] == "obj":
        return {"t": "obj", "p": [[k, flip_bools(v)] for k, v in t["p"]]}
    return t


class Expect:
    """Expected forms of one document, concrete and class-annotated side by side."""
    def __init__(self, d, tb):
        self.tb = tb
        self.forms = {"keepall": self.conc(d["doc"])}
        if d["dup"]:
            self.forms["first"] = self.conc(d["nf"])
            self.forms["last"] = self.conc(d["nl"])

    def conc(self, doc):
        t = self.annot(doc)
        return flip_bools(t) if SELFTEST else t

    def annot(self, doc):
        """concrete tree that keeps the class names (for blame)"""
        t = doc["t"]
        if t in ("null", "missing"):
            return {"t": t}
        if t == "bool":
            return {"t": "bool", "b": doc["b"]}
        if t == "num":
            return {"t": "num", "v": self.tb.nums[doc["c"]]["canon"], "c": doc["c"]}
        if t == "str":
            return {"t": "str", "s": self.tb.text_of(doc["c"]), "c": doc["c"]}
        if t == "arr":
            return {"t": "arr", "e": [self.annot(e) for e in doc["e"]]}
        return {"t": "obj", "p": [[self.tb.text_of(p["k"]), self.annot(p["v"])] for p in doc["p"]]}

    def match(self, obs):
        """names of the admissible forms the observed tree equals; plus the diff against the plain document"""
        ok = [k for k, f in self.forms.items() if F.tree_diff(f, obs) is None]
        return ok, (None if ok else F.tree_diff(self.forms["keepall"], obs))


# ----------------------------------------------------------------------------- judging one image
def obs_kind(o):
    if o == "missing":
        return "missing"
    if isinstance(o, dict):
        for k in ("v", "err", "panic", "notcontainer"):
            if k in o:
                return k
    return "other"


def judge_image(d, ex, img, image_name, devs, policy_votes, counters):
    """img: {"tree","text_back","probes"} of one JSONB image.  Appends raw deviations to devs."""
    tr = img["tree"]
    if "v" not in tr:
        devs.append(dict(kind="roundtrip", image=image_name, what="read_" + obs_kind(tr), node=None, detail=str(tr)[:200]))
        return
    ok, diff = ex.match(tr["v"])
    if not ok:
        devs.append(dict(kind="roundtrip", image=image_name, what=diff[3], node=diff[1], detail={"at": list(diff[0])[:8], "observed": str(diff[2])[:120]}))
        counters["probes_not_judged_because_the_image_is_wrong"] += len(img["probes"])
        return
    tbk = img["text_back"]
    if "v" in tbk:
        try:
            t2 = F.tree_of_json_text(tbk["v"])
            ok2, diff2 = ex.match(t2)
            if not ok2:
                devs.append(dict(kind="roundtrip", image=image_name, what="to_json_string:" + diff2[3], node=diff2[1], detail={"text": tbk["v"][:120]}))
        except (ValueError, RecursionError) as e:
            devs.append(dict(kind="roundtrip", image=image_name, what="to_json_string:not_json", node=None, detail={"text": tbk["v"][:120], "why": str(e)[:80]}))
    else:
        devs.append(dict(kind="roundtrip", image=image_name, what="to_json_string:" + obs_kind(tbk), node=None, detail=str(tbk)[:200]))
    # ---- probes
    for pr, o in zip(d["probes"], img["probes"]):
        steps = pr["steps"]
        f = ex.conc(pr["f"]); l = ex.conc(pr["l"]) if "l" in pr else f
        fn = ex.conc(pr["fn"]) if "fn" in pr else f
        ln = ex.conc(pr["ln"]) if "ln" in pr else l
        anyset = [ex.conc(a) for a in pr.get("any", [])]
        dupish = "any" in pr
        for api, ob in o.items():
            if api == "nav" and not steps:
                continue
            op = {"path": "path", "owned_path": "path", "owned_get": "key", "owned_index": "index"}.get(api) or ("key" if "k" in steps[-1] else "index")
            counters["probe:" + op] += 1
            kind = obs_kind(ob)

            def eq(e):
                if e["t"] == "missing":
                    return kind in ("missing", "err", "notcontainer")     # "no such member" may be None or an error: the property leaves it open
                return kind == "v" and F.tree_diff(e, ob["v"]) is None
            compat = set()
            if eq(f) or eq(fn):
                compat.add("first")
            if eq(l) or eq(ln):
                compat.add("last")
            if compat:
                if f != l or fn != ln:
                    policy_votes.append((frozenset(compat), dict(image=image_name, api=api, steps=steps)))
                continue
            if kind == "panic":
                devs.append(dict(kind="probe", image=image_name, api=api, op=op, what="panic", node=f, steps=steps, detail=str(ob)[:200]))
            elif dupish and any(eq(a) for a in anyset):
                devs.append(dict(kind="probe", image=image_name, api=api, op=op, what="arbitrary_duplicate", node={"t": "dupkey"}, steps=steps, detail=str(ob)[:160]))
            else:
                node = f
                what = "missing" if kind in ("missing", "err", "notcontainer") else "value"
                if kind == "v" and f["t"] != "missing":
                    df = F.tree_diff(f, ob["v"])
                    node, what = df[1], df[3]
                elif f["t"] == "missing":
                    what = "value_for_absent_member"
                devs.append(dict(kind="probe", image=image_name, api=api, op=op, what=what, node=node, steps=steps, detail=str(ob)[:160]))


def node_name(node):
    if node is None:
        return "document"
    if node.get("t") == "dupkey":
        return "object.dupkey"
    return construct_of(node)


# ----------------------------------------------------------------------------- the SQL path
SIMPLE_KEY = re.compile(r"^[A-Za-z]+$")


def sql_quote(s):
    return "'" + s.replace("'", "''") + "'"


def sql_probe(steps, tb):
    """SQL expressions for a probe: chained -> and, for simple key-only paths, #>"""
    exprs = []
    e = "d"
    for st in steps:
        e += "->" + (sql_quote(tb.text_of(st["k"])) if "k" in st else str(st["i"]))
    exprs.append(("arrow", e))
    if len(steps) >= 2 and all("k" in st and SIMPLE_KEY.match(tb.text_of(st["k"])) for st in steps):
        exprs.append(("hashpath", "d#>'{" + ",".join(tb.text_of(st["k"]) for st in steps) + "}'"))
    return exprs


def sql_value_tree(v, decoded):
    """the JSON-ish tree of a value returned by sql-run (decoded: hex -> tree of JSONB results)"""
    if v is None:
        return "sqlnull"
    if isinstance(v, bool):
        return {"t": "bool", "b": v}
    if isinstance(v, int):
        return {"t": "num", "v": str(v)}
    if isinstance(v, str):
        return {"t": "str", "s": v}
    if isinstance(v, dict):
        if "f" in v:
            return {"t": "num", "v": v["f"]}
        if "bool" in v:
            return {"t": "bool", "b": v["bool"]}
        if "jsonb" in v:
            return decoded.get(v["jsonb"], {"t": "undecodable"})
    return {"t": "other", "v": str(v)[:60]}


# ----------------------------------------------------------------------------- blame localisation by isolation
def char_category(cp):
    if cp < 0x20:
        return "U+%04X" % cp
    if cp == 0x22:
        return "quote"
    if cp == 0x5C:
        return "backslash"
    if cp == 0x2F:
        return "slash"
    if cp < 0x7F:
        return "ascii"
    if cp < 0xA0:
        return "del_c1"
    if cp < 0x10000:
        return "bmp"
    return "astral"


def char_spelling(cp, esc):
    r = F.render_string([cp], esc)[1:-1]
    if r.startswith("\\u"):
        return "surrogate_pair_escape" if len(r) == 12 else "u_escape"
    if r.startswith("\\"):
        return "short_escape"
    return "raw"


def isolate(failing, run_texts, tb):
    """Delta-debugging of documents the parser rejects.  failing: list of (doc, spelling); run_texts(list of texts) ->
    {text: failed?} runs texts on the real parser.  Returns {index: (construct, spelling)}:
      spelling   the spelling dimensions whose reversion to the plain spelling makes the document pass ("any" when the
                 plain spelling fails as well); for a blamed character: how that character is spelled
      construct  the scalar / key classes that fail on their own in that spelling, refined to the failing characters"""
    plan, texts = [], set()
    for i, (doc, sp) in enumerate(failing):
        variants = {"plain": F.PLAIN}
        for dim in ("ws", "esc", "num"):
            if sp[dim] != F.PLAIN[dim]:
                variants["fix_" + dim] = dict(sp, **{dim: F.PLAIN[dim]})
        leaves = {}
        for kind, c in sorted(classes_in(doc)):
            if kind == "key":
                leaves[("key", c)] = {"t": "obj", "p": [{"k": c, "v": {"t": "null"}}]}
            else:
                leaves[(kind, c)] = {"t": "arr", "e": [{"t": kind, "c": c}]}
        item = dict(variants={k: F.render(doc, tb, v) for k, v in variants.items()},
                    leaves={k: F.render(v, tb, sp) for k, v in leaves.items()}, sp=sp, doc=doc)
        plan.append(item)
        texts.update(item["variants"].values()); texts.update(item["leaves"].values())
    failed = run_texts(sorted(texts))
    # second round: the characters of the string / key classes that fail on their own
    chartexts = {}
    for item in plan:
        item["bad"] = sorted(k for k, t in item["leaves"].items() if failed[t])
        for kind, c in item["bad"]:
            if kind in ("str", "key") and tb.strs[c]["rep"] == 1:
                for cp in set(tb.strs[c]["cp"]):
                    lit = F.render_string([cp], item["sp"]["esc"])
                    chartexts[(cp, item["sp"]["esc"], "str")] = "[" + lit + "]"
                    chartexts[(cp, item["sp"]["esc"], "key")] = "{" + lit + ":null}"
    cfailed = run_texts(sorted(set(chartexts.values()))) if chartexts else {}
    out = {}
    for i, item in enumerate(plan):
        sp = item["sp"]
        if failed[item["variants"]["plain"]]:
            spelling = "any"
        else:
            fixes = [k[4:] for k, t in item["variants"].items() if k.startswith("fix_") and not failed[t]]
            dims = fixes if fixes else [d for d in ("ws", "esc", "num") if sp[d] != F.PLAIN[d]]
            spelling = ",".join("%s=%s" % (d, sp[d]) for d in sorted(dims))
        pairs = set()
        for kind, c in item["bad"]:
            if kind == "num":
                sps = tb.nums[c]["sp"]
                pairs.add(("number." + c, re.sub(r"num=\d+", "num=" + sps[sp["num"] % len(sps)], spelling)))
                continue
            badchars = []
            if tb.strs[c]["rep"] == 1:
                for cp in sorted(set(tb.strs[c]["cp"])):
                    fs, fk = cfailed[chartexts[(cp, sp["esc"], "str")]], cfailed[chartexts[(cp, sp["esc"], "key")]]
                    if fs or fk:
                        badchars.append(("string" if fs else "key", cp))
            if badchars:
                for pos, cp in badchars:
                    pairs.add(("%s.char.%s" % (pos, char_category(cp)), char_spelling(cp, sp["esc"]) if (spelling == "any" or "esc=" in spelling) else spelling))
            else:
                pairs.add((("key." if kind == "key" else "string.") + c, spelling))
        out[i] = sorted(pairs) if pairs else [("structure", spelling)]
    return out


# ----------------------------------------------------------------------------- main
def run(chk):
    thorough = chk.tier == "thorough"
    chk.assumptions += ["numbers are IEEE doubles: a number class equals its nearest double (JsonbValue::Number(f64)); -0 = 0, 1e3 = 1000",
                        "object member order is not part of a JSON value; with duplicate keys the read-back may keep every pair, or only the first, or only the last",
                        "a lookup of an absent member may answer None or an error (the property leaves it open); a lookup on a duplicated key may answer the first or the last pair, consistently over the run",
                        "SQL path: -> on a JSON null / absent member both give SQL NULL and JSON booleans surface as SQL booleans (documented value mapping of the operators)"]
    vlib.build_harness(); chk.mark("build")
    docs, tb, stats = generate(chk); chk.mark("tlc")
    rng = random.Random(chk.seed)
    # ---- cases: every document in the plain spelling and in seeded random spellings
    nsp = 3 if thorough else 1
    cases = []
    for di, d in enumerate(docs):
        sps = [F.PLAIN]
        for _ in range(nsp):
            sps.append({"ws": rng.choice(F.WS_MODES), "esc": rng.choice(F.ESC_MODES), "num": rng.randrange(0, 6)})
        probes = [[({"k": tb.text_of(s["k"])} if "k" in s else {"i": s["i"]}) for s in p["steps"]] for p in d["probes"]]
        for j, sp in enumerate(sps):
            c = {"id": "%d.%d" % (di, j), "text": F.render(d["doc"], tb, sp), "probes": probes}
            if j == 0:
                c["tree"] = F.concrete(d["doc"], tb)
            cases.append((c, di, sp))
    res = F.run_harness("jsonb-run", [c for c, _, _ in cases], "jsonb", timeout=2400); chk.mark("harness")
    from collections import Counter
    counters = Counter()
    policy_votes = []
    devs_all = []        # (case tuple, deviation)
    parse_fail = []      # indices into cases
    expects = {}
    for ci, (c, di, sp) in enumerate(cases):
        d = docs[di]
        ex = expects.get(di) or expects.setdefault(di, Expect(d, tb))
        r = res[c["id"]]
        devs = []
        p = r.get("parse")
        if p is None:
            raise vlib.ToolError("no parse result for case " + c["id"])
        if "v" in p:
            ok, diff = ex.match(p["v"])
            if not ok:
                devs.append(dict(kind="roundtrip", image="parser", what="parse:" + diff[3], node=diff[1], detail={"at": list(diff[0])[:8], "observed": str(diff[2])[:120]}))
            elif not p["rest_is_ws"]:
                devs.append(dict(kind="roundtrip", image="parser", what="parse:stops_before_the_end", node=None, detail={"consumed": p["consumed"], "len": p["len"]}))
            else:
                judge_image(d, ex, r["parsed_image"], "parsed", devs, policy_votes, counters)
        else:
            parse_fail.append(ci)
            devs.append(dict(kind="parse", image="parser", what="parse_" + obs_kind(p), node=None, detail=str(p)[:200]))
        if "direct_image" in r:
            if "tree" in r["direct_image"]:
                judge_image(d, ex, r["direct_image"], "built", devs, policy_votes, counters)
            else:
                devs.append(dict(kind="roundtrip", image="built", what="builder_panic", node=None, detail=str(r["direct_image"])[:200]))
        counters["cases_ok" if not devs else "cases_with_deviation"] += 1
        for dv in devs:
            devs_all.append((ci, dv))
    chk.mark("judge")

    # ---- blame localisation for texts the parser rejects
    def run_texts(texts):
        sub = [{"id": i, "text": t, "probes": []} for i, t in enumerate(texts)]
        rr = F.run_harness("jsonb-run", sub, "isolate")
        return {t: "v" not in rr[i]["parse"] for i, t in enumerate(texts)}
    blame = {}
    if parse_fail:
        uniq = {}
        for ci in parse_fail:
            _, di, sp = cases[ci]
            uniq.setdefault((di, json.dumps(sp, sort_keys=True)), ci)
        keys = list(uniq)
        got = isolate([(docs[di]["doc"], json.loads(spj)) for di, spj in keys], run_texts, tb)
        for n, k in enumerate(keys):
            blame[k] = got[n]
    chk.mark("isolate")

    # ---- the SQL path on a seeded sample
    sql_stats = sql_path(chk, docs, tb, rng, 1500 if thorough else 350, devs_all, cases, counters, expects)
    chk.mark("sql")

    # ---- signatures
    per_sig = {}
    first_example = {}
    for ci, dv in devs_all:
        c, di, sp = cases[ci] if isinstance(ci, int) else ci
        sigs = None
        if dv["kind"] == "parse":
            sigs = ["%s|%s|roundtrip:%s" % (construct, spelling, dv["what"]) for construct, spelling in blame[(di, json.dumps(sp, sort_keys=True))]]
        elif dv["kind"] == "sqlparse":
            sigs = ["%s|%s|roundtrip:%s@sql" % (construct, spelling, dv["what"]) for construct, spelling in dv["blame"]]
        elif dv["kind"] == "roundtrip":
            sig = "%s|%s|roundtrip:%s%s" % (node_name(dv["node"]), "any", dv["what"], "" if dv["image"] != "sql" else "@sql")
        else:
            sig = "%s|%s|%s:%s%s" % (node_name(dv["node"]), "any", dv["op"], dv["what"], "" if dv["image"] != "sql" else "@sql")
        for sig in (sigs if sigs is not None else [sig]):
            per_sig[sig] = per_sig.get(sig, 0) + 1
            if sig not in first_example:
                first_example[sig] = True
                chk.classify(sig, {"doc": docs[di]["doc"], "text": c["text"][:2000], "spelling": sp, "deviation": {k: v for k, v in dv.items() if k != "node"},
                                   "replay_case": {"text": c["text"] if len(c["text"]) < 200000 else None, "probes": c["probes"][:40], "tree": c.get("tree")}})
    # ---- duplicate keys: one policy must explain every lookup of the run
    only_first = [v for s, v in policy_votes if s == {"first"}]
    only_last = [v for s, v in policy_votes if s == {"last"}]
    if only_first and only_last:
        sig = "object.dupkey|any|key:arbitrary_duplicate"
        per_sig[sig] = per_sig.get(sig, 0) + 1
        chk.classify(sig, {"deviation": "no single winner policy explains the lookups of this run", "answers_only_first_explains": len(only_first),
                           "answers_only_last_explains": len(only_last), "first_witness": only_first[0], "last_witness": only_last[0]})
    # ---- non-vacuity
    allc = set()
    for d in docs:
        allc |= classes_in(d["doc"])
    depth_hist = Counter(d["depth"] for d in docs)
    need = [("num", n) for n in tb.nums] + [("str", s) for s in tb.strs if not s.startswith("k")] + [("key", "ka"), ("key", "kA"), ("key", "empty"), ("key", "astral")]
    for k in need:
        if k not in allc:
            raise vlib.ToolError("class never generated: %s" % (k,))
    for dep in range(0, 9):
        if not depth_hist.get(dep):
            raise vlib.ToolError("no document of nesting depth %d generated" % dep)
    ndup = sum(1 for d in docs if d["dup"])
    nuns = sum(1 for d in docs if is_unsorted(d["doc"], tb))
    if ndup < 50 or nuns < 50:
        raise vlib.ToolError("too few documents with duplicate (%d) / unsorted (%d) keys" % (ndup, nuns))
    spm = Counter("%s/%s" % (sp["ws"], sp["esc"]) for _, _, sp in cases)
    for ws in F.WS_MODES:
        for esc in F.ESC_MODES:
            if not spm.get("%s/%s" % (ws, esc)):
                raise vlib.ToolError("spelling never used: %s/%s" % (ws, esc))
    chk.cov = {
        "evaluations": len(cases) + sql_stats.get("documents", 0), "distinct_nontrivial": sum(1 for d in docs if d["depth"] >= 1),
        "rule": "a document is non-trivial when it is an array or an object (nesting depth >= 1)",
        "documents": len(docs), "by_source": dict(Counter(d["src"] for d in docs)), "depth_histogram": {str(k): v for k, v in sorted(depth_hist.items())},
        "documents_with_duplicate_keys": ndup, "documents_with_unsorted_keys": nuns, "spellings": dict(spm),
        "classes": {"numbers": len(tb.nums), "strings": len(tb.strs)}, "probe_answers_judged": {k[6:]: v for k, v in counters.items() if k.startswith("probe:")},
        "cases_identical_on_every_path": counters["cases_ok"], "cases_with_deviation": counters["cases_with_deviation"],
        "probes_not_judged_because_the_image_is_wrong": counters["probes_not_judged_because_the_image_is_wrong"],
        "duplicate_key_lookups": {"explained_by_both": sum(1 for s, _ in policy_votes if len(s) == 2), "only_first": len(only_first), "only_last": len(only_last)},
        "sql_path": sql_stats, "tlc": stats, "per_signature": per_sig, "exhaustive": False,
        "laws_checked_by_tlc": ["LawPath (three definitions of Path agree; answers lie in PathAny)", "LawKey", "LawIndex", "LawNorm (lookup commutes with normalisation)"],
        "samples": [c["text"][:160] for c, _, _ in cases[:: max(1, len(cases) // 3)][:3]],
    }
    if SELFTEST and not chk.violations:
        raise vlib.ToolError("selftest: a deliberately wrong expectation did not produce a violation")


def sql_path(chk, docs, tb, rng, nsample, devs_all, cases, counters, expects):
    """INSERT the text into a JSONB column and read it back with SELECT d / d->'k' / d->i / d#>'{a,b}'."""
    pool = [ci for ci, (c, di, sp) in enumerate(cases) if len(c["text"]) < 20000]
    pick = vlib.stratified_sample(pool, lambda ci: (docs[cases[ci][1]]["src"], docs[cases[ci][1]]["depth"], cases[ci][2]["esc"]), nsample, rng)
    sqlcases, meta = [], {}
    for ci in pick:
        c, di, sp = cases[ci]
        d = docs[di]
        ops = [{"k": "exec", "sql": "CREATE TABLE j (id INT, d JSONB)"}, {"k": "exec", "sql": "INSERT INTO j VALUES (1, %s)" % sql_quote(c["text"])},
               {"k": "query", "sql": "SELECT d FROM j"}]
        prs = []
        for pi, pr in enumerate(d["probes"]):
            if not pr["steps"] or len(pr["steps"]) > 4:
                continue
            for how, e in sql_probe(pr["steps"], tb):
                ops.append({"k": "query", "sql": "SELECT %s FROM j" % e})
                prs.append((pi, how))
            if len(prs) >= 14:
                break
        sqlcases.append({"id": c["id"], "ops": ops})
        meta[c["id"]] = (ci, prs)
    inp, outp = os.path.join(vlib.scratch(), "sqlj_in.ndjson"), os.path.join(vlib.scratch(), "sqlj_out.ndjson")
    vlib.write_ndjson(inp, sqlcases)
    vlib.run_vh(["sql-run", "--in", inp, "--out", outp, "--jobs", min(vlib.NCPU, 8)], timeout=2400)
    out = {r["id"]: r["res"] for r in vlib.read_ndjson(outp)}
    # decode every JSONB image that came back
    hexes = set()
    for rs in out.values():
        for r in rs:
            for row in r.get("rows", []) or []:
                for v in row:
                    if isinstance(v, dict) and "jsonb" in v:
                        hexes.add(v["jsonb"])
    hexes = sorted(hexes)
    dec = F.run_harness("jsonb-run", [{"id": i, "hex": h, "probes": []} for i, h in enumerate(hexes)], "sqldecode") if hexes else {}
    decoded = {h: (dec[i]["image"]["tree"].get("v") or {"t": "undecodable"}) for i, h in enumerate(hexes)}
    stats = {"documents": len(sqlcases), "insert_refused": 0, "roundtrip_ok": 0, "probes_judged": 0, "probes_ok": 0}
    insert_fail = []
    for sc in sqlcases:
        ci, prs = meta[sc["id"]]
        c, di, sp = cases[ci]
        d = docs[di]
        ex = expects[di]
        rs = out.get(sc["id"])
        if rs is None or len(rs) < 3 or "ok" not in rs[0]:
            raise vlib.ToolError("sql-run gave no usable result for %s: %s" % (sc["id"], str(rs)[:200]))
        if "ok" not in rs[1]:
            stats["insert_refused"] += 1
            insert_fail.append((ci, "insert_" + ("panic" if "panic" in rs[1] else "error"), str(rs[1])[:160]))
            continue
        sel = rs[2]
        if not sel.get("rows") or len(sel["rows"]) != 1:
            devs_all.append((ci, dict(kind="roundtrip", image="sql", what="select_" + ("panic" if "panic" in sel else "error"), node=None, detail=str(sel)[:160])))
            continue
        t = sql_value_tree(sel["rows"][0][0], decoded)
        ok, diff = ex.match(t) if isinstance(t, dict) else ([], ((), ex.forms["keepall"], t, "sql_null"))
        if not ok:
            devs_all.append((ci, dict(kind="roundtrip", image="sql", what=diff[3], node=diff[1], detail={"at": list(diff[0])[:8], "observed": str(diff[2])[:120]})))
            continue
        stats["roundtrip_ok"] += 1
        for (pi, how), r in zip(prs, rs[3:]):
            pr = d["probes"][pi]
            stats["probes_judged"] += 1
            f = ex.conc(pr["f"]); l = ex.conc(pr["l"]) if "l" in pr else f
            cands = [f, l] + ([ex.conc(pr["fn"]), ex.conc(pr["ln"])] if "fn" in pr else []) + [ex.conc(a) for a in pr.get("any", [])]
            op = "path" if how == "hashpath" else ("key" if "k" in pr["steps"][-1] else "index")
            if "rows" not in r or len(r["rows"]) != 1:
                devs_all.append((ci, dict(kind="probe", image="sql", api=how, op=op, what="panic" if "panic" in r else "error", node=f, steps=pr["steps"], detail=str(r)[:160])))
                continue
            t = sql_value_tree(r["rows"][0][0], decoded)

            def eq(e):
                if t == "sqlnull":
                    return e["t"] in ("missing", "null")
                return e["t"] != "missing" and F.tree_diff(e, t) is None
            if any(eq(e) for e in cands):          # duplicate keys: any duplicate is tolerated here, the binary lookups are judged on the image
                stats["probes_ok"] += 1
                continue
            node, what = f, "value"
            if isinstance(t, dict) and f["t"] != "missing":
                df = F.tree_diff(f, t)
                node, what = df[1], df[3]
            elif t == "sqlnull":
                what = "sql_null"
            devs_all.append((ci, dict(kind="probe", image="sql", api=how, op=op, what=what, node=node, steps=pr["steps"], detail=str(t)[:160])))
    # blame localisation for refused inserts
    if insert_fail:
        def run_texts(texts):
            sub = [{"id": i, "ops": [{"k": "exec", "sql": "CREATE TABLE j (id INT, d JSONB)"}, {"k": "exec", "sql": "INSERT INTO j VALUES (1, %s)" % sql_quote(t)}]} for i, t in enumerate(texts)]
            vlib.write_ndjson(inp, sub)
            vlib.run_vh(["sql-run", "--in", inp, "--out", outp, "--jobs", min(vlib.NCPU, 8)], timeout=2400)
            rr = {r["id"]: r["res"] for r in vlib.read_ndjson(outp)}
            return {t: "ok" not in rr[i][1] for i, t in enumerate(texts)}
        got = isolate([(docs[cases[ci][1]]["doc"], cases[ci][2]) for ci, _, _ in insert_fail], run_texts, tb)
        for n, (ci, what, detail) in enumerate(insert_fail):
            devs_all.append((ci, dict(kind="sqlparse", image="sql", what=what, blame=got[n], node=None, detail=detail)))
    return stats


def replay(chk, path):
    rep = json.load(open(path))["replay"]
    vlib.build_harness()
    rc = rep.get("replay_case")
    if not rc or not rc.get("text"):
        print(json.dumps(rep, indent=1)[:3000])
        vlib.cleanup()
        return 1
    case = {"id": 0, "text": rc["text"], "probes": rc["probes"]}
    if rc.get("tree"):
        case["tree"] = rc["tree"]
    r = F.run_harness("jsonb-run", [case], "replay")[0]
    print("text:", rc["text"][:400])
    print("expected document:", json.dumps(rep.get("doc"))[:600])
    print("recorded deviation:", json.dumps(rep.get("deviation"))[:600])
    print("parse:", json.dumps(r.get("parse"))[:600])
    for name in ("parsed_image", "direct_image"):
        if name in r and "tree" in r[name]:
            print(name, "tree:", json.dumps(r[name]["tree"])[:600])
            for steps, o in zip(rc["probes"], r[name]["probes"]):
                print("  probe", json.dumps(steps)[:80], "->", json.dumps(o)[:300])
    vlib.cleanup()
    return 1

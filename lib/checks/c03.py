"""C03 - WAL replay applies exactly the longest valid frame prefix.

(A) TLC: MC_Wal (repaired design, invariants NoOverwriteNoPhantom / ReplayExactOutsideKF / CursorIsOffset)
    and MC_Wal_unfixed (the pinned code's cursor handling; TLC must still find the counterexample, which
    shows that the model would predict the defect if it came back).
(B) every transition TLC explores (history + expected observation) is replayed on the real Wal.
"""
import os, random, json
import vlib

LEVEL = "model_checking"


def signature(rec):
    hist = rec.get("hist", [])
    ops = [o["op"] for o in hist]
    fault = next((o for o in hist if o["op"] in ("cut", "damage")), None)
    fk = ""
    if fault:
        fk = fault["op"] + ":" + (fault.get("where") or fault.get("kind"))
    return fk, ops


def run(chk, only_case=None):
    thorough = chk.tier == "thorough"
    chk.assumptions += [
        "page image = one version byte repeated; frames are distinguished by version",
        "segment files are parsed by the harness with its own CRC-64/ECMA-182 implementation",
        "faults: one cut or one damaged/zero-filled slot per history (MaxFaults=1), abstract classes instantiated at "
        + ("every header byte x {01,80,FF}, body stride 1021/257" if thorough else "representative header/body offsets"),
    ]
    vlib.build_harness(); chk.mark('build')
    ops = 5 if thorough else 4
    # (A) exhaustive model check of the design
    cfg = vlib.scratch() + "/MC_Wal.cfg"
    base = open(os.path.join(vlib.SPEC, "MC_Wal.cfg")).read().replace("MaxOps = 4", "MaxOps = %d" % ops)
    open(cfg, "w").write(base)
    mc = vlib.run_tlc("MC_Wal.tla", cfg, coverage=True, timeout=1500)
    vlib.tlc_ok(mc, "MC_Wal")
    if mc["violated"]:
        raise vlib.ToolError("the repaired WAL design violates %s in the model: spec error\n%s" % (mc["violated"], mc["out"][-2000:]))
    never = [a for a, (d, t) in mc["coverage"].items() if t == 0 and a not in ("Init",)]
    if never:
        raise vlib.ToolError("vacuous model run, actions never taken: %s" % never)
    unf = vlib.run_tlc("MC_Wal.tla", os.path.join(vlib.SPEC, "MC_Wal_unfixed.cfg"), timeout=600)
    vlib.tlc_ok(unf, "MC_Wal_unfixed")
    if "NoOverwriteNoPhantom" not in unf["violated"]:
        raise vlib.ToolError("model of the unrepaired cursor handling no longer exhibits the defect (binding lost)")
    chk.mark('tlc_mc')
    # (B) behaviours
    gcfg = vlib.scratch() + "/Gen_Wal.cfg"
    open(gcfg, "w").write(open(os.path.join(vlib.SPEC, "Gen_Wal.cfg")).read().replace("MaxOps = 4", "MaxOps = %d" % ops))
    gen = vlib.tlc_emit("MC_Wal.tla", gcfg, timeout=1500)
    cases = gen["emitted"]; chk.mark('tlc_gen')
    if len(cases) < 1000:
        raise vlib.ToolError("too few behaviours generated: %d" % len(cases))
    rng = random.Random(chk.seed)
    total = len(cases)
    if not thorough:
        # stratify by (last op, fault class): every class of transition stays represented
        def key(c):
            h = c["hist"]
            f = next((o for o in h if o["op"] in ("cut", "damage")), None)
            return (h[-1]["op"], f["op"] + (f.get("where") or f.get("kind")) if f else "", len(h))
        cases = vlib.stratified_sample(cases, key, 6000, rng)
    inp = vlib.scratch() + "/wal_cases.ndjson"
    outp = vlib.scratch() + "/wal_res.ndjson"
    vlib.write_ndjson(inp, cases)
    vlib.run_vh(["wal-replay", "--in", inp, "--out", outp, "--jobs", vlib.NCPU, "--sweep", chk.tier], timeout=3000)
    res = vlib.read_ndjson(outp); chk.mark('replay')
    kinds = {}
    nontrivial = set()
    for r in res:
        kinds[r["kind"]] = kinds.get(r["kind"], 0) + 1
        if r["kind"] == "ok":
            continue
        fk, ops_ = signature(r)
        kfz, kfi = r.get("kfz"), r.get("kfi")
        if r["kind"] == "recover_as_impl_model" and (kfz or kfi):
            sig = "zero_slot_replayed_as_frame" if kfz else "fault_in_closed_segment_later_segments_still_applied"
        elif r["kind"] == "panic":
            sig = "panic:" + fk + ":" + ops_[-1]
        else:
            sig = "%s:%s:last=%s" % (r["kind"], fk or "nofault", ops_[-1])
        chk.classify(sig, {"hist": r.get("hist"), "variant": r.get("variant"), "kind": r["kind"], "detail": r.get("detail"),
                           "expected_recover": r.get("exp_ref"), "impl_model_recover": r.get("exp_impl"), "observed_recover": r.get("obs_rec"),
                           "expected_files": r.get("exp_files"), "observed_files": r.get("obs_files")})
    distinct_hist = len({json.dumps(c["hist"], sort_keys=True) for c in cases})
    chk.cov = {
        "states": mc["stats"]["distinct"], "transitions": mc["stats"]["generated"],
        "traces_validated_against_impl": len(res),
        "behaviours_generated_by_tlc": total, "behaviours_replayed": len(cases), "distinct_histories": distinct_hist,
        "concrete_executions": len(res), "result_kinds": kinds,
        "model_constants": {"Files": [0, 1], "Pages": [0, 1], "MaxSeg": 2, "MaxOps": ops, "MaxFaults": 1},
        "actions_covered": {a: t for a, (d, t) in mc["coverage"].items()},
        "unrepaired_model_counterexample_found": True,
        "exhaustive": thorough,
        "samples": [{"hist": c["hist"], "expected": c["obs"]} for c in cases[:: max(1, len(cases) // 3)][:3]],
    }

"""C23 - decoders of stored bytes reject corruption without crashing.

Corruption.tla is the fault model: the file inventory of a valid database by REGION (meta / catalog / table / index /
toast / HNSW-index files: header fields, B-tree pages by role and region; WAL frames) x fault kind x two database
shapes, and decoder x sample x byte position (or page region) x fault kind for the public byte-level decoders, plus the
required outcome class of everything that follows (Open and every later operation / every accessor returns Ok or Err;
garbage values are allowed, detection is not demanded). TLC enumerates the fault descriptors; harness/src/corrupt.rs
resolves each region to bytes of the real files with TurDB's own header types, applies the fault to a copy and runs
open / scans / lookups / writes / checkpoint / close / reopen (or the decoder) in a watchdogged child process.
"""
import os, re, json, random, collections, threading
import vlib, robust

LEVEL = "fault_enumeration"
MANIFEST = dict(cat=LEVEL, ref="DESIGN.md 3.12, 6 (C23)",
    tech="TLA+ fault model Corruption.tla (file kind x region x fault kind x database shape; decoder x sample x position x fault kind, with the "
         "admissible outcome classes) enumerated by TLC; each fault descriptor resolved to bytes of real TurDB files / valid encodings, applied to a "
         "copy, then Database::open + scans + index lookups + writes + checkpoint + close + reopen (or every public accessor of the decoder) run in a "
         "watchdogged child process; outcome classes compared with the spec's Allowed = {ok, err}",
    text="for every enumerated single fault (zero / 0xFF / junk fill, one-bit flips at first / middle / last byte, truncation at / inside, "
         "extension) of every listed region of two database shapes, and every listed byte fault of valid record / key / varint / JSONB / array / "
         "catalog / WAL-frame / header / page encodings, no step panicked, crashed the process or hung - except the listed findings",
    note="NOT 'all byte strings': only structured single faults of the listed regions and positions of valid files / encodings; the two shapes are "
         "fixed; results that are wrong but returned as Ok are allowed by the property and not judged")

WATCHDOG_MS = 40000
CONFIRM_MS = 120000
VMEM_MB = 4096


def _cfg(**repl):
    txt = open(os.path.join(vlib.SPEC, "Gen_Corruption.cfg")).read()
    for k, v in repl.items():
        txt, n = re.subn(r'\b%s = (\{[^}]*\}|\S+)' % k, "%s = %s" % (k, v), txt)
        if n != 1:
            raise vlib.ToolError("cannot set %s in Gen_Corruption.cfg" % k)
    path = os.path.join(vlib.scratch(), "Gen_Corruption_x.cfg")
    open(path, "w").write(txt)
    return path


def field_of(region):
    """region without the page role / frame pick: root.page_header.cell_count -> page_header.cell_count"""
    r = re.sub(r'^(root|leaf\.first|leaf\.middle|leaf\.last|interior|other)\.', '', region)
    r = re.sub(r'^frame\.(first|middle|last)\.?', 'frame.', r).rstrip('.')
    r = re.sub(r'^(slot|cell)\.(first|middle|last)', r'\1', r)
    return r


def kind_class(kind):
    """fault classes of the model: the content of the region is overwritten (zero / ff / junk / one flipped bit / +1), the file or
    sample ends early, or it is longer than it should be"""
    return "trunc" if kind.startswith("trunc") else "extend" if kind.startswith("extend") else "none" if kind == "none" else "overwrite"


def target_of(f):
    if f["mode"] == "file":
        return "file:%s" % f["file"]
    return "decoder:%s" % f["decoder"]


def where_of(f):
    if "region" in f:
        return field_of(f["region"])
    return "byte"


def observe(rec):
    """-> (cls, detail): the first non-admissible step decides; otherwise 'err' if any step erred, else 'ok'."""
    if rec.get("outcome") == "hang":
        return "hang", {"at": rec.get("at")}
    if rec.get("outcome") == "crash":
        st = rec.get("status") or {}
        return "crash", {"at": rec.get("at"), "signal": st.get("signal"), "code": st.get("code")}
    if "fatal" in rec:
        return "fatal", {"msg": rec["fatal"]}
    if "panic" in rec and "steps" not in rec:
        return "panic", {"at": "harness", "panic": rec["panic"], "site": robust.site_of(rec)}
    if rec.get("resolved") is None and "steps" not in rec:
        return "absent", {"why": rec.get("why")}
    cls, det = "ok", {}
    for s in rec["steps"]:
        if s["cls"] == "panic":
            return "panic", {"at": s["op"], "panic": s.get("panic"), "site": robust.site_of(s), "loc": s.get("loc")}
        if s["cls"] == "err" and cls == "ok":
            cls, det = "err", {"at": s["op"], "err": s.get("err")}
    return cls, det


def signature(f, cls, det):
    base = "%s|%s|%s" % (target_of(f), where_of(f), kind_class(f["kind"]))
    if cls == "panic":
        return "%s|panic|%s" % (base, det["site"])
    if cls == "crash":
        return "%s|crash:%s|at:%s" % (base, robust.crash_name(det), det.get("at"))
    if cls == "hang":
        return "%s|hang|at:%s" % (base, det.get("at"))
    return "%s|%s" % (base, cls)


def run_batch(cases, wd=WATCHDOG_MS, jobs=None, tag="c23"):
    return robust.run_cases(cases, None, sub="corrupt-run", jobs=jobs, watchdog_ms=wd, vmem_mb=VMEM_MB, tag=tag, timeout=6000)


def run(chk):
    thorough = chk.tier == "thorough"
    rng = random.Random(chk.seed)
    chk.assumptions += [
        "two database shapes built by the harness with SQL: tiny (one 3-row table) and multi (2000-row table with secondary index, TOAST values, JSONB, "
        "vectors, an HNSW-indexed table); the faulted copy is taken while the database is open with WAL on, so it contains un-checkpointed WAL frames",
        "one fault per case; regions are resolved by parsing the real files (PageHeader / TableFileHeader / IndexFileHeader of turdb::storage)",
        "decoder samples are produced by the corresponding public encoders (RecordBuilder, JsonbBuilder, ArrayBuilder, encode_varint, key::encode_*) or "
        "cut out of the multi database (catalog file, WAL frame, leaf / interior pages, file headers)",
        "harness profile: release, panic=unwind, overflow-checks off; child process per worker, address space 4 GiB, watchdog %d s per case (confirmed alone with %d s)" % (WATCHDOG_MS // 1000, CONFIRM_MS // 1000),
        "outcome classes only: a wrong value returned as Ok is admissible (C23 does not demand detection)"]
    vlib.build_harness(); chk.mark("build")

    box = {}

    def _mc():
        try:
            box["mc"] = vlib.run_tlc("MC_Corruption.tla", os.path.join(vlib.SPEC, "MC_Corruption.cfg"), workers=2, timeout=900)
        except Exception as e:
            box["mc_err"] = e
    th = threading.Thread(target=_mc)
    th.start()
    gen = vlib.tlc_emit("MC_Corruption.tla", os.path.join(vlib.SPEC, "Gen_Corruption.cfg"), timeout=1800, workers=4)
    th.join()
    if "mc_err" in box:
        raise vlib.ToolError("TLC failed on MC_Corruption: %s" % box["mc_err"])
    mc = box["mc"]
    vlib.tlc_ok(mc, "MC_Corruption")
    if mc["violated"]:
        raise vlib.ToolError("fault model violates its own property %s" % mc["violated"])
    if gen["violated"]:
        raise vlib.ToolError("generator violates %s" % gen["violated"])
    chk.mark("tlc")
    descs = gen["emitted"]
    allc = []
    for i, d in enumerate(descs):
        f = d["fault"]
        allc.append({"id": "f%d" % i, "fault": f, "allowed": d["allowed"], "steps": d["steps"]})
    files = [c for c in allc if c["fault"]["mode"] == "file"]
    decs = [c for c in allc if c["fault"]["mode"] == "decoder"]
    base = [c for c in allc if c["fault"]["kind"] == "none"]

    def take(items, n, key):
        return vlib.stratified_sample(items, key, n, rng) if len(items) > n else items
    if not thorough:
        files = take([c for c in files if c["fault"]["kind"] != "none"], 2200, lambda c: (c["fault"]["file"], field_of(c["fault"]["region"]), kind_class(c["fault"]["kind"])))
        decs = take([c for c in decs if c["fault"]["kind"] != "none"], 9000, lambda c: (c["fault"]["decoder"], c["fault"]["kind"], c["fault"].get("region", c["fault"].get("pos", 0) // 8)))
        chosen = base + files + decs
    else:
        chosen = allc
    byid = {c["id"]: c for c in chosen}

    def hv(c):
        return dict(c["fault"], id=c["id"])
    # decoder cases are microseconds each, file cases ~0.1 s: run them as two batches so that the watchdogs differ
    res = {}
    res.update(run_batch([hv(c) for c in chosen if c["fault"]["mode"] == "decoder"], wd=20000, tag="c23d"))
    chk.mark("decoders")
    res.update(run_batch([hv(c) for c in chosen if c["fault"]["mode"] == "file"], wd=WATCHDOG_MS, tag="c23f"))
    chk.mark("files")

    stats = collections.Counter()
    per_target = collections.defaultdict(collections.Counter)
    per_kind = collections.defaultdict(collections.Counter)
    resolved_regions = collections.defaultdict(set)      # (file kind, region) -> shapes in which it exists
    named_regions = set()
    step_stats = collections.defaultdict(collections.Counter)
    cands, counts = collections.OrderedDict(), collections.Counter()
    for c in chosen:
        f = c["fault"]
        cls, det = observe(res[c["id"]])
        if cls == "fatal":
            raise vlib.ToolError("harness could not build the database shapes: %s" % det["msg"])
        if f["mode"] == "file" and f["kind"] != "none":
            named_regions.add((f["file"], f["region"]))
            if cls != "absent":
                resolved_regions[(f["file"], f["region"])].add(f["shape"])
        stats[cls] += 1
        per_target[target_of(f)][cls] += 1
        per_kind[f["kind"]][cls] += 1
        if cls == "absent":
            continue
        for s in res[c["id"]].get("steps", []):
            step_stats[s["op"]][s["cls"]] += 1
        if f["kind"] == "none" and cls != "ok":
            raise vlib.ToolError("the UNMODIFIED %s does not behave (harness or fixture problem): %s %s" % (json.dumps(f), cls, json.dumps(det)[:300]))
        if cls not in c["allowed"]:
            sig = signature(f, cls, det)
            counts[sig] += 1
            cands.setdefault(sig, (c, cls, det))
    # ------------------------------------------------------------------ confirmation
    # a panic is an in-process, deterministic observation; a dead or silent child may be the machine: those are re-run
    # alone with a long watchdog before they are reported
    items = list(cands.items())
    unconfirmed = []
    recheck = [(sig, v) for sig, v in items if v[1] in ("crash", "hang")]
    for sig, (c, cls, det) in items:
        if cls == "panic":
            rep = {"signature": sig, "fault": c["fault"], "allowed": c["allowed"], "observed": cls, "detail": det,
                   "steps": res[c["id"]].get("steps"), "resolved": res[c["id"]].get("resolved"), "cases_with_this_signature": counts[sig]}
            for _ in range(counts[sig]):
                chk.classify(sig, rep)
    for i in range(0, len(recheck), 8):
        part = recheck[i:i + 8]
        cs = [dict(c["fault"], id="k%d" % (i + n)) for n, (sig, (c, cls, det)) in enumerate(part)]
        r2 = run_batch(cs, wd=CONFIRM_MS, jobs=len(cs), tag="c23k")
        for (sig, (c, cls, det)), cc in zip(part, cs):
            k2, d2 = observe(r2[cc["id"]])
            if k2 in c["allowed"] or k2 == "absent":
                unconfirmed.append(sig)
                continue
            sig2 = signature(c["fault"], k2, d2)
            rep = {"signature": sig2, "fault": c["fault"], "allowed": c["allowed"], "observed": k2, "detail": d2,
                   "steps": r2[cc["id"]].get("steps"), "resolved": r2[cc["id"]].get("resolved"), "first_seen_as": sig, "cases_with_this_signature": counts[sig]}
            for _ in range(counts[sig]):
                chk.classify(sig2, rep)
    chk.mark("confirm")
    if unconfirmed:
        chk.notes.append("not reproduced when re-run alone (load-dependent, not reported): " + "; ".join(unconfirmed[:8]))

    # ------------------------------------------------------------------ non-vacuity
    never = sorted(r for r in named_regions if not resolved_regions.get(r))
    # a role that a file kind never has in either shape (e.g. an interior page in a 2-page toast file) is reported, and it is a
    # tool error when a whole FIELD of the model is never resolved anywhere
    btree = {"table", "index", "toast", "hnsw"}
    fields_named = {("btree" if fk in btree else fk, field_of(r)) for fk, r in named_regions}
    fields_hit = {("btree" if fk in btree else fk, field_of(r)) for (fk, r), shapes in resolved_regions.items() if shapes}
    dead = sorted(fields_named - fields_hit)
    if dead and (thorough or len(dead) > 25):
        raise vlib.ToolError("the fault model names regions the harness resolves in no file of no shape: %s" % dead[:12])
    touched = sum(v for k, v in stats.items() if k != "absent")
    if stats["err"] < 0.05 * touched:
        raise vlib.ToolError("vacuous faults: only %d of %d applied faults were noticed by TurDB at all" % (stats["err"], touched))
    for t in ("file:meta", "file:catalog", "file:table", "file:index", "file:toast", "file:hnsw", "file:wal"):
        if sum(v for k, v in per_target[t].items() if k != "absent") == 0:
            raise vlib.ToolError("no fault was applied to %s" % t)
    for d in ("varint", "key", "record", "jsonb", "array", "toastptr", "catalog", "walframe", "leaf", "interior", "tablehdr", "indexhdr", "metahdr", "hnswhdr"):
        if sum(v for k, v in per_target["decoder:" + d].items() if k != "absent") == 0:
            raise vlib.ToolError("no fault was applied to decoder %s" % d)

    samples = []
    for c in (files[:1] + decs[:1] + [x for x in chosen if observe(res[x["id"]])[0] == "err"][:1]):
        k, d = observe(res[c["id"]])
        samples.append({"fault": c["fault"], "allowed": c["allowed"], "observed": k, "resolved": res[c["id"]].get("resolved"),
                        "steps": "".join({"ok": ".", "err": "e", "panic": "P"}[s["cls"]] for s in res[c["id"]].get("steps", []))})
    chk.cov = {
        "evaluations": len(chosen), "distinct_nontrivial": touched,
        "rule": "a case is non-trivial when its fault was resolved to bytes of a real file / sample and applied (cases whose region does not exist in that shape are counted as absent)",
        "fault_descriptors_generated_by_tlc": len(descs), "file_faults": len(files), "decoder_faults": len(decs), "baselines": len(base),
        "outcomes": dict(stats), "outcomes_by_target": {k: dict(v) for k, v in sorted(per_target.items())},
        "outcomes_by_fault_kind": {k: dict(v) for k, v in sorted(per_kind.items())},
        "step_outcomes": {k: dict(v) for k, v in step_stats.items()},
        "regions_named": len(named_regions), "regions_resolved_in_some_shape": sum(1 for r in named_regions if resolved_regions.get(r)),
        "regions_never_resolved": ["%s:%s" % r for r in never][:60],
        "model_check": {"states": mc["stats"].get("distinct"), "transitions": mc["stats"].get("generated")},
        "divergence_signatures": dict(counts), "exhaustive": thorough, "samples": samples,
    }
    if os.environ.get("VERIF_SELFTEST") == "1":
        c = next(x for x in chosen if observe(res[x["id"]])[0] == "err")
        chk.violation("selftest|err-not-allowed|" + target_of(c["fault"]), {"fault": c["fault"], "allowed": ["ok"], "observed": "err"})


def replay(chk, path):
    rep = json.load(open(path))["replay"]
    vlib.build_harness()
    f = rep["fault"]
    r = run_batch([dict(f, id="r")], wd=CONFIRM_MS, jobs=1, tag="c23r")
    cls, det = observe(r["r"])
    print("fault:", json.dumps(f))
    print("resolved:", json.dumps(r["r"].get("resolved")))
    for s in r["r"].get("steps", []):
        print("  %-14s %s %s" % (s["op"], s["cls"], (s.get("err") or s.get("panic") or "")[:140]))
    print("allowed:", rep.get("allowed", ["ok", "err"]), "observed:", cls, json.dumps(det)[:400])
    vlib.cleanup()
    if cls in rep.get("allowed", ["ok", "err"]):
        print("OK property=C23 the replayed fault is now answered with %s" % cls)
        return 0
    print("VIOLATION property=C23 replay=%s" % path)
    print("  signature: %s" % signature(f, cls, det))
    return 1

"""C08 - uncommitted changes are isolated from other handles (spec/Txn.tla).

Txn.tla runs two models on every operation sequence of two cloned handles: the snapshot-isolation REFERENCE (what
C08 demands) and an IMPLEMENTATION-SHAPED model of what TurDB does (one store written in place, per-handle undo
lists, no visibility check). TLC explores every interleaving up to a bound (per-transition emission) and random
walks; each behaviour is rendered to SQL on cloned handles and executed on TurDB. The last step of each behaviour is
judged:

   observed = reference                -> conforms to the property
   observed = implementation model     -> the anomaly the spec names for that step (Class): a known finding
   observed is an error and the spec says a write-write conflict exists (wwc) -> admissible refusal
   anything else                       -> VIOLATION

so every step where the two models agree (autocommit interleavings, a handle's own writes, rollback of one's own
changes, drop of a handle with an open transaction, ...) is held to the reference, and a change that makes TurDB
deviate from BOTH models is reported even inside the area of the known findings.
"""
import json, os, random
import vlib

LEVEL = "model_checking"
MANIFEST = dict(cat=LEVEL, ref="DESIGN.md 3.9, 6 (C08)",
    tech="TLA+ spec Txn.tla: snapshot-isolation reference and implementation-shaped in-place/undo-list model side by side, explored by TLC (per-transition emission + -simulate walks); every interleaving rendered to SQL on cloned handles and replayed on TurDB, judged against both models",
    text="(plus three cloned handles: every interleaving of 3 (quick) / 4 (thorough) statements; plus an insert-focused exhaustive exploration, Gen_Txn_inserts.cfg: BEGIN/COMMIT/ROLLBACK/INSERT/read only, 6 (quick) / 7 (thorough) statements, every behaviour replayed) TLC explores every interleaving of 2 cloned handles x {BEGIN, COMMIT, ROLLBACK, drop handle, INSERT, UPDATE, DELETE, SELECT} up to 4 (quick) / 5 (thorough) statements from two initial configurations (autocommit, both handles inside a transaction) plus random walks of 10 steps; invariants on the reference (no dirty read, own writes visible, no lost update, sequential when autocommit-only, serial with one handle) are model-checked; each explored transition is executed on TurDB and its result and the resulting table must equal the reference, or - where the two models differ - the implementation-shaped model, in which case the spec-named anomaly is reported as a known finding",
    note="statements are atomic steps issued from one thread (no preemptive multi-threaded SQL; thread-level races are decided on the components C35-C39); table without declared keys so that every statement is a scan (index interplay with foreign undo is not modelled); 2 handles, 2 ids, <=4 row keys")

PRELUDE = [{"k": "exec", "sql": "CREATE TABLE t (id INT, v INT)", "h": 0},
           {"k": "exec", "sql": "INSERT INTO t VALUES (1, 1)", "h": 0},
           {"k": "clone", "h": 1}, {"k": "clone", "h": 2}, {"k": "clone", "h": 3}]
SCAN = {"k": "query", "sql": "SELECT id, v FROM t", "h": 0}


def hh(h):
    return h + 1            # harness handle 0 is the base handle (clone source, observer); model handle h is h+1


def op_ops(st):
    h, op = hh(st["h"]), st["op"]
    if op == "begin":
        return [{"k": "exec", "sql": "BEGIN", "h": h}]
    if op == "commit":
        return [{"k": "exec", "sql": "COMMIT", "h": h}]
    if op == "rollback":
        return [{"k": "exec", "sql": "ROLLBACK", "h": h}]
    if op == "drop":
        return [{"k": "drop_handle", "h": h}, {"k": "clone", "h": h}]
    if op == "read":
        return [{"k": "query", "sql": "SELECT id, v FROM t", "h": h}]
    if op == "insert":
        return [{"k": "exec", "sql": "INSERT INTO t VALUES (%d, %d)" % (st["id"], st["v"]), "h": h}]
    if op == "update":
        return [{"k": "exec", "sql": "UPDATE t SET v = %d WHERE id = %d" % (st["v"], st["id"]), "h": h}]
    if op == "delete":
        return [{"k": "exec", "sql": "DELETE FROM t WHERE id = %d" % st["id"], "h": h}]
    raise ValueError(op)


def describe(c):
    out = ["[%s handles BEGIN]" % ("both" if c.get("nh", 2) == 2 else "all %d" % c["nh"])] if c["start"] == "both_in_txn" else []
    for st in c["hist"]:
        o = op_ops(st)[0]
        out.append("h%d: %s" % (st["h"], o.get("sql", st["op"])))
    return "; ".join(out)


def render(cid, c):
    ops = list(PRELUDE)
    if c["start"] == "both_in_txn":
        ops += [{"k": "exec", "sql": "BEGIN", "h": h} for h in range(1, c.get("nh", 2) + 1)]      # every handle of the configuration
    marks = []
    for st in c["hist"]:
        at = len(ops)
        ops += op_ops(st)
        ops.append(SCAN)
        marks.append((at, len(ops) - 1))
    return {"id": cid, "ops": ops}, marks


def bag(rows):
    return sorted([list(r[:2]) for r in rows])


def observed(st, r):
    """normalised result of one model step: (ok, n, rows)"""
    if r is None:
        return ("missing",)
    if "panic" in r:
        return ("panic", r["panic"][:120])
    if "err" in r:
        return (False, 0, [])
    if st["op"] == "read":
        return (True, 0, sorted(r["rows"]))
    if st["op"] in ("insert", "update", "delete"):
        return (True, r["ok"].get("n"), [])
    return (True, 0, [])


def model(st, which):
    m = st[which]
    return (bool(m["ok"]), m["n"] if st["op"] in ("insert", "update", "delete") and m["ok"] else 0, bag(m["rows"]) if st["op"] == "read" else [])


def judge_case(c, marks, res):
    """-> ("prefix", detail) | ("conform"|"known"|"admissible"|"stale"|"violation", detail)"""
    results = res["res"]
    if results and "fatal" in results[0]:
        return "prefix", "fatal: " + results[0]["fatal"]
    hist = c["hist"]
    for i, st in enumerate(hist):
        at, scan_at = marks[i]
        last = i == len(hist) - 1
        r = results[at] if at < len(results) else None
        obs = observed(st, r)
        scan = results[scan_at] if scan_at < len(results) else None
        scan_rows = sorted(scan["rows"]) if scan and "rows" in scan else None
        want_impl, want_ref = model(st, "impl"), model(st, "ref")
        impl_rows = bag(st["implrows"])
        if not last:
            if obs != want_impl or scan_rows != impl_rows:
                return "prefix", "step %d (%s) did not follow the implementation-shaped model" % (i, st["op"])
            continue
        detail = {"step": i, "op": st["op"], "handle": st["h"], "observed": obs, "reference": want_ref, "impl_model": want_impl,
                  "table_after": scan_rows, "impl_model_table_after": impl_rows, "class": st["class"]}
        if obs[0] == "panic":
            return "violation", dict(detail, kind="panic")
        if obs == want_ref and obs == want_impl:
            if scan_rows != impl_rows:
                return "violation", dict(detail, kind="table_after")
            return "conform", detail
        if obs == want_impl:
            if scan_rows != impl_rows:
                return "violation", dict(detail, kind="table_after")
            return "known", detail
        if obs[0] is False and st.get("wwc"):
            return "admissible", detail
        if obs == want_ref:
            return "stale", detail
        return "violation", dict(detail, kind="result")
    return "prefix", "empty"


def class_key(c):
    l = c["hist"][-1]
    return (c["start"], l["op"], l["class"], l["intxn"], len(c["hist"]))


def gen(chk, max_ops, simulate=None):
    cfg = vlib.scratch() + "/GenTxn_%d.cfg" % max_ops
    base = open(os.path.join(vlib.SPEC, "Gen_Txn.cfg")).read().replace("MaxOps = 4", "MaxOps = %d" % max_ops)
    open(cfg, "w").write(base)
    g = vlib.tlc_emit("MC_Txn.tla", cfg, timeout=2400)
    for inv in g["violated"]:
        raise vlib.ToolError("Txn.tla violates its own invariant %s" % inv)
    walks = []
    if simulate:
        scfg = vlib.scratch() + "/GenTxnSim.cfg"
        open(scfg, "w").write(base.replace("MaxOps = %d" % max_ops, "MaxOps = %d" % simulate["depth"]).replace("MaxKeys = 4", "MaxKeys = 6"))
        sim = vlib.run_tlc("MC_Txn.tla", scfg, workers=1, timeout=600, simulate="num=%d" % simulate["num"], seed=chk.seed,
                           extra=["-depth", str(simulate["depth"])])
        walks = vlib.parse_emitted(sim["out"])
    return g["emitted"], walks, g["stats"]


def gen_inserts(chk, max_ops):
    """insert-focused exhaustive exploration: only BEGIN/COMMIT/ROLLBACK, INSERT and reads, two more steps deep; it reaches the
    histories in which row slots handed out inside a transaction are interleaved with another handle's inserts and then undone"""
    cfg = vlib.scratch() + "/GenTxnIns.cfg"
    open(cfg, "w").write(open(os.path.join(vlib.SPEC, "Gen_Txn_inserts.cfg")).read().replace("MaxOps = 6", "MaxOps = %d" % max_ops)
                         .replace("MaxKeys = 6", "MaxKeys = %d" % max_ops))
    g = vlib.tlc_emit("MC_Txn.tla", cfg, timeout=2400)
    for inv in g["violated"]:
        raise vlib.ToolError("Txn.tla violates its own invariant %s" % inv)
    return g["emitted"], g["stats"]


def execute(cases):
    rend, meta = [], {}
    for cid, c in enumerate(cases):
        case, marks = render(cid, c)
        rend.append(case)
        meta[cid] = (c, marks)
    inp, outp = vlib.scratch() + "/txn_in.ndjson", vlib.scratch() + "/txn_out.ndjson"
    vlib.write_ndjson(inp, rend)
    vlib.run_vh(["sql-run", "--in", inp, "--out", outp, "--jobs", vlib.NCPU, "--watchdog", 30], timeout=3000)
    out = []
    for r in vlib.read_ndjson(outp):
        c, marks = meta[r["id"]]
        out.append((c, judge_case(c, marks, r)))
    return out


def account(chk, results):
    stats = {"conform": 0, "known": 0, "admissible": 0, "stale": 0, "violation": 0, "prefix": 0}
    classes, conform_by_op = {}, {}
    for c, (verdict, detail) in results:
        stats[verdict] += 1
        rep = {"behaviour": describe(c), "case": c, "detail": detail}
        if verdict == "known":
            classes[detail["class"]] = classes.get(detail["class"], 0) + 1
            chk.classify(detail["class"], rep)
        elif verdict == "violation":
            chk.violation("%s:%s:%s" % (detail["kind"], detail["op"], detail["class"]), rep)
        elif verdict == "stale":
            chk.stale.append("TurDB followed the reference where the implementation-shaped model predicts %s: %s" % (detail["class"], describe(c)))
        elif verdict == "conform":
            k = detail["op"] + ("/txn" if c["hist"][-1]["intxn"] else "")
            conform_by_op[k] = conform_by_op.get(k, 0) + 1
    return stats, classes, conform_by_op


def run(chk):
    thorough = chk.tier == "thorough"
    chk.assumptions += ["each SQL statement is one atomic step (issued from one thread)", "table t(id INT, v INT) without keys: every statement is a scan",
                        "each behaviour judges its LAST step; the prefix must follow the implementation-shaped model",
                        "a refused write/COMMIT is admissible where the spec reports a write-write conflict (mechanism left open by the property)"]
    vlib.build_harness(); chk.mark("build")
    cases, walks, tstats = gen(chk, 5 if thorough else 4, simulate={"num": 400 if thorough else 60, "depth": 10})
    chk.mark("tlc_gen")
    total = len(cases)
    rng = random.Random(chk.seed)
    if not thorough:
        cases = vlib.stratified_sample(cases, class_key, 6000, rng)
    ins_cases, istats = gen_inserts(chk, 7 if thorough else 6); chk.mark("tlc_gen_inserts")
    # three cloned handles (the property names two or three): every interleaving of 3 (thorough: 4) statements
    cfg3 = vlib.scratch() + "/GenTxn3.cfg"
    open(cfg3, "w").write(open(os.path.join(vlib.SPEC, "Gen_Txn.cfg")).read().replace("Handles = {0, 1}", "Handles = {0, 1, 2}").replace("MaxOps = 4", "MaxOps = %d" % (4 if thorough else 3)))
    g3 = vlib.tlc_emit("MC_Txn.tla", cfg3, timeout=2400)
    for inv in g3["violated"]:
        raise vlib.ToolError("Txn.tla (three handles) violates its own invariant %s" % inv)
    three = vlib.stratified_sample(g3["emitted"], class_key, 60000 if thorough else 3000, rng)
    for c in three:
        c["nh"] = 3
    chk.mark("tlc_gen_three_handles")
    if thorough:
        ins_cases = vlib.stratified_sample(ins_cases, lambda c: (class_key(c), tuple((h["op"], h["h"]) for h in c["hist"][-4:])), 150000, rng)
    results = execute(cases + walks + ins_cases + three); chk.mark("replay")
    stats, classes, conform_by_op = account(chk, results)
    n = len(results)
    if stats["prefix"] > 0.2 * n:
        raise vlib.ToolError("%d of %d behaviours were abandoned because their prefix left the implementation-shaped model: Txn.tla no longer describes TurDB" % (stats["prefix"], n))
    # vacuity: the classes the property talks about must have been generated, and conforming steps must exist for every op
    need = {"dirty_read", "non_repeatable_read", "lost_update_commit_not_refused"}
    gen_classes = {c["hist"][-1]["class"] for c in cases}
    if not need <= gen_classes:
        raise vlib.ToolError("generated behaviours miss anomaly classes %s" % sorted(need - gen_classes))
    chk.cov = {"states": tstats.get("distinct", 0), "transitions": tstats.get("generated", 0), "traces_validated_against_impl": n,
               "behaviours_generated_by_tlc": total, "behaviours_replayed": len(cases), "random_walk_steps_replayed": len(walks), "three_handle_behaviours_replayed": len(three), "insert_focused_behaviours_replayed": len(ins_cases),
               "insert_focused_model": {"states": istats.get("distinct", 0), "transitions": istats.get("generated", 0), "max_ops": 7 if thorough else 6},
               "verdicts": stats, "anomaly_classes_observed": classes, "conforming_steps_by_op": conform_by_op,
               "model_invariants_checked": ["SequentialWhenAutocommit", "SerialWhenAlone", "OwnWritesVisible", "RefNoDirtyRead", "RefNoLostUpdate"],
               "exhaustive": thorough, "max_ops": 5 if thorough else 4,
               "samples": [describe(c) for c in cases[:: max(1, len(cases) // 3)][:3]]}


def replay(chk, path):
    rep = json.load(open(path))["replay"]
    vlib.build_harness()
    results = execute([rep["case"]])
    stats, classes, _ = account(chk, results)
    print("replayed: %s" % rep["behaviour"])
    for c, (verdict, detail) in results:
        print("  verdict: %s %s" % (verdict, json.dumps(detail, default=str)[:800]))
    chk.cov = {"states": 1, "transitions": len(rep["case"]["hist"]), "traces_validated_against_impl": 1, "samples": [rep["behaviour"]], "replay_of": path}
    return chk.finish()

"""C11 - every stored value reads back unchanged.

spec/Values.tla is a register store (a cell holds the last value written to it, with its type tag; Reopen and writes to
other cells are stuttering steps for the cell) whose state space is the enumeration the property quantifies over:
column type x named value point x form x API path x INSERT/UPDATE/neighbour-UPDATE x prior value x reopen x table shape.
TLC checks the register invariants (ReadBack, TypeOk, WitnessUntouched, ReopenStutters, catalogue ASSUMEs) and emits
every behaviour `Insert [Update|Touch] [Reopen] Read` with the expected table contents; this check renders each one
to SQL / bound parameters (lib/values.py says what a point's name denotes), runs it on a fresh TurDB with sql-run and
compares every cell it reads (full scan and primary-key lookup) with the expected point under the spec's equality.
"""
import json, os, random, re, collections
import vlib, values as V

LEVEL = "exploration"
MANIFEST = dict(cat=LEVEL, ref="DESIGN.md 3.12, 6 (C11)",
    tech="TLA+ register-store model Values.tla: TLC checks ReadBack/TypeOk/WitnessUntouched/ReopenStutters and enumerates "
         "column type x value point x form x path (literal, execute_with_params, prepared once, prepared twice = cached plan) x "
         "INSERT/UPDATE/UPDATE-of-a-neighbour x prior value x reopen x 6 table shapes; every emitted behaviour is executed on a "
         "fresh database by the sql-run harness and every cell read back (scan + PK lookup) is compared with the expected point "
         "(type tag, float bits, JSON documents, f32 bits)",
    text="For the named points of 20 column types (integer bounds, NaN/inf/-0/subnormal/max floats, DECIMAL, text and blobs of "
         "999..8001 bytes around the TOAST threshold (1000) and chunk size (4000), of 100 KB and of 3 MiB, valid and invalid UTF-8 blobs, "
         "toast-pointer look-alikes, 4-byte UTF-8, quotes/backslashes/NUL, calendar range ends, UUID, JSON documents, vectors of "
         "dimension 1/8/9/70) a value written by any path reads back with the same type and value, also after reopen and after "
         "a neighbour column is updated, modulo the recorded findings; quick tier samples ~1800 of the ~27000 behaviours of four "
         "table shapes (stratified by type, point, op, path, form), thorough runs every behaviour below 100 KB of all six shapes "
         "(~38600) plus 1500 of the 100 KB and 100 of the 3 MiB behaviours",
    note="no claim for values between the named points; the concrete meaning of a point name is in lib/values.py; the harness "
         "decodes JSONB with TurDB's own JsonbView::to_json_string")

SELFTEST = os.environ.get("VERIF_SELFTEST")

DDL = {"SMALLINT": "SMALLINT", "INT": "INT", "BIGINT": "BIGINT", "DOUBLE": "DOUBLE PRECISION", "REAL": "REAL", "DECIMAL": "DECIMAL(38,10)",
       "TEXT": "TEXT", "VARCHAR": "VARCHAR(10)", "CHAR": "CHAR(5)", "BLOB": "BLOB", "BOOLEAN": "BOOLEAN", "DATE": "DATE", "TIME": "TIME",
       "TIMESTAMP": "TIMESTAMP", "UUID": "UUID", "JSONB": "JSONB", "VECTOR1": "VECTOR(1)", "VECTOR8": "VECTOR(8)", "VECTOR9": "VECTOR(9)",
       "VECTOR70": "VECTOR(70)"}


def columns(case):
    s = case["shape"]
    t = DDL[case["ct"]]
    if s == "solo":
        return ["id INT PRIMARY KEY", "v " + t], ["id", "v"]
    if s == "nokey":
        return ["id INT", "v " + t], ["id", "v"]
    if s in ("first", "firstn"):
        return ["id INT PRIMARY KEY", "v " + t, "a TEXT", "b BIGINT"], ["id", "v", "a", "b"]
    return ["id INT PRIMARY KEY", "a TEXT", "b BIGINT", "v " + t], ["id", "a", "b", "v"]


def _row_values(case, names, idv, vform, a, b):
    """per column: (literal, param)"""
    out = []
    for n in names:
        if n == "id":
            out.append((str(idv), idv))
        elif n == "v":
            out.append(vform)
        elif n == "a":
            out.append((V.lit(a, None), V.param(a, None)))
        else:
            out.append((V.lit(b, None), V.param(b, None)))
    return out


def render(case):
    ct = case["ct"]
    decl, names = columns(case)
    exp = case["expect"]
    nbr_a = {"tag": "text", "cls": "n_left"} if case["shape"] in ("first", "last") else {"tag": "null", "cls": "null"}
    nbr_b = {"tag": "int", "cls": "n_minus7"} if case["shape"] in ("first", "last") else {"tag": "null", "cls": "null"}
    ops = [{"k": "exec", "sql": "CREATE TABLE t (%s)" % ", ".join(decl)}]
    w = (V.lit(exp["w"], exp["wdetail"]), None)
    witness = {"k": "exec", "sql": "INSERT INTO t VALUES (%s)" % ", ".join(l for l, _ in _row_values(case, names, 2, w, nbr_a, nbr_b))}
    if case["witness_first"]:
        ops.append(witness)
    steps = []          # (index in ops, hist step)
    for hi, h in enumerate(case["hist"]):
        if hi == 1 and not case["witness_first"]:
            ops.append(witness)
        pt = {"tag": "null", "cls": "null"} if h["cls"] == "null" else {"tag": case["tag"], "cls": h["cls"]}
        if h["k"] == "insert":
            vf = (V.lit(pt, h["detail"], h["form"]), V.param(pt, h["detail"], h["form"]))
            rv = _row_values(case, names, 1, vf, nbr_a, nbr_b)
            if h["path"] == "literal":
                op = {"k": "exec", "sql": "INSERT INTO t VALUES (%s)" % ", ".join(l for l, _ in rv)}
            elif h["path"] == "params":
                op = {"k": "params", "sql": "INSERT INTO t VALUES (%s)" % ", ".join("?" if n == "v" else l for n, (l, _) in zip(names, rv)),
                      "params": [vf[1]]}
            else:
                op = {"k": "prepared", "sql": "INSERT INTO t VALUES (%s)" % ", ".join("?" for _ in rv), "params": [p for _, p in rv],
                      "mode": "execute", "times": 2 if h["path"] == "prepared2" else 1}
        elif h["k"] == "update":
            vf = (V.lit(pt, h["detail"], h["form"]), V.param(pt, h["detail"], h["form"]))
            if h["path"] == "literal":
                op = {"k": "exec", "sql": "UPDATE t SET v = %s WHERE id = 1" % vf[0]}
            elif h["path"] == "params":
                op = {"k": "params", "sql": "UPDATE t SET v = ? WHERE id = 1", "params": [vf[1]]}
            else:
                op = {"k": "prepared", "sql": "UPDATE t SET v = ? WHERE id = ?", "params": [vf[1], 1], "mode": "execute",
                      "times": 2 if h["path"] == "prepared2" else 1}
        elif h["k"] == "touch":
            if h["path"] == "literal":
                op = {"k": "exec", "sql": "UPDATE t SET b = 42 WHERE id = 1"}
            else:
                op = {"k": "params", "sql": "UPDATE t SET b = ? WHERE id = 1", "params": [42]}
        else:
            op = {"k": "reopen"}
        steps.append((len(ops), h))
        ops.append(op)
    if len(case["hist"]) == 1 and not case["witness_first"]:
        ops.append(witness)
    reads = {"scan": len(ops), "witness": ops.index(witness)}
    ops.append({"k": "query", "sql": "SELECT %s FROM t" % ", ".join(names)})
    reads["point"] = len(ops)
    ops.append({"k": "query", "sql": "SELECT v FROM t WHERE id = 1"})
    return ops, steps, reads, names


def errclass(msg):
    m = re.sub(r"[0-9]+", "N", msg or "")
    m = re.sub(r"'[^']*'", "'..'", m)
    return m[:70]


def judge(case, res):
    """-> (list of divergences dict(kind, where, step, expected, observed, ..), abandoned: bool)"""
    ops, steps, reads, names = render(case)
    out = []
    exp = dict(case["expect"])
    for i in (0, reads["witness"]):
        if i >= len(res) or "ok" not in res[i]:
            return [dict(kind="setup", where="setup", step=None, expected="ok", observed=json.dumps(res[i] if i < len(res) else None)[:200])]
    writes = [h for _, h in steps if h["k"] != "reopen"]
    # the model state the reads are judged against is advanced execution by execution: an accepted write sets the
    # cell, a refused one is a stuttering step (Values.tla, MayReject) - the table must read as before
    null_pt = {"tag": "null", "cls": "null"}
    pt_of = lambda cls: null_pt if cls == "null" else {"tag": case["tag"], "cls": cls}
    cur = {"v": None, "vdetail": None, "copies": 0, "b": {"tag": "int", "cls": "n_minus7"} if case["shape"] in ("first", "last") else null_pt}
    rejected = None
    for idx, h in steps:
        if idx >= len(res):
            out.append(dict(kind="missing", where="write", step=h, expected="ok", observed="no result"))
            return out
        r = res[idx]
        if "panic" in r:
            out.append(dict(kind="panic", where="write", step=h, expected="ok", observed="panic:" + errclass(r["panic"]), msg=r["panic"]))
            return out
        if h["k"] == "reopen":
            if "err" in r:
                out.append(dict(kind="reopen_failed", where="write", step=h, expected="ok", observed="error:" + errclass(r["err"]), msg=r["err"]))
                return out
            continue
        execs = list(r.get("prev", [])) + [r]
        if len(execs) != (2 if h["path"] == "prepared2" else 1):
            raise vlib.ToolError("harness did not report every execution of a repeated prepared statement (rebuild the harness)")
        for n_exec, e in enumerate(execs, 1):
            if "panic" in e:
                out.append(dict(kind="panic", where="write", step=h, expected="ok", observed="panic:" + errclass(e["panic"]), msg=e["panic"], execution=n_exec))
                return out
            if "err" in e:
                rejected = h
                if not h["may_reject"]:
                    out.append(dict(kind="write_rejected", where="write", step=h, expected="ok", observed="error:" + errclass(e["err"]), msg=e["err"], execution=n_exec))
                if h is not writes[-1]:
                    return out          # a seed was refused: the rest of the behaviour is not the one the model describes
                continue
            if e["ok"].get("n") != 1:
                out.append(dict(kind="affected", where="write", step=h, expected="n=1", observed="n=%s" % e["ok"].get("n"), execution=n_exec))
                return out
            if h["k"] == "insert":
                cur["v"], cur["vdetail"], cur["copies"] = pt_of(h["cls"]), h["detail"], cur["copies"] + 1
            elif h["k"] == "update":
                cur["v"], cur["vdetail"] = pt_of(h["cls"]), h["detail"]
            else:
                cur["b"] = {"tag": "int", "cls": "n_42"}
    if rejected:
        exp["copies"], exp["b"] = cur["copies"], cur["b"]
        if cur["v"] is not None:
            exp["v"], exp["vdetail"] = cur["v"], cur["vdetail"]
    elif (cur["copies"], cur["b"], cur["v"]) != (exp["copies"], exp["b"], exp["v"]):
        raise vlib.ToolError("replayed model state differs from the state TLC emitted: %s vs %s" % (cur, exp))
    last = None
    for _, h in steps:
        if h["k"] in ("insert", "update"):
            last = h
    vkind = "state_after_rejected_write" if rejected else "value"
    char_pad = 5 if case["ct"] == "CHAR" else None
    want_rows = exp["copies"] + 1
    for where in ("scan", "point"):
        r = res[reads[where]] if reads[where] < len(res) else {"err": "no result"}
        if "panic" in r or "err" in r:
            kind = "panic" if "panic" in r else "read_error"
            out.append(dict(kind=kind, where=where, step=last, expected=exp["v"]["cls"], observed=kind + ":" + errclass(r.get("panic") or r.get("err")),
                            msg=r.get("panic") or r.get("err"), after_reject=bool(rejected)))
            continue
        rows = r["rows"]
        if where == "point":
            if len(rows) != exp["copies"]:
                out.append(dict(kind="rowcount", where=where, step=last, expected="%d rows" % exp["copies"], observed="%d rows" % len(rows), after_reject=bool(rejected)))
                continue
            vs = [row[0] for row in rows]
        else:
            if len(rows) != want_rows:
                out.append(dict(kind="rowcount", where=where, step=last, expected="%d rows" % want_rows, observed="%d rows" % len(rows), after_reject=bool(rejected)))
                continue
            col = {n: i for i, n in enumerate(names)}
            r1 = [row for row in rows if row[col["id"]] == 1]
            r2 = [row for row in rows if row[col["id"]] == 2]
            if len(r1) != exp["copies"] or len(r2) != 1:
                out.append(dict(kind="rowids", where=where, step=last, expected="ids 1 x%d, 2" % exp["copies"], observed=json.dumps([row[col["id"]] for row in rows])))
                continue
            vs = [row[col["v"]] for row in r1]
            if not V.same(exp["w"], exp["wdetail"], r2[0][col["v"]], char_pad):
                out.append(dict(kind="witness", where=where, step=last, expected=exp["w"]["cls"], observed=V.describe(exp["w"], exp["wdetail"], r2[0][col["v"]])))
            for n, pt in (("a", exp["a"]), ("b", exp["b"])):
                if n in col:
                    for row in r1:
                        if not V.same(pt, None, row[col[n]]):
                            out.append(dict(kind="neighbour_" + n, where=where, step=last, expected=pt["cls"], observed=V.describe(pt, None, row[col[n]])))
                    # the witness row's neighbours keep their initial values
                    pt2 = dict(pt) if n == "a" else ({"tag": "int", "cls": "n_minus7"} if case["shape"] in ("first", "last") else {"tag": "null", "cls": "null"})
                    if not V.same(pt2, None, r2[0][col[n]]):
                        out.append(dict(kind="witness_neighbour_" + n, where=where, step=last, expected=pt2["cls"], observed=V.describe(pt2, None, r2[0][col[n]])))
        for o in vs:
            ok = V.same(exp["v"], exp["vdetail"], o, char_pad)
            if SELFTEST == "1" and exp["v"]["cls"] == "i_one":
                ok = False          # deliberately wrong expectation: the check must report it
            if not ok:
                out.append(dict(kind=vkind, where=where, step=last, expected=exp["v"]["tag"] + ":" + exp["v"]["cls"],
                                observed=V.describe(exp["v"], exp["vdetail"], o, last["form"] if last else "native"),
                                sample=json.dumps(o)[:160]))
                break
    return out


def sizeclass(cls):
    m = re.match(r"(t|bu|bb)_(thr_m1|thr|thr_p1|chunk_m1|chunk|chunk_p1|chunk2|chunk2_p1|huge)$", cls)
    return m.group(2) if m else None


def full_signature(case, d):
    h = d["step"] or {"k": "-", "cls": "-", "form": "-", "path": "-"}
    prior = case["hist"][0]["cls"] if h["k"] == "update" else "-"
    return "|".join([case["ct"], h["cls"], h["form"], h["path"], h["k"], "prior=" + prior, case["shape"], "reopen" if case["reopened"] else "same_session",
                     d["where"], d["kind"], "%s->%s" % (d["expected"], d["observed"])])


# ------------------------------------------------------------------------------------------------ named deviations
# Each rule recognises ONE understood defect of the unchanged tree by a predicate over the spec-level case and the
# observed deviation, and names it with the dimensions that matter for that defect. Anything a rule does not match
# keeps the fully detailed signature and is therefore a VIOLATION.
def named_signature(case, d):
    h, kind, obs, ct = d["step"], d["kind"], d["observed"], case["ct"]
    if h is None:
        return None
    pk = case["shape"] != "nokey"
    isval = kind in ("value", "state_after_rejected_write")
    if isval and case["tag"] == "float" and h["form"] == "int" and obs == "float:bits_of_the_integer":
        return "float_column|integer_literal_or_parameter|stored_as_the_bits_of_the_integer"
    if isval and ct == "BLOB" and h["cls"].startswith("bu_") and h["large"] and obs == "text:same_bytes":
        return "BLOB|valid_utf8_above_toast_threshold|read_back_as_text"
    if kind == "read_error" and ct == "BLOB" and h["cls"] == "b_fe17" and obs.startswith("read_error:TOAST chunk not found"):
        return "BLOB|17_bytes_leading_0xFE|read_error|taken_for_a_toast_pointer"
    if (kind == "write_rejected" and h["k"] == "update" and h["path"] == "prepared2" and d.get("execution") == 2 and pk
            and obs.startswith("error:unknown record format")):
        return "UPDATE|prepared_second_execution|pk_fast_path_cannot_decode_stored_row"
    if kind == "write_rejected" and h["cls"] == "i64_min" and h["k"] == "update" and h["path"] == "literal" and obs.startswith("error:failed to parse integer"):
        return "BIGINT|i64_min|UPDATE_literal|rejected"
    if (kind == "write_rejected" and case["tag"] == "float" and h["cls"] in ("f_nan", "f_inf", "f_ninf") and h["path"] == "literal"
            and obs.startswith("error:column N is not a variable column")):
        return "float_column|non_finite|literal|rejected"
    if kind == "value" and ct == "DECIMAL" and h["cls"] == "f_dec19" and h["path"] == "literal" and obs == "float:nearest_double":
        return "DECIMAL|19_significant_digits|literal|rounded_to_double"
    if (kind == "write_rejected" and ct == "DECIMAL" and h["cls"] == "f_dec19" and h["path"] != "literal"
            and obs.startswith("error:column N is not a variable column")):
        return "DECIMAL|decimal_parameter|rejected"
    if (kind == "write_rejected" and ct in ("VARCHAR", "CHAR") and h["cls"] in ("vc_max_4byte", "ch_full_4byte")
            and obs.startswith("error:value for column '..' in table '..' exceeds maximum length")):
        return "VARCHAR_CHAR|multibyte_characters|length_limit_counted_in_bytes|rejected"
    if kind == "panic" and ct == "DATE" and h["k"] == "touch" and case["shape"] in ("last", "lastn") and obs.startswith("panic:range end index"):
        return "DATE|last_fixed_width_column|UPDATE_of_another_column|panic"
    if (kind == "write_rejected" and h["k"] == "insert" and h["path"] == "prepared2" and d.get("execution") == 2 and h["detail"].get("len", 0) > 16000
            and obs.startswith("error:not enough free space")):
        return "INSERT|prepared_second_execution|cached_plan_does_not_toast|value_above_page_size_rejected"
    # UPDATE where the old and the new value are both out of line and the old one's chunks fill more than one TOAST leaf
    multi = h["k"] == "update" and h["detail"].get("len", 0) > 1000 and (
        (h["predetail"] or {}).get("len", 0) >= 32000 or (h["path"] == "prepared2" and h["detail"].get("len", 0) >= 32000))
    if kind == "write_rejected" and multi and obs.startswith("error:separator key already exists"):
        return "UPDATE|old_value_spans_toast_leaf_pages|rejected_separator_key_already_exists"
    if kind == "read_error" and multi and d.get("after_reject") and obs.startswith("read_error:TOAST chunk not found"):
        return "UPDATE|old_value_spans_toast_leaf_pages|old_value_unreadable_after_the_rejected_update"
    if h["k"] == "update" and h["may_reject"] and ((kind == "rowcount" and d.get("after_reject") and obs in ("0 rows", "1 rows"))
                                                   or (kind == "affected" and obs == "n=0" and d.get("execution") == 2)):
        return "UPDATE|refused_because_record_exceeds_page|row_deleted"
    return None


def signature(case, d):
    return named_signature(case, d) or full_signature(case, d)


def nontrivial(case):
    """a case is non-trivial when the value under test is not NULL and is not the type's witness/ordinary point"""
    e = case["expect"]["v"]
    return e["tag"] != "null" and e["cls"] != case["expect"]["w"]["cls"]


def _spread(items, key, n, rng):
    """at most n items: one per stratum in random stratum order, then a second one, ... (vlib.stratified_sample walks
    the strata in sorted order, which starves the later column types when there are more strata than n)"""
    if len(items) <= n:
        return list(items)
    groups = {}
    for it in items:
        groups.setdefault(key(it), []).append(it)
    ks = sorted(groups, key=str)
    rng.shuffle(ks)
    for k in ks:
        rng.shuffle(groups[k])
    out, i = [], 0
    while len(out) < n:
        progressed = False
        for k in ks:
            if i < len(groups[k]):
                out.append(groups[k][i]); progressed = True
                if len(out) >= n:
                    break
        if not progressed:
            break
        i += 1
    return out


def last_write(c):
    return [h for h in c["hist"] if h["k"] != "reopen"][-1]


def sample_cases(cases, tier, rng):
    huge = [c for c in cases if any(h["huge"] for h in c["hist"])]
    rest = [c for c in cases if not any(h["huge"] for h in c["hist"])]
    # stratum: what is written where and how; shape / reopen / prior vary inside a stratum
    key = lambda c: (c["ct"], c["expect"]["v"]["cls"], last_write(c)["k"], last_write(c)["path"], last_write(c)["form"])
    hkey = lambda c: (c["ct"], c["expect"]["v"]["cls"], last_write(c)["path"], last_write(c)["k"])
    if tier == "thorough":
        # everything below 100 KB, and a spread of the 100 KB ("pages") and 3 MiB ("huge") behaviours
        pages = [c for c in rest if any(h["detail"].get("len", 0) >= 100000 or (h.get("predetail") or {}).get("len", 0) >= 100000 for h in c["hist"])]
        small = [c for c in rest if c not in pages] if len(pages) < 50 else [c for c in rest if id(c) not in {id(x) for x in pages}]
        return small + _spread(pages, key, 1500, rng) + _spread(huge, hkey, 100, rng)
    return _spread(rest, key, 1800, rng) + _spread(huge, hkey, 10, rng)


def batches(cases, limit=120 * 1024 * 1024):
    cur, size = [], 0
    for c in cases:
        s = 8 * 1024 * 1024 if any(h["huge"] for h in c["hist"]) else (40000 if any(h["large"] for h in c["hist"]) else 2000)
        if cur and size + s > limit:
            yield cur
            cur, size = [], 0
        cur.append(c)
        size += s
    if cur:
        yield cur


def check_constants():
    """the storage constants the spec's size points are defined from must be the implementation's"""
    src = open("/repo/src/storage/toast.rs").read()
    spec = open(os.path.join(vlib.SPEC, "Values.tla")).read()
    out = []
    for name, tla in (("TOAST_THRESHOLD", "ToastThreshold"), ("TOAST_CHUNK_SIZE", "ChunkSize")):
        a = re.search(r"pub const %s: usize = (\d+);" % name, src)
        b = re.search(r"^%s\s*==\s*(\d+)" % tla, spec, re.M)
        if not a or not b:
            raise vlib.ToolError("cannot locate %s / %s" % (name, tla))
        if a.group(1) != b.group(1):
            out.append("%s is %s in storage/toast.rs but %s = %s in Values.tla" % (name, a.group(1), tla, b.group(1)))
    if not re.search(r"data\.len\(\) > TOAST_THRESHOLD", src):
        out.append("needs_toast is no longer `len > TOAST_THRESHOLD`")
    return out


def execute(cases):
    results = {}
    n = 0
    for b in batches(cases):
        inp, outp = vlib.scratch() + "/c11_in.ndjson", vlib.scratch() + "/c11_out.ndjson"
        vlib.write_ndjson(inp, [{"id": c["_id"], "ops": render(c)[0]} for c in b])
        vlib.run_vh(["sql-run", "--in", inp, "--out", outp, "--jobs", min(vlib.NCPU, 12), "--watchdog", 120], timeout=2400)
        for r in vlib.read_ndjson(outp):
            results[r["id"]] = r["res"]
        os.remove(inp); os.remove(outp)
        n += len(b)
    return results


def run(chk):
    thorough = chk.tier == "thorough"
    rng = random.Random(chk.seed)
    chk.assumptions += ["a value is one of the named points of Values.tla; lib/values.py fixes what each name denotes",
                        "JSONB read-back is decoded by TurDB's JsonbView::to_json_string inside the harness",
                        "'NaN' / 'Infinity' / '-Infinity' string literals are the literal spelling of the non-finite floats (the spelling prepared.rs generates)"]
    vlib.build_harness(); chk.mark("build")
    for m in check_constants():
        chk.stale.append(m)
    cfg = os.path.join(vlib.SPEC, "Gen_Values.cfg")
    if not thorough:
        # quick tier: four of the six table shapes (both witness orders, column first / last, neighbours set / NULL, no key)
        cfg = vlib.scratch() + "/Gen_Values_quick.cfg"
        open(cfg, "w").write(open(os.path.join(vlib.SPEC, "Gen_Values.cfg")).read().replace("Shapes <- AllShapes", "Shapes <- QuickShapes"))
    gen = vlib.tlc_emit("MC_Values.tla", cfg, timeout=1500, workers=6)
    if gen["violated"]:
        raise vlib.ToolError("Values.tla violates its own invariants: %s" % gen["violated"])
    cases = gen["emitted"]
    chk.mark("tlc")
    for i, c in enumerate(cases):
        c["_id"] = i
    # non-vacuity of the enumeration: every class the property names must be generated
    seen = collections.Counter()
    for c in cases:
        seen[(c["expect"]["v"]["tag"], c["expect"]["v"]["cls"])] += 1
    required = [("int", "i64_min"), ("int", "i64_max"), ("float", "f_nan"), ("float", "f_inf"), ("float", "f_ninf"), ("float", "f_negzero"),
                ("float", "f_min_sub"), ("text", "t_empty"), ("text", "t_huge"), ("text", "t_thr_p1"), ("text", "t_chunk_p1"), ("text", "t_4byte"),
                ("text", "t_nul"), ("blob", "bu_huge"), ("blob", "bb_huge"), ("blob", "bu_thr_p1"), ("blob", "b_empty"), ("date", "d_min"),
                ("date", "d_max"), ("time", "tm_last"), ("ts", "ts_max"), ("ts", "ts_min"), ("uuid", "u_max"), ("json", "j_nested"),
                ("vec", "v_ramp"), ("bool", "true"), ("null", "null")]
    missing = [r for r in required if not seen[r]]
    if missing:
        raise vlib.ToolError("value classes never generated: %s" % missing)
    for dim in ("VECTOR1", "VECTOR8", "VECTOR9", "VECTOR70"):
        if not any(c["ct"] == dim for c in cases):
            raise vlib.ToolError("no case for " + dim)
    chosen = sample_cases(cases, chk.tier, rng)
    results = execute(chosen); chk.mark("run")
    per_sig = collections.Counter()
    judged = diverged = 0
    dims = collections.Counter()
    for c in chosen:
        res = results.get(c["_id"])
        if res is None:
            raise vlib.ToolError("harness returned nothing for case %d" % c["_id"])
        judged += 1
        last = last_write(c)
        dims["path:" + last["path"]] += 1
        dims["op:" + last["k"]] += 1
        dims["reopen:%s" % c["reopened"]] += 1
        dims["shape:" + c["shape"]] += 1
        ds = judge(c, res)
        if ds:
            diverged += 1
        for sig in sorted({signature(c, d) for d in ds}):
            per_sig[sig] += 1
            d0 = [d for d in ds if signature(c, d) == sig][0]
            chk.classify(sig, {"case": {k: v for k, v in c.items() if k != "_id"}, "divergence": {k: v for k, v in d0.items() if k != "step"},
                               "ops": [(o if len(json.dumps(o)) < 600 else {"k": o["k"], "sql": o.get("sql", "")[:200] + "...", "truncated": True}) for o in render(c)[0]]})
    chk.mark("judge")
    nt = [c for c in chosen if nontrivial(c)]
    chk.cov = {
        "evaluations": judged, "distinct_nontrivial": len({(c["ct"], c["expect"]["v"]["cls"], tuple((h["k"], h["cls"], h["path"], h["form"]) for h in c["hist"]), c["shape"]) for c in nt}),
        "rule": "the value under test is not NULL and not the ordinary witness point of its type",
        "behaviours_generated_by_tlc": len(cases), "behaviours_run": len(chosen), "behaviours_diverging": diverged,
        "tlc_states": gen["stats"].get("distinct"), "value_points": len(seen), "column_types": len({c["ct"] for c in chosen}),
        "dimension_counts": dict(dims), "per_signature": dict(per_sig.most_common()),
        "huge_cases_run": sum(1 for c in chosen if any(h["huge"] for h in c["hist"])),
        "exhaustive": False,
        "samples": [{"ct": c["ct"], "shape": c["shape"], "hist": [(h["k"], h["cls"], h["path"]) for h in c["hist"]], "expect": c["expect"]["v"]} for c in chosen[:: max(1, len(chosen) // 3)][:3]],
    }


def replay(chk, path):
    data = json.load(open(path))
    case = data["replay"]["case"]
    case["_id"] = 0
    vlib.build_harness()
    res = execute([case])[0]
    ds = judge(case, res)
    ops = render(case)[0]
    for o, r in zip(ops, res):
        print(((o.get("sql") or o["k"])[:140]), json.dumps(o.get("params"))[:100] if "params" in o else "", "->", json.dumps(r)[:240])
    for d in ds:
        print("DIVERGENCE", signature(case, d), d.get("sample", ""), d.get("msg", ""))
    if not ds:
        print("no divergence")
    return 1 if ds else 0

"""C27 - varints round-trip with canonical length.

(1) PROOF.  spec/proofs/Varint_proofs.tla restates varint_len / encode_varint / decode_varint over unbounded
    naturals and proves with TLAPS (tlapm, SMT back end Z3) for ALL 2^64 values / ALL byte strings:
    RoundTrip, CanonicalLen, DecTotal, DecPrefix, and that the digit form of spec/Varint.tla (which TLC can
    evaluate) is the same function (EncRefines, DecRefines, ValInjective, DigitRoundTrip).
(2) BINDING.  TLC evaluates Enc / Dec / LenOf of spec/Varint.tla on the conformance vectors of MC_Varint.tla
    (every branch boundary +-2, every power of two +-1, byte patterns, all / a seeded part of the values below
    2^16, a seeded stride through the 64-bit range, every first byte x lengths 0..10 x five fillers); the harness
    runs the same inputs through turdb::encoding::varint and the outputs are compared.
A divergence in which the Rust functions themselves break the property (decode(encode(v)) != v, consumed !=
varint_len(v), a panic / over-read on some byte string) is a VIOLATION; Rust and specification computing different
but self-consistent answers means the proof is about another function: TOOL-ERROR (the model must be updated)."""
import os, re, json, random, shutil, time
import vlib

LEVEL = "proof"
MANIFEST = dict(cat=LEVEL, ref="DESIGN.md 3.11, 6 (C27)",
    tech="TLA+ definitions of the varint functions (spec/Varint.tla, proofs/Varint_proofs.tla) proved with TLAPS "
         "(tlapm + Z3) to round-trip with canonical length for all 2^64 values and to decode every byte string to a "
         "value or an error within the input; the proved definitions are bound to src/encoding/varint.rs by "
         "TLC-evaluated conformance vectors replayed on encode_varint / decode_varint / varint_len",
    text="for every u64 v: decode(encode(v)) = (v, varint_len(v)) and the encoding has exactly varint_len(v) bytes; "
         "for every byte string: decode returns an error or a u64 and a consumed length within the input, looking "
         "only at the bytes it consumes - proved for the TLA+ definitions; the Rust functions agree with the "
         "definitions on every branch boundary +-2, every power of two +-1, all values below 2^16 (thorough; below "
         "4096 plus a seeded eighth in quick), a seeded stride of 64-bit values and 12 801 byte strings (every "
         "marker x lengths 0..10 x fillers)",
    note="trusted: tlapm, Z3 and tlapm's SMT encoding (no Isabelle certificate checking); the link between the "
         "proved definitions and the Rust code is the finite conformance sample")

PROOFS = os.path.join(vlib.SPEC, "proofs")
THEOREMS = ["RoundTrip", "CanonicalLen", "DecTotal", "DecPrefix", "EncRefines", "DecRefines", "ValInjective", "DigitRoundTrip"]
CACHE = os.path.join(vlib.ROOT, "out", "cache", "tlaps")     # fingerprints of obligations already proved (quick tier)


def run_tlapm(chk, fresh):
    """Returns dict(obligations, discharged, cmd, wall, cached). fresh=True proves everything again."""
    src = open(os.path.join(PROOFS, "Varint_proofs.tla")).read()
    # the file must state the theorems and leave no proof out
    for th in THEOREMS:
        if not re.search(r"^THEOREM %s ==" % th, src, re.M):
            raise vlib.ToolError("Varint_proofs.tla no longer states THEOREM %s" % th)
    if re.search(r"\bOMITTED\b", re.sub(r"\(\*.*?\*\)", "", src, flags=re.S)):
        raise vlib.ToolError("Varint_proofs.tla contains an OMITTED proof")
    if fresh:
        cache = os.path.join(vlib.scratch(), "tlaps-cache")
    else:
        cache = CACHE
    warm = os.path.isdir(os.path.join(cache, "Varint_proofs.tlaps"))
    os.makedirs(cache, exist_ok=True)
    # SMT only (a failing obligation fails fast instead of falling through to Zenon/Isabelle), linear logic,
    # generous time-outs: the machine may be loaded, and a proved obligation returns at once anyway
    cmd = ["tlapm", "--threads", "8", "--strict", "--method", "smt", "--smt-logic", "UFLIA", "--stretch", "6",
           "--cache-dir", cache, "-I", vlib.SPEC, "Varint_proofs.tla"]
    t0 = time.time()
    try:
        rc, out = vlib.sh(["timeout", "-s", "KILL", "2400"] + cmd, cwd=PROOFS, timeout=2500)
    except Exception as e:
        raise vlib.ToolError("tlapm did not finish: %s" % e)
    wall = time.time() - t0
    m_all = re.search(r"All (\d+) obligations? proved", out)
    m_fail = re.search(r"(\d+)/(\d+) obligations? failed", out)
    incomplete = re.search(r"Proof incomplete|Missing proof|Omitted proof", out)
    if m_all and not incomplete:
        n = int(m_all.group(1))
        return dict(obligations=n, discharged=n, cmd=" ".join(cmd), wall=round(wall, 1), warm_cache=warm, out=out)
    if m_fail:
        failed, n = int(m_fail.group(1)), int(m_fail.group(2))
        locs = re.findall(r'File "\./Varint_proofs\.tla", line (\d+)', out)
        return dict(obligations=n, discharged=n - failed, cmd=" ".join(cmd), wall=round(wall, 1), warm_cache=warm,
                    failed_lines=sorted(set(int(x) for x in locs))[:20], out=out)
    raise vlib.ToolError("tlapm gave no verdict (rc=%s):\n%s" % (rc, out[-3000:]))


def err_class(msg):
    if "empty buffer" in msg:
        return ("empty", 1)
    m = re.search(r"truncated (\d+)-byte varint", msg)
    if m:
        return ("truncated", int(m.group(1)))
    m = re.search(r"invalid varint marker: (\d+)", msg)
    if m:
        return ("marker", int(m.group(1)))
    return ("other", msg)


def val_of(d):
    return (d[0] << 48) | (d[1] << 32) | (d[2] << 16) | d[3]


def judge(case, obs, selftest=0):
    """-> (violations [(signature, text)], stale [text]) for one vector"""
    viol, stale = [], []
    if case["k"] == "enc":
        v = val_of(case["d"])
        L = case["len"]
        cls = "len%d" % L
        if selftest == 1 and v == 2287 and isinstance(obs.get("dec"), dict) and "ok" in obs["dec"]:
            obs = dict(obs, dec=dict(obs["dec"], ok=[0, 0, 0, 2286]))      # pretend the decoder is off by one
        if selftest == 2 and v == 2288:
            case = dict(case, bytes=[249, 0, 1])                             # a deliberately wrong expectation
        # --- the property on the Rust functions themselves, with TLC's value / length as the reference
        if isinstance(obs["len"], dict) or isinstance(obs["written"], dict):
            viol.append(("encode:panic:" + cls, "varint_len/encode_varint panicked for %d: %s" % (v, obs)))
            return viol, stale
        if obs["written"] != obs["len"]:
            viol.append(("canonical_len:written_ne_varint_len:" + cls, "v=%d encode_varint wrote %s bytes, varint_len=%s" % (v, obs["written"], obs["len"])))
        if not obs["tail_clean"]:
            viol.append(("encode:writes_beyond_returned_length:" + cls, "v=%d buffer modified after the %s bytes reported" % (v, obs["written"])))
        if isinstance(obs["exact"], dict) and "panic" in obs["exact"]:
            viol.append(("encode:needs_more_than_varint_len:" + cls, "v=%d panics with a buffer of varint_len bytes: %s" % (v, obs["exact"]["panic"])))
        elif isinstance(obs["exact"], dict) and obs["exact"].get("ok") != obs["bytes"]:
            viol.append(("encode:depends_on_buffer:" + cls, "v=%d %s vs %s" % (v, obs["exact"], obs["bytes"])))
        for which in ("dec", "dec_tail"):
            d = obs[which]
            if "panic" in d:
                viol.append(("roundtrip:decode_panics:" + cls, "v=%d decode_varint(encode) panicked: %s" % (v, d["panic"])))
            elif "err" in d:
                viol.append(("roundtrip:decode_rejects_encoding:" + cls, "v=%d decode_varint(%s%s) = Err(%s)" % (v, obs["bytes"], " ++ FF.." if which == "dec_tail" else "", d["err"])))
            else:
                if val_of(d["ok"]) != v:
                    viol.append(("roundtrip:value:" + cls, "v=%d decode_varint(%s) = %d" % (v, obs["bytes"], val_of(d["ok"]))))
                if d["n"] != obs["len"]:
                    viol.append(("canonical_len:consumed_ne_varint_len:" + cls, "v=%d consumed %d, varint_len %s" % (v, d["n"], obs["len"])))
        # --- conformance with the proved definitions
        if obs["bytes"] != case["bytes"]:
            stale.append("encode_varint(%d) = %s, Varint.tla Enc = %s" % (v, obs["bytes"], case["bytes"]))
        if obs["len"] != L:
            stale.append("varint_len(%d) = %s, Varint.tla LenOf = %s" % (v, obs["len"], L))
    else:
        b, r, d = case["b"], case["r"], obs["dec"]
        f = b[0] if b else None
        mk = "empty" if f is None else "m0_240" if f <= 240 else "m241_248" if f <= 248 else "m%d" % f if f in (249, 250, 251, 255) else "reserved"
        if "panic" in d:
            viol.append(("decode:panic:%s:len%d" % (mk, min(len(b), 10)), "decode_varint(%s) panicked: %s" % (b, d["panic"])))
            return viol, stale
        if "ok" in d and not (1 <= d["n"] <= len(b)):
            viol.append(("decode:consumed_outside_input:" + mk, "decode_varint(%s) consumed %s of %d bytes" % (b, d["n"], len(b))))
        if r["ok"]:
            if "err" in d:
                stale.append("decode_varint(%s) = Err(%s), Varint.tla Dec = %s" % (b, d["err"], r))
            elif d["ok"] != r["val"] or d["n"] != r["n"]:
                stale.append("decode_varint(%s) = (%s, %s), Varint.tla Dec = (%s, %s)" % (b, d["ok"], d["n"], r["val"], r["n"]))
        else:
            if "ok" in d:
                if r["err"] == "truncated":
                    # the specification says the input ends inside the encoding: a value here means bytes were invented
                    viol.append(("decode:value_from_truncated_input:" + mk, "decode_varint(%s) = %s but the %d-byte form is cut short" % (b, d, r["need"])))
                else:
                    stale.append("decode_varint(%s) = %s, Varint.tla Dec = %s" % (b, d, r))
            elif err_class(d["err"]) != (r["err"], r["need"]):
                stale.append("decode_varint(%s) fails with '%s', documented error is %s(%s)" % (b, d["err"], r["err"], r["need"]))
    return viol, stale


def gen_cfg(chk, thorough):
    cfg = os.path.join(vlib.scratch(), "Gen_Varint.cfg")
    with open(cfg, "w") as f:
        f.write("CONSTANTS Seed = %d  StrideN = %d  SmallMod = %d\nSPECIFICATION Spec\nCHECK_DEADLOCK FALSE\n"
                % (chk.seed % 97, 4000 if thorough else 600, 1 if thorough else 8))
    return cfg


def run(chk):
    thorough = chk.tier == "thorough"
    selftest = int(os.environ.get("VERIF_SELFTEST", "0") or 0)
    chk.assumptions += ["tlapm's obligation generation and SMT encoding, Z3 4.8.9 (no Isabelle re-check of the SMT proofs)",
                        "numerals above 2^62 cannot be written in tlapm: the u64 range is {v \\in Nat : v \\div 2^32 <= 2^32-1}",
                        "the Rust functions are tied to the proved definitions by the finite conformance sample only",
                        "quick tier: obligations whose fingerprint is in out/cache/tlaps are not re-proved (thorough re-proves all)"]
    vlib.build_harness(); chk.mark("build")
    # (1) proof
    pr = run_tlapm(chk, fresh=thorough); chk.mark("tlapm")
    if pr["discharged"] != pr["obligations"]:
        raise vlib.ToolError("tlapm: %d of %d obligations not discharged (lines %s); the proof does not stand, which is a tool "
                             "error, not a verdict on the code" % (pr["obligations"] - pr["discharged"], pr["obligations"], pr.get("failed_lines")))
    # (2) conformance vectors from TLC
    gen = vlib.tlc_emit("MC_Varint.tla", gen_cfg(chk, thorough), timeout=1500, workers=8)
    cases = gen["emitted"]; chk.mark("tlc")
    if not cases:
        raise vlib.ToolError("TLC emitted no vectors")
    for i, c in enumerate(cases):
        c["id"] = i
    enc = [c for c in cases if c["k"] == "enc"]
    dec = [c for c in cases if c["k"] == "dec"]
    lens = sorted({c["len"] for c in enc})
    dcls = sorted({("ok", c["r"]["n"]) if c["r"]["ok"] else (c["r"]["err"], c["r"]["need"]) for c in dec})
    if lens != [1, 2, 3, 4, 5, 9] or len(dcls) < 6 + 1 + 5 + 3:
        raise vlib.ToolError("vacuous vector set: lengths %s decode classes %s" % (lens, dcls))
    inp, outp = os.path.join(vlib.scratch(), "v_in.ndjson"), os.path.join(vlib.scratch(), "v_out.ndjson")
    vlib.write_ndjson(inp, cases)
    vlib.run_vh(["varint-run", "--in", inp, "--out", outp, "--jobs", min(vlib.NCPU, 8)], timeout=900)
    res = {r["id"]: r for r in vlib.read_ndjson(outp)}; chk.mark("replay")
    if len(res) != len(cases):
        raise vlib.ToolError("harness returned %d results for %d vectors" % (len(res), len(cases)))
    nviol = 0
    for c in cases:
        viol, stale = judge(c, res[c["id"]], selftest)
        for sig, text in viol:
            nviol += 1
            chk.classify(sig, {"case": c, "observed": res[c["id"]], "what": text})
        for s in stale:
            chk.stale.append(s)
    boundary = [c for c in enc if any(abs(val_of(c["d"]) - t) <= 2 for t in (0, 240, 241, 2287, 2288, 67823, 67824, 2**24 - 1, 2**24, 2**32 - 1, 2**32, 2**64 - 1))]
    chk.cov = {
        "obligations": pr["obligations"], "discharged": pr["discharged"], "checker_cmd": "cd spec/proofs && " + pr["cmd"],
        "trusted_base": ["tlapm f14d233 (obligation generation, SMT encoding)", "Z3 4.8.9 (logic UFLIA)",
                         "TLC (evaluation of Varint.tla on the conformance vectors)", "the finite conformance sample linking Varint.tla to varint.rs"],
        "theorems": THEOREMS, "tlapm_wall_s": pr["wall"], "tlapm_fingerprint_cache_warm": pr["warm_cache"], "all_reproved": thorough or not pr["warm_cache"],
        "conformance_vectors": len(cases), "encode_vectors": len(enc), "decode_vectors": len(dec),
        "encode_vectors_by_length": {str(l): sum(1 for c in enc if c["len"] == l) for l in lens},
        "decode_outcome_classes": ["%s:%s" % k for k in dcls], "boundary_vectors": len(boundary),
        "values_below_2^16": sum(1 for c in enc if c["d"][:3] == [0, 0, 0]), "exhaustive_below_2^16": thorough,
        "property_level_failures": nviol, "conformance_divergences": len(chk.stale),
        "samples": [{"value_digits": c["d"], "expected_bytes": c["bytes"], "expected_len": c["len"], "rust": res[c["id"]]["bytes"]} for c in (boundary[:2] + enc[-1:])]
                   + [{"input": c["b"], "expected": c["r"], "rust": res[c["id"]]["dec"]} for c in dec[1:3] + dec[-1:]],
        "selftest": selftest,
    }


def replay(chk, path):
    """re-run one stored vector on the current tree"""
    rep = json.load(open(path))["replay"]
    vlib.build_harness()
    c = dict(rep["case"], id=0)
    inp, outp = os.path.join(vlib.scratch(), "r_in.ndjson"), os.path.join(vlib.scratch(), "r_out.ndjson")
    vlib.write_ndjson(inp, [c])
    vlib.run_vh(["varint-run", "--in", inp, "--out", outp, "--jobs", 1])
    obs = vlib.read_ndjson(outp)[0]
    viol, stale = judge(c, obs)
    print("vector  :", json.dumps(c))
    print("observed:", json.dumps(obs))
    for sig, text in viol:
        print("VIOLATION-REPRODUCED %s: %s" % (sig, text))
    for s in stale:
        print("CONFORMANCE-DIVERGENCE", s)
    vlib.cleanup()
    return 1 if viol else (2 if stale else 0)

"""C33 - spilled rows round-trip through the spill format.

SpillRow.tla states the three laws on an abstract token stream (Deser(Ser(row)) = row with the same variants, rows
sharing one buffer decode in order and end exactly at the end of the buffer, Size(row) = bytes of Ser(row)), writes
down the DOCUMENTED RowSerde discriminant table and the documented size function as two separate tables and lets TLC
check that they agree and which items the documented encoding cannot return unchanged (DocLossy).  The generator
enumerates every value variant of `Value` (19, RowSerde / PartitionSpiller) and of `OwnedValue` (23, MaterializedRow /
SpillableBuffer) x value classes, all ordered pairs of representatives, wide rows around the SmallVec inline capacity
(15/16/17) and the u8 boundary (255/256/300), and every sequence of <= MaxSeq rows over a pool that contains the empty
row.  The harness (spill-run) serializes with the real code, compares computed size with bytes written, decodes alone and
from a shared buffer, and pushes the same rows through a PartitionSpiller / SpillableBuffer that spills at once, midway
and never.
"""
import json, os, random
import vlib, formats as F

LEVEL = "exploration"
MANIFEST = dict(cat=LEVEL, ref="DESIGN.md 6 (C31 C32 C33)",
    tech="TLA+ SpillRow.tla: reference laws on an abstract token stream + the documented RowSerde discriminant/size tables checked against each other by TLC; "
         "every generated row / row sequence serialized and decoded by the real RowSerde, PartitionSpiller and SpillableBuffer",
    text="Deser(Ser(row)) = row with the same variants, in-order decoding of row sequences in one buffer, row_size = bytes written, "
         "for all variants x value classes, all pairs of representatives, widths 0..300, all sequences of <= 2 (quick) / 3 (thorough) pooled rows",
    note="identity oracle over a finite class set: the TLA+ content is the generator and the laws, not the byte format; "
         "MaterializedRow::serialize is private and is exercised through SpillableBuffer (no size law exists for it)")


def gen_cfg(max_seq):
    return F.write_cfg("spill.cfg", "CONSTANTS MaxSeq = %d\nSPECIFICATION Spec\nINVARIANT Laws\nINVARIANT ModelFacts\nINVARIANT Emit\nCHECK_DEADLOCK FALSE\n" % max_seq)


def rows_of(c):
    return [c["row"]] if "row" in c else c["rows"]


def judge_case(c, r, lossy):
    """-> list of (signature, detail).  signature = variant|class|law:what"""
    out = []
    rows = rows_of(c)
    # item-level differences seen when a row is decoded ALONE are round-trip matters on every path; a difference that
    # only shows up when rows share a buffer / a spill file is a sequence matter
    alone = {(d["row"], d["col"], d["what"]) for d in r["diffs"] if d["path"] in ("serde",) or (len(rows) == 1)}
    for d in r["diffs"]:
        ri, ci, what, law = d["row"], d["col"], d["what"], d["law"]
        if ri >= 0 and ci >= 0:
            it = rows[ri][ci]
            if law != "size" and (ri, ci, what) in alone:
                law = "roundtrip"
            w = what
            if c["u"] == "F1" and what.startswith("type_changed:"):
                # does the documented encoding predict exactly this?
                pred = None
                if [it["v"], it["c"]] in [[l["v"], l["c"]] for l in lossy]:
                    pred = "Int"        # ModelFacts pins DocRoundTrip(lossy item) = Int zero
                if pred and what == "type_changed:" + pred and d.get("got") == "0":
                    w = what + "(0)_as_the_documented_encoding_predicts"
            out.append(("%s|%s|%s:%s" % (it["v"], it["c"], law, w), d))
        else:
            out.append(("-|-|%s:%s@%s" % (law, what.split(":")[0], d["path"].split("_")[0]), d))
    if c["u"] == "F1":
        exp = [c["size"]] if "size" in c else c["sizes"]
        for s in r["sizes"]:
            if "row" in s and (s["computed"] != exp[s["row"]] or s["written"] != exp[s["row"]]):
                if s["computed"] == s["written"]:
                    out.append(("-|-|size:code_agrees_with_itself_but_not_with_the_documented_table", s))
    return out


def run(chk):
    thorough = chk.tier == "thorough"
    chk.assumptions += ["per-variant equality: same variant and same payload; floats by bits except that every NaN equals every NaN (the format documents one NaN)",
                        "the harness owns the concrete constant of every item class (harness/src/formats.rs `item_value`)",
                        "std::env::temp_dir() (TMPDIR) is where SpillableBuffer puts its file; one buffer at a time (its file name is derived from the clock)"]
    vlib.build_harness(); chk.mark("build")
    gen = vlib.tlc_emit("MC_SpillRow.tla", gen_cfg(3 if thorough else 2), timeout=1500, workers=6); chk.mark("tlc")
    facts = [c for c in gen["emitted"] if c["grp"] == "facts"]
    if len(facts) != 1:
        raise vlib.ToolError("SpillRow facts record missing")
    lossy = facts[0]["lossy"]
    cases = [c for c in gen["emitted"] if c["grp"] != "facts"]
    rng = random.Random(chk.seed)
    if not thorough:
        # pairs are the bulk: keep every single / wide / seq case and a seeded stratified sample of the pairs
        pairs = [c for c in cases if c["grp"] == "pair"]
        rest = [c for c in cases if c["grp"] != "pair"]
        pairs = vlib.stratified_sample(pairs, lambda c: (c["u"], c["row"][0]["v"]), 700, rng)
        cases = rest + pairs
    for i, c in enumerate(cases):
        c["id"] = i
    tmp = os.path.join(vlib.scratch(), "spilltmp")
    os.makedirs(tmp, exist_ok=True)
    env = {"TMPDIR": tmp}
    if os.environ.get("VERIF_SELFTEST") == "1":
        env["VERIF_SELFTEST"] = "1"
    res = F.run_harness("spill-run", [{"id": c["id"], "u": c["u"], "rows": rows_of(c)} for c in cases], "spill", env=env); chk.mark("harness")
    n_ok, per_sig = 0, {}
    spilled = {}
    for c in cases:
        r = res[c["id"]]
        for s in r["sizes"]:
            if "path" in s:
                k = "%s:%s:%s" % (c["u"], s["path"], "spilled" if s["spilled"] else "in_memory")
                spilled[k] = spilled.get(k, 0) + 1
        js = judge_case(c, r, lossy)
        if not js:
            n_ok += 1
        seen = set()
        for s, d in js:
            per_sig[s] = per_sig.get(s, 0) + 1
            if s not in seen:
                seen.add(s)
                chk.classify(s, {"case": c, "detail": d})
    chk.mark("judge")
    # ---- non-vacuity
    items = {(c["u"], it["v"]) for c in cases for row in rows_of(c) for it in row}
    for u, n in (("F1", 19), ("F2", 23)):
        if len({v for uu, v in items if uu == u}) != n:
            raise vlib.ToolError("universe %s: only %d of %d variants generated" % (u, len({v for uu, v in items if uu == u}), n))
    if not any(c["grp"] == "seq" and any(len(r) == 0 for r in c["rows"]) and len(c["rows"]) > 1 for c in cases):
        raise vlib.ToolError("no sequence with an empty row generated")
    for k in ("F1:spiller_spill_first:spilled", "F1:spiller_spill_mid:spilled", "F1:spiller_memory:in_memory", "F2:buffer_spill_first:spilled", "F2:buffer_memory:in_memory"):
        if not spilled.get(k):
            raise vlib.ToolError("spill mode never exercised: " + k)
    widths = {len(c["row"]) for c in cases if "row" in c}
    for w in (0, 1, 15, 16, 17, 255, 256, 300):
        if w not in widths:
            raise vlib.ToolError("no row of width %d generated" % w)
    chk.cov = {
        "evaluations": len(cases), "distinct_nontrivial": sum(1 for c in cases if sum(len(r) for r in rows_of(c)) >= 2),
        "rule": "a case is non-trivial when it carries at least two items (a multi-column row or a sequence of rows)",
        "identity_on_every_path": n_ok, "groups": {"%s:%s" % (u, g): sum(1 for c in cases if c["u"] == u and c["grp"] == g) for u in ("F1", "F2") for g in ("single", "pair", "wide", "seq")},
        "variants": {"F1": 19, "F2": 23}, "item_classes": len({(c["u"], it["v"], it["c"]) for c in cases for row in rows_of(c) for it in row}),
        "row_widths": sorted(widths), "spill_modes": spilled, "tlc": gen["stats"], "per_signature": per_sig,
        "documented_encoding_is_lossy_on": ["%s(%s)" % (l["v"], l["c"]) for l in lossy],
        "laws_checked_by_tlc": ["LawRoundTrip", "LawSequence", "LawSize (documented size table = documented encoding table)", "ModelFacts (DocLossy = signed zeros of Float)"],
        "paths": ["RowSerde alone", "RowSerde shared buffer", "PartitionSpiller (spill at once / midway+append / in memory)", "SpillableBuffer (spill at once / midway / in memory)"],
        "exhaustive": False,
        "samples": [{"u": c["u"], "grp": c["grp"], "rows": [[(it["v"], it["c"]) for it in r][:6] for r in rows_of(c)][:3]} for c in cases[:: max(1, len(cases) // 3)][:3]],
    }
    if os.environ.get("VERIF_SELFTEST") == "1" and not chk.violations:
        raise vlib.ToolError("selftest: a deliberately wrong expectation did not produce a violation")


def replay(chk, path):
    rep = json.load(open(path))["replay"]
    vlib.build_harness()
    c = dict(rep["case"]); c["id"] = 0
    tmp = os.path.join(vlib.scratch(), "spilltmp")
    os.makedirs(tmp, exist_ok=True)
    r = F.run_harness("spill-run", [{"id": 0, "u": c["u"], "rows": rows_of(c)}], "replay", env={"TMPDIR": tmp})[0]
    print("case: %s %s rows=%s" % (c["u"], c["grp"], [[(it["v"], it["c"]) for it in row][:8] for row in rows_of(c)]))
    for d in r["diffs"]:
        print("diff:", json.dumps(d))
    print("sizes:", json.dumps(r["sizes"]))
    gen_lossy = [{"v": "Float", "c": "zero"}, {"v": "Float", "c": "negzero"}]
    js = judge_case(c, r, gen_lossy)
    for s in sorted({s for s, _ in js}):
        print("signature:", s)
    vlib.cleanup()
    return 1 if js else 0

"""C07 - ROLLBACK and ROLLBACK TO SAVEPOINT restore the earlier state (Relational.tla with the transaction stack).
Judged: the full observation after ROLLBACK / ROLLBACK TO (rows, every index path, COUNT(*)), and every statement
executed AFTER a rollback (uniqueness checks on later inserts, lookups), which is how stale index entries surface."""
import relrun, relational as R
LEVEL = "model_checking"
MANIFEST = dict(cat=LEVEL, ref="DESIGN.md 3.9, 6 (C07)",
    tech="TLA+ reference spec Relational.tla with a transaction/savepoint stack explored by TLC (per-transition emission, VIEW hides history; -simulate walks); every behaviour rendered to SQL and replayed on TurDB, full observation compared with the model",
    text="every BEGIN/SAVEPOINT/ROLLBACK TO/RELEASE/ROLLBACK/COMMIT history TLC explores (depth 3 quick / 5 thorough, <=2 nested savepoints, with INSERT/UPDATE incl. key and unique columns/DELETE inside, plus 150 (quick) / 1500 (thorough) random walks of 14-30 steps from the weighted workload spec WSpec, every prefix judged) is executed on TurDB; after ROLLBACK / ROLLBACK TO the full observation (scan, COUNT(*), primary-key, unique-index and range lookups) must equal the model's snapshot, and every later statement (re-insert of a rolled-back key, unique probes) must behave as the model says",
    note="dropping the handle that holds the open transaction is a step of the TSpec histories (they then run on a cloned handle) and of C08's histories; INT primary key + UNIQUE + secondary (CREATE INDEX) index schema; an additional transaction-focused exhaustive exploration (TSpec: 7-8 steps inside transactions from a two-row table: ROLLBACK TO followed by writes and a second rollback, RELEASE, nested savepoints); bounded domain (3 ids, a in {NULL,1,2}, b in {NULL,0,1,5}); quick replays a stratified sample")


def relevant(d, hist):
    ops = [h["op"]["k"] for h in hist]
    last = ops[-1]
    if last in ("rollback", "rollback_to", "drophandle"):
        return d["kind"] in ("state", "index_vs_scan", "rejects_valid", "panic")
    if "rollback" in ops or "rollback_to" in ops or "drophandle" in ops:
        return d["kind"] in ("state", "index_vs_scan", "rejects_valid", "accepts_invalid", "affected_count", "panic")
    if last in ("begin", "commit", "savepoint", "release"):
        return d["kind"] in ("state", "rejects_valid", "panic")
    return False


def undone(hist):
    """kinds of statements that the last rollback had to undo"""
    kinds = []
    depth = None
    for h in hist:
        k = h["op"]["k"]
        if k == "begin":
            kinds = []
        elif k in ("insert", "update", "delete") and h["ok"] and h.get("intxn"):
            kinds.append(k + ("(" + h["op"]["c"] + ")" if k == "update" else ""))
    return sorted(set(kinds))


def signature(d, hist):
    op = hist[-1]["op"]
    what = d["kind"]
    if d["kind"] in ("state", "index_vs_scan"):
        qs = d.get("queries", [])
        cls = sorted({"pk" if q.startswith("pk") or q == "range" else "unique" if q.startswith("ua") or q in ("anull", "arange") else "scan" if q in ("scan", "b0", "b1", "brange") else q for q in qs})
        what += "[" + "+".join(cls) + "]"
    return "%s:after_%s:undoing_%s" % (what, "drophandle" if any(h["op"]["k"] == "drophandle" for h in hist) else "rollback" if any(h["op"]["k"] in ("rollback", "rollback_to") for h in hist) else op["k"], "+".join(undone(hist)) or "nothing")


def focus(c):
    return any(h["op"]["k"] == "begin" for h in c["hist"])


def run(chk):
    _standard(chk)
    thorough = chk.tier == "thorough"
    # transaction-focused exhaustive exploration (TSpec of MC_Relational.tla): two rows to start with, every
    # transaction-control step, depth 7 (quick, stratified sample) / 8 (thorough, all) inside transactions
    st = relrun.focus_phase(chk, relevant, signature, "Gen_TxnFocus.cfg", 10 if thorough else 9, None if thorough else 6000)
    chk.cov["txn_focus"] = st
    chk.cov["traces_validated_against_impl"] += st["replayed"]
    chk.mark("txn_focus")


def _standard(chk):
    relrun.standard(chk, relevant, signature, focus=focus, with_txn=True, with_reopen=False, schema="pk_idx_b",
                    quick=(3, 3000), thorough=(5, 60000), walks_quick=(150, 14), walks_thorough=(1500, 30), weighted_walks=True,
                    extra_assumptions=["single handle; DropHandle with an open transaction is covered by C08's multi-handle histories"])


def replay(chk, path):
    return relrun.replay_file(chk, path, relevant, signature)

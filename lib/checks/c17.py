"""C17 - joins return the SQL-defined bag of rows under every join algorithm and memory budget.

spec/Join.tla defines the five join types (+ comma joins), 2- and 3-way, with extra ON / WHERE conjuncts, on bags of
rows whose keys range over {NULL, 1, 2} with duplicates and empty tables.  spec/MC_Join.tla lets TLC enumerate table
contents x query shapes, checks the algebra of the oracle (Inner <= Left <= Full, |Cross| = |A||B|, RIGHT = mirrored
LEFT, WHERE only filters, scaling law ...) and prints, per case, the expected bag of every query, the bag on tables
scaled by RScale (scaling law verified by TLC on small r) and the bag of every applicable named deviation set.

Every query is rendered to SQL and run on TurDB
  * on two physical designs (no index / index on the join keys: nested-loop, streaming-hash, grace-hash and
    index-nested-loop operators, as reported by EXPLAIN),
  * under six budget settings (default, PRAGMA join_memory_budget = 1 / 4096, Pool::Query squeezed to 1 MiB, 64 KiB, 0),
  * and, for a sample, on the scaled tables (big inputs / outputs) under default and squeezed budgets.
The answer must be the model's bag every time.
"""
import os, random, json, re, collections
import vlib, sqlbag

LEVEL = "exploration"
MANIFEST = dict(
    cat=LEVEL, ref="DESIGN.md 6 (C17), notes/C17.md",
    tech="TLA+ oracle Join.tla evaluated by TLC over enumerated table contents (keys in {NULL,1,2}, duplicates, empty "
         "tables) x 1140 two-way and 292 three-way query shapes; meta-invariants of the oracle model-checked over the same "
         "enumeration; every query run on TurDB on 2 physical designs x 6 memory-budget settings plus scaled tables "
         "(scaling law stated in the spec and verified by TLC) and compared as bags",
    text="INNER/LEFT/RIGHT/FULL/CROSS/comma joins, 2- and 3-way, with extra ON/WHERE conjuncts return exactly the bag the "
         "specification defines for every enumerated table content, whatever the physical operator chosen and the memory "
         "budget; deviations are attributed to named, spec-defined defects or reported",
    note="the PRAGMA is stored but read by no executor; the spill executor is unreachable from Database::query, so no "
         "run can exercise it (evidence key spill_observed); tables in the exhaustive part have <= 3 rows; result order is "
         "not judged")

SPEC_CFG = """CONSTANTS KeySeq <- MCKeySeq  ValSeq <- MCValSeq
CONSTANTS MaxRowsA = %(ma)d  MaxRowsB = %(mb)d  MaxRowsC = %(mc)d
CONSTANTS Stride = %(stride)d  Seed = %(seed)d  Stride3 = %(stride3)d  RScale = %(rscale)d  RCheck = %(rcheck)d  MetaStride = %(metastride)d
SPECIFICATION Spec
INVARIANT Containment LeftPreserves CrossSize Mirror WhereFilters NullNeverMatches ImplIsRef ScaleLawHolds ThreeWay
INVARIANT EmitInv
CHECK_DEADLOCK FALSE
"""

BUDGETS = [
    ("default", []),
    ("pragma_1", [{"k": "exec", "sql": "PRAGMA join_memory_budget = 1"}]),
    ("pragma_4096", [{"k": "exec", "sql": "PRAGMA join_memory_budget = 4096"}]),
    ("squeeze_1M", [{"k": "squeeze", "leave": 1048576}]),
    ("squeeze_64K", [{"k": "squeeze", "leave": 65536}]),
    ("squeeze_0", [{"k": "squeeze", "leave": 0}]),
]
SCALED_BUDGETS = ["default", "squeeze_1M", "squeeze_0"]
PHYS = ["plain", "indexed"]
TNAMES = {1: "a", 2: "b", 3: "c"}
JOINKW = {"inner": "INNER JOIN", "left": "LEFT JOIN", "right": "RIGHT JOIN", "full": "FULL OUTER JOIN", "cross": "CROSS JOIN"}
OPSYM = {"eq": "=", "ne": "<>", "lt": "<", "le": "<="}
SHORT = {"NestedLoopJoin": "NL", "StreamingHashJoin": "SHJ", "GraceHashJoin": "GHJ", "IndexNestedLoopJoin": "INL",
         "HashSemiJoin": "SEMI", "HashAntiJoin": "ANTI"}


# ----------------------------------------------------------------------------- rendering (no semantics)
def operand(o):
    return str(o["v"]) if o["t"] == 0 else "%s.%s" % (TNAMES[o["t"]], o["c"])


def atom(a):
    if a["op"] == "isnull":
        return operand(a["l"]) + " IS NULL"
    if a["op"] == "notnull":
        return operand(a["l"]) + " IS NOT NULL"
    return "%s %s %s" % (operand(a["l"]), OPSYM[a["op"]], operand(a["r"]))


def conj(atoms):
    return " AND ".join(atom(a) for a in atoms)


def render(q):
    s = "SELECT " + ", ".join(operand(p) for p in q["proj"]) + " FROM a"
    steps = [(q["j1"], q["on1"], "b")] + ([(q["j2"], q["on2"], "c")] if q["n"] == 3 else [])
    for j, on, t in steps:
        if j == "comma":
            s += ", " + t
        else:
            s += " %s %s" % (JOINKW[j], t)
            if j != "cross":
                s += " ON " + conj(on)
    if q["where"]:
        s += " WHERE " + conj(q["where"])
    return s


def on_class(on, lt, rt):
    """syntactic class of an ON conjunction (feature for signatures / coverage)"""
    if not on:
        return "none"
    equi = [a for a in on if a["op"] == "eq" and a["l"]["t"] and a["r"]["t"] and
            ((a["l"]["t"] in lt and a["r"]["t"] in rt) or (a["l"]["t"] in rt and a["r"]["t"] in lt))]
    if equi and len(equi) == len(on):
        return "equi" if len(on) == 1 else "equi%d" % len(on)
    if equi:
        return "equi+residual"
    return "nonequi" if len(on) == 1 else "nonequi+residual"


def where_class(w, n):
    if not w:
        return "none"
    ts = set()
    for a in w:
        ts |= {a["l"]["t"]} | ({a["r"]["t"]} if a["op"] not in ("isnull", "notnull") else set())
    ts.discard(0)
    kind = "isnull" if any(a["op"] in ("isnull", "notnull") for a in w) else "cmp"
    side = "both" if len(ts) > 1 else ("last" if ts == {n} else "left")
    return kind + "_" + side


def shape(q):
    if q["n"] == 2:
        return "2way:%s:on=%s:where=%s" % (q["j1"], on_class(q["on1"], {1}, {2}), where_class(q["where"], 2))
    return "3way:%s(%s)-%s(%s):where=%s" % (q["j1"], on_class(q["on1"], {1}, {2}), q["j2"], on_class(q["on2"], {1, 2}, {3}),
                                            where_class(q["where"], 3))


def data_class(case):
    feats = []
    for name in ("a", "b", "c"):
        rows = case.get(name)
        if rows is None:
            continue
        keys = [r[0] for r in rows]
        if not rows:
            feats.append(name + "_empty")
        if sqlbag.NULL in keys:
            feats.append(name + "_nullkey")
        nn = [k for k in keys if k != sqlbag.NULL]
        if len(nn) != len(set(nn)):
            feats.append(name + "_dupkey")
        if len(rows) != len({tuple(r) for r in rows}):
            feats.append(name + "_duprow")
    return feats


# ----------------------------------------------------------------------------- sessions
def setup_ops(case, phys, r=1):
    ops = []
    for name in ("a", "b", "c"):
        if name not in case:
            continue
        cols = "k INT, v INT" + (", rep INT" if r > 1 else "")
        ops.append({"k": "exec", "sql": "CREATE TABLE %s (%s)" % (name, cols), "setup": True})
        if phys == "indexed":
            ops.append({"k": "exec", "sql": "CREATE INDEX i%s ON %s (k)" % (name, name), "setup": True})
        rows = []
        for row in case[name]:
            vals = tuple(None if v == sqlbag.NULL else v for v in row)
            rows += [vals + ((rep,) if r > 1 else ()) for rep in range(1, r + 1)]
        ops += sqlbag.insert_ops(name, rows)
    return ops


def budget_ops(names):
    out = []
    for name, pre in BUDGETS:
        if name in names:
            out.append((name, pre))
    return out


def algo_of(plan):
    ops = re.findall(r"-> (NestedLoopJoin|StreamingHashJoin|GraceHashJoin|IndexNestedLoopJoin|HashSemiJoin|HashAntiJoin)", plan or "")
    return "+".join(SHORT[o] for o in ops) or "none"


# ----------------------------------------------------------------------------- judging
_COMPILED = {}


def compiled(model, count, key=None):
    """TLC's answer for one (case, query) as Counters; cached because each is compared 12+ times"""
    if key is not None and (key, count) in _COMPILED:
        return _COMPILED[(key, count)]
    c = (sqlbag.model_bag(model["exp"], count),
         sorted(((len(d["kf"]), sorted(d["kf"]), sqlbag.model_bag(d["bag"], count)) for d in model["dev"]),
                key=lambda t: (t[0], sorted(RANK.get(k, 99) for k in t[1]), t[1])))
    if key is not None:
        _COMPILED[(key, count)] = c
    return c


# tie-break between deviation sets of the same size that give the same bag: structural deviations before value-level ones
PRIORITY = ["join_input_empty", "outer_input_as_inner", "where_as_on", "where_pushed_below_outer", "on_residual_dropped",
            "reorder_drops_all_on", "reorder_drops_single_side_on", "right_unmatched_by_name", "input_where_lost",
            "inner_chain_conjuncts_dropped", "inl_right_as_inner", "inl_filters_ignored", "null_eq_null"]
RANK = {k: i for i, k in enumerate(PRIORITY)}
KF_INDEX = {"inl_filters_ignored", "inl_right_as_inner"}
KF_INPUT = {"join_input_empty", "outer_input_as_inner", "input_where_lost", "inner_chain_conjuncts_dropped"}


def compatible(kf, algo):
    """A deviation set can only explain an answer produced by the operator it describes: the inl_* deviations belong
    to the index nested-loop operator (top-level operator reported by EXPLAIN), all others to the hash / nested-loop code."""
    top = algo.split("+")[0]
    names = set(kf) - KF_INPUT
    if top == "INL":
        return names <= KF_INDEX
    if top == "NL" and "+" not in algo and "on_residual_dropped" in names:
        return False        # a nested-loop join evaluates the whole ON; a lost conjunct there is the reordering's doing
    return not (names & KF_INDEX)


def judge(model, oc, count, key=None, algo=""):
    """model: {"exp": bag, "dev": [{"kf": [...], "bag": bag}]}; oc: sqlbag.outcome(..); count: "n" or "s".
    -> None (agrees with the specification) | ("kf", [names]) | ("unexplained"|"err"|"panic"|"missing", text)"""
    kind, val = oc
    if kind != "rows":
        return (kind, val)
    exp, devs = compiled(model, count, key)
    if val == exp:
        return None
    for _, kf, bag in devs:           # smallest deviation set first
        if val == bag and compatible(kf, algo):
            return ("kf", kf)
    return ("unexplained", "")


def selftest_perturb(model):
    """VERIF_SELFTEST=1: feed a deliberately wrong expectation (one multiplicity changed) to show that the check binds"""
    exp = [dict(e) for e in model["exp"]]
    if exp:
        exp[0]["n"] += 1
        exp[0]["s"] += 1
    else:
        exp = [{"r": [1, 1, 1, 1], "n": 1, "s": 1}]
    return {"exp": exp, "dev": model["dev"]}


def signatures(verdict, q, algo, budget, scaled):
    kind, val = verdict
    if kind == "kf":
        return ["kf:%s|%s" % (k, algo if q["n"] == 2 else "3way") for k in val]
    if kind == "err":
        if "memory budget exceeded" in val and budget.startswith("squeeze"):
            return ["budget_error:%s" % ("scaled" if scaled else "small")]
        return ["error:%s:%s" % (shape(q), re.sub(r"[0-9]+", "#", val)[:60])]
    if kind == "panic":
        return ["panic:%s:%s" % (shape(q), re.sub(r"[0-9]+", "#", val)[:60])]
    if kind == "missing":
        return ["no_result:%s" % shape(q)]
    return ["unexplained:%s|%s" % (shape(q), algo)]


def gen_cases(chk, params):
    cfg = vlib.scratch() + "/Gen_Join_run.cfg"
    open(cfg, "w").write(SPEC_CFG % params)
    reuse = os.environ.get("VERIF_C17_REUSE")          # development aid: parse a saved TLC output instead of running TLC
    if reuse and os.path.exists(reuse):
        gen = {"emitted": vlib.parse_emitted(open(reuse).read()), "violated": [], "stats": {}}
    else:
        gen = vlib.tlc_emit("MC_Join.tla", cfg, timeout=2400, workers=8)
    if gen["violated"]:
        raise vlib.ToolError("the Join oracle violates its own meta-invariant(s) %s" % gen["violated"])
    cat = [v for v in gen["emitted"] if v["n"] == 0]
    if len(cat) != 1:
        raise vlib.ToolError("TLC printed %d catalogues" % len(cat))
    cases = [v for v in gen["emitted"] if v["n"] in (2, 3)]
    return cat[0], cases, gen["stats"]


def queries_of(cat, case):
    return cat["cat2"] if case["n"] == 2 else cat["cat3"]


def run(chk):
    thorough = chk.tier == "thorough"
    rng = random.Random(chk.seed)
    selftest = os.environ.get("VERIF_SELFTEST") == "1"
    chk.assumptions += [
        "row universe: k in {NULL,1,2} x v in {0,1}; tables are bags of <= %d rows (3-way: third table <= %d)" % ((3, 2) if thorough else (2, 1)),
        "conditions are conjunctions of comparisons / IS [NOT] NULL atoms; no NOT/OR (those are C14's)",
        "result order is not judged (no ORDER BY is issued)",
        "scaled tables replicate every row RScale times (replica number in a third column no query mentions)",
    ]
    vlib.build_harness(); chk.mark("build")
    params = dict(ma=3, mb=3, mc=2, stride=61, stride3=101, rscale=60, rcheck=2, metastride=3, seed=chk.seed) if thorough else \
        dict(ma=2, mb=2, mc=1, stride=41, stride3=11, rscale=20, rcheck=2, metastride=5, seed=chk.seed)
    cat, cases, stats = gen_cases(chk, params); chk.mark("tlc")
    sql = {2: [render(q) for q in cat["cat2"]], 3: [render(q) for q in cat["cat3"]]}
    rscale = cat["rscale"]

    # ---- which physical operator does the planner pick for each shape (observation, per physical design)
    probe = {"n": 3, "a": [[1, 0], [sqlbag.NULL, 1], [2, 1]], "b": [[1, 1], [2, 0]], "c": [[1, 1]]}
    sessions = []
    for phys in PHYS:
        sessions.append(setup_ops(probe, phys) + [{"k": "exec", "sql": "EXPLAIN " + s} for n in (2, 3) for s in sql[n]])
    algo = {}
    for phys, ops, res in zip(PHYS, sessions, sqlbag.run_sessions(sessions, "explain")):
        plans = [r for op, r in zip(ops, res) if op["sql"].startswith("EXPLAIN ")]
        k = 0
        for n in (2, 3):
            for i in range(len(sql[n])):
                r = plans[k]; k += 1
                algo[(phys, n, i)] = algo_of(r["ok"].get("plan")) if "ok" in r else "explain_failed"
    chk.mark("explain")

    # ---- small tables: every query x physical design x budget
    sessions, index = [], []
    bsalt = rng.randrange(4)
    for ci, case in enumerate(cases):
        qs = sql[case["n"]]
        for phys in PHYS:
            ops = setup_ops(case, phys)
            for bname, pre in BUDGETS:
                ops += pre
                ops += [{"k": "query", "sql": s, "qi": i, "bud": bname} for i, s in enumerate(qs)
                        if bname == "default" or thorough or (i + ci + bsalt) % 4 == 0]
            sessions.append(ops); index.append((ci, phys))
    results = sqlbag.run_sessions(sessions, "small"); chk.mark("run_small")

    per_sig = collections.Counter()
    evals = agree = 0
    budget_dependent = 0
    by_shape_ok = collections.Counter()
    samples = []
    divergences = []

    def report(case, phys, bname, q, qsql, model, oc, verdict, scaled, r):
        a = algo[(phys, q["n"], q["_i"])]
        sigs = signatures(verdict, q, a, bname, scaled)
        divergences.append((verdict, shape(q), a, phys, bname))
        rep = None
        for sig in sigs:
            per_sig[sig] += 1
            if sig in chk.findings.hit:            # a known finding already exemplified: count only
                chk.findings.hit[sig]["count"] += 1
                continue
            if rep is None:
                rep = {"tables": {k: case[k] for k in ("a", "b", "c") if k in case}, "phys": phys, "budget": bname, "scale": r,
                       "sql": qsql, "query": {k: v for k, v in q.items() if k != "_i"}, "algo": a, "model": model,
                       "count": "s" if scaled else "n",
                       "expected": sqlbag.bag_list(sqlbag.model_bag(model["exp"], "s" if scaled else "n")),
                       "observed": sqlbag.bag_list(oc[1]) if oc[0] == "rows" else {oc[0]: oc[1]}, "verdict": list(verdict)}
            if sig in seen_violation:
                continue
            if not chk.findings.known(sig):
                seen_violation.add(sig)
            chk.classify(sig, rep)

    seen_violation = set()
    for (ci, phys), ops, res in zip(index, sessions, results):
        case = cases[ci]
        qs = queries_of(cat, case)
        if len(res) != len(ops):
            raise vlib.ToolError("session for case %d/%s returned %d of %d results (watchdog?)" % (ci, phys, len(res), len(ops)))
        default_oc = {}
        for op, r in zip(ops, res):
            if op.get("setup") or op["k"] != "query":
                if "ok" not in r:
                    raise vlib.ToolError("setup/budget op failed: %s -> %s" % (json.dumps(op)[:200], json.dumps(r)[:300]))
                continue
            i = op["qi"]
            q = dict(qs[i], _i=i)
            model = case["res"][i]
            if selftest and ci == 0 and i == 0:
                model = selftest_perturb(model)
            oc = sqlbag.outcome(r)
            evals += 1
            if op["bud"] == "default":
                default_oc[i] = oc
            elif oc != default_oc.get(i):
                budget_dependent += 1
                rep = {"tables": {k: case[k] for k in ("a", "b", "c") if k in case}, "phys": phys, "budget": op["bud"], "scale": 1,
                       "sql": op["sql"], "default_budget_result": str(default_oc.get(i))[:400], "this_budget_result": str(oc)[:400],
                       "model": model, "count": "n", "algo": algo[(phys, q["n"], i)], "query": qs[i]}
                chk.classify("budget_dependent:%s|%s" % (op["bud"], algo[(phys, q["n"], i)]), rep)
            verdict = judge(model, oc, "n", None if selftest else (ci, i), algo[(phys, q["n"], i)])
            if verdict is None:
                agree += 1
                by_shape_ok[shape(q)] += 1
                if len(samples) < 3 and model["exp"] and rng.random() < 0.001:
                    samples.append({"tables": {k: case[k] for k in ("a", "b", "c") if k in case}, "sql": op["sql"], "phys": phys,
                                    "budget": op["bud"], "expected": sqlbag.bag_list(sqlbag.model_bag(model["exp"])),
                                    "observed": sqlbag.bag_list(oc[1])})
            else:
                report(case, phys, op["bud"], q, op["sql"], model, oc, verdict, False, 1)
    chk.mark("judge_small")

    # ---- scaled tables: a stratified sample of cases and shapes, default and squeezed budgets
    nz = [ci for ci, c in enumerate(cases) if all(c.get(t) for t in ("a", "b")) and (c["n"] == 2 or c.get("c"))]
    pick = vlib.stratified_sample(nz, lambda ci: (cases[ci]["n"], tuple(data_class(cases[ci]))), 24 if thorough else 10, rng)
    sessions, index = [], []
    for ci in pick:
        case = cases[ci]
        qs = queries_of(cat, case)
        cand = [i for i in range(len(qs)) if sum(e["s"] for e in case["res"][i]["exp"]) <= 40000]
        qsel = vlib.stratified_sample(cand, lambda i: shape(qs[i]), 40 if thorough else 16, rng)
        for phys in PHYS:
            ops = setup_ops(case, phys, rscale)
            for bname, pre in budget_ops(SCALED_BUDGETS):
                ops += pre
                ops += [{"k": "query", "sql": sql[case["n"]][i], "qi": i, "bud": bname} for i in qsel]
                ops.append({"k": "hits", "bud": bname})
            sessions.append(ops); index.append((ci, phys))
    results = sqlbag.run_sessions(sessions, "scaled", watchdog=600, sub="join-obs"); chk.mark("run_scaled")
    points = collections.Counter()          # verification points of the join / spill code seen, per budget setting
    scaled_evals = scaled_agree = scaled_budget_errors = 0
    scaled_rows_max = 0
    for (ci, phys), ops, res in zip(index, sessions, results):
        case = cases[ci]
        qs = queries_of(cat, case)
        if len(res) != len(ops):
            raise vlib.ToolError("scaled session for case %d/%s returned %d of %d results" % (ci, phys, len(res), len(ops)))
        for op, r in zip(ops, res):
            if op.get("setup") or op["k"] != "query":
                if "ok" not in r:
                    raise vlib.ToolError("setup/budget op failed (scaled): %s -> %s" % (json.dumps(op)[:200], json.dumps(r)[:300]))
                if op["k"] == "hits":
                    for name, v in r["ok"]["points"].items():
                        points[(op["bud"], name)] += v["n"]
                continue
            i = op["qi"]
            q = dict(qs[i], _i=i)
            model = case["res"][i]
            oc = sqlbag.outcome(r)
            scaled_evals += 1
            if oc[0] == "rows":
                scaled_rows_max = max(scaled_rows_max, sum(oc[1].values()))
            verdict = judge(model, oc, "s", (ci, i), algo[(phys, q["n"], i)])
            if verdict is None:
                scaled_agree += 1
            else:
                if verdict[0] == "err" and "memory budget exceeded" in verdict[1]:
                    scaled_budget_errors += 1
                report(case, phys, op["bud"], q, op["sql"], model, oc, verdict, True, rscale)
    chk.mark("judge_scaled")

    hook_present = any(name.startswith("join.path.") for _, name in points)
    spill_points = sum(n for (b, name), n in points.items() if name == "spill.partition")
    grace_opens = sum(n for (b, name), n in points.items() if name == "join.grace.open")
    if hook_present and spill_points == 0 and scaled_budget_errors == 0:
        raise vlib.ToolError("vacuous budget dimension: under the squeezed budgets no join spilled and none failed; "
                             "the scaled tables are too small to reach the budget")
    if hook_present:
        spill_note = "%d spill.partition points, %d grace-hash executor opens over %d scaled evaluations" % (spill_points, grace_opens, scaled_evals)
    else:
        spill_note = ("unverified: TurDB has no spill / join-path hook yet (proposed/C17-spill-hook.diff); by reading, "
                      "Database::query never builds the GraceHashJoin executor, so no run can spill")
    # ---- non-vacuity
    classes = collections.Counter(f for c in cases for f in data_class(c))
    need = ["a_empty", "b_empty", "a_nullkey", "b_nullkey", "a_dupkey", "b_dupkey", "a_duprow", "b_duprow"]
    missing = [f for f in need if not classes[f]]
    if missing:
        raise vlib.ToolError("vacuous generation: no case with %s" % missing)
    n3 = sum(1 for c in cases if c["n"] == 3)
    if not n3:
        raise vlib.ToolError("vacuous generation: no 3-way case")
    algos_seen = collections.Counter(algo.values())
    for a in ("NL", "SHJ", "GHJ", "INL"):
        if not any(a in k.split("+") for k in algos_seen):
            raise vlib.ToolError("physical operator %s never chosen by the planner: the algorithm dimension is not covered" % a)
    nontrivial = sum(1 for c in cases for m in c["res"] if sum(e["n"] for e in m["exp"]) >= 1)
    kinds = collections.Counter(v[0] for v, *_ in divergences)
    if os.environ.get("VERIF_C17_DUMP"):
        agg = collections.Counter((str(v[1]) if v[0] == "kf" else v[0] + ":" + str(v[1])[:50], sh, a) for v, sh, a, phys, b in divergences)
        with open(os.environ["VERIF_C17_DUMP"], "w") as f:
            for k, n in sorted(agg.items(), key=lambda kv: -kv[1]):
                f.write("%6d %s\n" % (n, k))
    chk.cov = {
        "evaluations": evals + scaled_evals, "distinct_nontrivial": nontrivial,
        "rule": "a (tables, query) pair whose expected bag is non-empty; each is run on 2 physical designs under the default budget and (quick tier: a 1-in-4 sample of them, thorough: all) under the 5 other budget settings",
        "cases_2way": len(cases) - n3, "cases_3way": n3, "query_shapes_2way": len(sql[2]), "query_shapes_3way": len(sql[3]),
        "tlc_states": stats.get("distinct"), "meta_invariants": "Containment LeftPreserves CrossSize Mirror WhereFilters NullNeverMatches ImplIsRef ScaleLawHolds ThreeWay",
        "data_classes": dict(classes), "operators_chosen": dict(algos_seen),
        "small_evaluations": evals, "small_agree": agree, "budget_dependent_results": budget_dependent,
        "scaled_factor": rscale, "scaled_evaluations": scaled_evals, "scaled_agree": scaled_agree,
        "scaled_budget_errors": scaled_budget_errors, "scaled_max_result_rows": scaled_rows_max,
        "spill_hook_present": hook_present, "spill_points": spill_points, "grace_hash_opens": grace_opens, "spill_observed": spill_note,
        "join_points": {"%s:%s" % k: v for k, v in sorted(points.items())},
        "divergence_kinds": dict(kinds), "signatures": dict(per_sig),
        "agreeing_shapes": len(by_shape_ok), "samples": samples, "exhaustive": False, "selftest": selftest,
    }


def replay(chk, path):
    d = json.load(open(path))
    rp = d["replay"]
    vlib.build_harness()
    case = dict(rp["tables"])
    r = rp.get("scale", 1)
    ops = setup_ops(case, rp["phys"], r)
    for bname, pre in BUDGETS:
        ops += pre
        if bname == rp["budget"]:
            break
    ops.append({"k": "query", "sql": rp["sql"]})
    res = sqlbag.run_sessions([ops], "replay")[0]
    oc = sqlbag.outcome(res[-1])
    if "model" not in rp:
        print("stored case has no model answer"); return 2
    verdict = judge(rp["model"], oc, rp.get("count", "n"), None, rp.get("algo", ""))
    print("signature:", d["signature"])
    print("tables   :", json.dumps(rp["tables"]), "phys:", rp["phys"], "budget:", rp["budget"], "scale:", r)
    print("sql      :", rp["sql"])
    print("expected :", json.dumps(sqlbag.bag_list(sqlbag.model_bag(rp["model"]["exp"], rp.get("count", "n")))))
    print("observed :", json.dumps(sqlbag.bag_list(oc[1])) if oc[0] == "rows" else "%s: %s" % oc)
    if verdict is None:
        print("REPLAY: the current tree returns the specified bag (divergence not reproduced)")
        return 0
    print("REPLAY: divergence reproduced:", verdict)
    return 1

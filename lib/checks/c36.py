"""C36 - page write locks are mutually exclusive.

(A) TLC on PageLocks.tla: the repaired cleanup (MutexW, NoRW, TablesEmptyWhenIdle, AcquireSucceeds under WF) and a
    witness run of the pinned cleanup that must still find two writers on one page.
(B) every explored transition is a schedule forced on the real PageLockManager by the puppeteer; the harness keeps its
    own occupancy table (who holds which page in which mode) and the lock-table sizes are compared after every step.
"""
import os, random, json
import vlib

LEVEL = "model_checking"


def run(chk):
    thorough = chk.tier == "thorough"
    chk.assumptions += ["a blocked acquisition is modelled as a disabled step: schedules never park a thread inside a contended RwLock",
                        "schedule points only at the hooks plock.got_entry / plock.unlocked (and call boundaries); what lies between them is reached only by the real-race rounds (nondeterministic)",
                        "one page lock per thread at a time (page_write_multi is not modelled)"]
    vlib.build_harness(); chk.mark("build")
    mc = vlib.run_tlc("MC_PageLocks.tla", os.path.join(vlib.SPEC, "MC_PageLocks.cfg"), coverage=True, timeout=1500)
    vlib.tlc_ok(mc, "MC_PageLocks")
    if mc["violated"]:
        raise vlib.ToolError("PageLocks model (repaired) violates %s" % mc["violated"])
    pin = vlib.run_tlc("MC_PageLocks.tla", os.path.join(vlib.SPEC, "MC_PageLocks_pinned.cfg"), timeout=600)
    vlib.tlc_ok(pin, "MC_PageLocks_pinned")
    if "MutexW" not in pin["violated"]:
        raise vlib.ToolError("model of the pinned cleanup no longer exhibits the double-writer counterexample")
    chk.mark("tlc_mc")
    gens = [os.path.join(vlib.SPEC, "Gen_PageLocks.cfg")]
    if thorough:
        g3 = vlib.scratch() + "/Gen3.cfg"
        open(g3, "w").write(open(gens[0]).read().replace("Threads = {1, 2}", "Threads = {1, 2, 3}").replace("MaxOpsPerThread = 3", "MaxOpsPerThread = 2")
                            .replace("Pages = {1, 2}", "Pages = {1}"))
        gens.append(g3)
    cases = []
    for g in gens:
        cases += vlib.tlc_emit("MC_PageLocks.tla", g, timeout=1500)["emitted"]
    chk.mark("tlc_gen")
    total = len(cases)
    rng = random.Random(chk.seed)
    if not thorough:
        cases = vlib.stratified_sample(cases, lambda c: (c["hist"][-1]["a"], c["hist"][-1]["next"], len(c["hist"]) // 3, len({s["t"] for s in c["hist"]})), 6000, rng)
    inp, outp = vlib.scratch() + "/pl_cases.ndjson", vlib.scratch() + "/pl_res.ndjson"
    vlib.write_ndjson(inp, cases)
    vlib.run_vh(["plock-replay", "--in", inp, "--out", outp, "--jobs", vlib.NCPU], timeout=3000)
    res = vlib.read_ndjson(outp); chk.mark("replay")
    ok, kinds = 0, {}
    for r in res:
        if r["kind"] == "ok":
            ok += 1
            continue
        for pr in r["problems"]:
            kinds[pr["kind"]] = kinds.get(pr["kind"], 0) + 1
            rep = {"schedule": r["hist"], "problem": pr}
            sched = json.dumps([(s["t"], s["a"]) for s in r["hist"]])
            if pr["kind"] == "exclusion_violated":
                chk.violation("exclusion_violated:%s+%s" % (pr["holder"]["mode"], pr["newcomer"]["mode"]), rep)
            elif pr["kind"] == "tables_not_empty_when_idle":
                chk.violation("tables_not_empty_when_idle", rep)
            elif pr["kind"] in ("stuck", "blocked"):
                # the model says the step is enabled (no conflicting holder) but the thread does not get the lock
                chk.violation("acquisition_never_succeeds", rep)
            else:
                chk.stale.append("%s at step %s of %s: %s" % (pr["kind"], pr.get("step"), sched, json.dumps(pr)))
    # real races: MutexW / MutexRW of PageLocks.tla monitored on a shadow state while real threads hammer one hot page (the
    # interleavings the hooks cannot reach: inside a region without a schedule point). Several short rounds.
    stress = {"rounds": 0, "acquisitions": 0, "two_writers": 0, "writer_with_reader": 0, "entries_left": 0}
    for rnd in range(6 if thorough else 3):
        sp = vlib.scratch() + "/plstress_%d.json" % rnd
        vlib.run_vh(["plock-stress", "--ms", 8000 if thorough else 2500, "--writers", 2, "--readers", 3 + rnd % 2, "--others", 2, "--out", sp], timeout=600)
        r = json.load(open(sp))
        stress["rounds"] += 1
        for k in ("acquisitions", "two_writers", "writer_with_reader", "entries_left"):
            stress[k] += r[k]
        if r["two_writers"] or r["writer_with_reader"]:
            chk.violation("exclusion_violated_under_real_races:%s" % ("w+w" if r["two_writers"] else "w+r"), {"stress": r, "how": "harness plock-stress (nondeterministic; re-run to reproduce)"})
            break
        if r["entries_left"]:
            chk.violation("tables_not_empty_when_idle_after_real_races", {"stress": r})
            break
    if stress["acquisitions"] < 100000:
        raise vlib.ToolError("the stress rounds made only %d acquisitions" % stress["acquisitions"])
    chk.mark("stress")
    chk.cov = {
        "real_race_rounds": stress,
        "states": mc["stats"]["distinct"], "transitions": mc["stats"]["generated"],
        "traces_validated_against_impl": len(res), "schedules_generated_by_tlc": total, "schedules_replayed": len(cases),
        "schedules_followed_exactly": ok, "problem_kinds": kinds,
        "actions_covered": {a: t for a, (d, t) in mc["coverage"].items()},
        "liveness_checked": "AcquireSucceeds under WF",
        "pinned_cleanup_counterexample_in_model": True, "exhaustive": thorough,
        "samples": [{"schedule": [(s["t"], s["a"], s["arg"]) for s in c["hist"]]} for c in cases[:: max(1, len(cases) // 3)][:3]],
    }

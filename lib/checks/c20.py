"""C20 - scalar functions, CAST and arithmetic return what their definitions give (spec/Scalar.tla + Calendar.tla).

TLC enumerates function applications over finite domains that contain every class the property names (strings over
an alphabet with 1-, 2-, 3- and 4-byte UTF-8 characters; integers around 0, +-2^62 and the i64 limits as pairs
<<k,o>> = k*2^62+o so that overflow is decided exactly; quarters for rounding; NULL in every argument position) and
prints each application with its SET of admissible results, its spec-defined class and named deviations.  The check
renders every application twice - `SELECT f(literals)` and `SELECT f(columns) FROM t` with the arguments stored in a
table - runs them on TurDB and compares.  Date functions are checked against the calendar table of Calendar.tla
(every date in the thorough tier).  Signature = function/arity | class | expected class | observed class | context."""
import json, os, random
import vlib, scalar, caltab

LEVEL = "exploration"
MANIFEST = dict(cat=LEVEL, ref="DESIGN.md 3.10, 6 (C20)",
    tech="TLA+ oracle Scalar.tla (strings as code-point sequences, boundary-relative integer pairs, exact rationals, NULL propagation table) evaluated by TLC over finite domains with meta-invariants on the oracle (REVERSE involutive, LEFT/RIGHT complement, length additivity, pad lengths, first-occurrence minimality, pair arithmetic = native arithmetic on a scaled word, division/rounding laws); every generated application is rendered to SQL in two evaluation contexts (literal arguments / arguments read from a table), run on TurDB and compared with the admissible set; date functions against the Calendar.tla table",
    text="35 979 (quick) / 44 867 (thorough) applications of CHAR_LENGTH LENGTH REVERSE ASCII UPPER LOWER TRIM LTRIM RTRIM LEFT RIGHT SUBSTR/SUBSTRING INSTR LOCATE POSITION REPLACE CONCAT CONCAT_WS LPAD RPAD REPEAT STRCMP, + - * / % unary minus ABS SIGN MOD on all pairs of integers around 0, +-2^62 and the i64 limits (overflow must be an error, never a wrapped value or a panic; division by zero NULL or error), CEIL FLOOR ROUND TRUNCATE on quarters, GREATEST LEAST COALESCE IFNULL NULLIF IF CASE, CAST among int/float/text/date, and NULL in every argument position of every strict function, each in two contexts; YEAR MONTH DAY DAYOFWEEK DAYOFYEAR QUARTER LAST_DAY WEEKDAY on every date of 1..9999 (thorough) or a stratified subset (quick). DATE_ADD/DATE_SUB/DATEDIFF are judged for every date in C41",
    note="not specified (no exact definition over TLC's integers): SQRT POW EXP LOG* trigonometry, RAND, NOW/CUR*, DATE_FORMAT/locale formatting, UPPER/LOWER outside ASCII. Where SQL / the documentation leaves a choice (division by zero, GREATEST with NULL, CAST float->int rounding, SUBSTR with a negative position before the start, ASCII of a non-ASCII character, int/int division) every admissible outcome is accepted; an integer result delivered as an integral double is accepted as the same number")

SELFTEST = os.environ.get("VERIF_SELFTEST") == "1"
NEED_GROUPS = {"len", "case", "leftright", "substr", "instr", "locate", "replace", "concat", "pad", "pad_isolated", "repeat", "strcmp", "arith",
               "divmod", "round", "floatarith", "extreme", "control", "cast", "nulls"}
FN_COLS = [c for c in caltab.DATE_COLS if c[0] in ("year", "month", "day", "dayofweek", "dayofyear", "quarter", "last_day", "weekday", "year_d", "dayofweek_d")]


def load_cases(chk, thorough):
    res = vlib.tlc_emit("MC_Scalar.tla", os.path.join(vlib.SPEC, "Gen_Scalar_deep.cfg" if thorough else "Gen_Scalar.cfg"), timeout=1500, workers=8)
    if res["violated"]:
        raise vlib.ToolError("Scalar.tla meta-invariant violated (oracle bug): %s\n%s" % (res["violated"], res["out"][-1500:]))
    cases = res["emitted"]
    groups = {c["g"] for c in cases}
    if NEED_GROUPS - groups:
        raise vlib.ToolError("vacuous generation: groups never emitted: %s" % sorted(NEED_GROUPS - groups))
    cases.sort(key=lambda c: (c["g"], c["f"], json.dumps(c["args"], sort_keys=True)))
    return cases, res["stats"]


def class_counts(cases):
    def has(c, p):
        return any(p(v) for v in c["args"])
    n = {"null_argument": 0, "multibyte_text": 0, "four_byte_char": 0, "i64_limit_operand": 0, "overflow_expected": 0, "division_by_zero": 0,
         "rounding_tie": 0, "choice_left_open": 0, "named_deviation": 0}
    for c in cases:
        n["null_argument"] += has(c, lambda v: v["t"] == "null")
        n["multibyte_text"] += has(c, lambda v: v["t"] == "str" and any(cp > 127 for cp in v["cp"]))
        n["four_byte_char"] += has(c, lambda v: v["t"] == "str" and any(cp > 65535 for cp in v["cp"]))
        n["i64_limit_operand"] += has(c, lambda v: v["t"] == "int" and abs(v["k"]) == 2)
        n["overflow_expected"] += any(e["t"] == "err" and e["kind"] == "overflow" for e in c["exp"])
        n["division_by_zero"] += c["cls"] == "division_by_zero"
        n["rounding_tie"] += c["cls"] == "tie"
        n["choice_left_open"] += len(c["exp"]) > 1
        n["named_deviation"] += len(c["dev"]) > 0
    return n


def perturb(cases):
    """VERIF_SELFTEST=1: feed one deliberately wrong expectation (REVERSE expects the unreversed text)"""
    for c in cases:
        if c["f"] == "REVERSE" and len(c["args"][0]["cp"]) == 3 and c["args"][0]["cp"][0] != c["args"][0]["cp"][2]:
            c["exp"] = [c["args"][0]]
            return


# ----------------------------------------------------------------------------- date functions against Calendar.tla
def expected_fn(x):
    return {"year": x.y, "month": x.m, "day": x.d, "dayofweek": x.dow + 1, "dayofyear": x.doy, "quarter": x.q,
            "last_day": x.text[:8] + "%02d" % x.len, "weekday": (x.dow + 6) % 7, "year_d": x.y, "dayofweek_d": x.dow + 1}


def judge_date_table(chk, dates, counts, sigs):
    cases, idx = [], {}
    for ch in caltab.chunks(dates, caltab.ROWS_PER_DB):
        cid = "t%d" % len(cases)
        idx[cid] = ch
        cases.append(caltab.date_table_case(cid, ch, FN_COLS))
    res = caltab.run_cases(cases)
    names = [c[0] for c in FN_COLS]
    for c in cases:
        r, ch = res[c["id"]], idx[c["id"]]
        if len(r) != 3 or "rows" not in r[2] or len(r[2]["rows"]) != len(ch):
            diverge(chk, sigs, "DATEFN/1|batch|exp=value|obs=statement_failed", "table", {"dates": [ch[0].text, ch[-1].text], "result": r[-1]})
            continue
        for row in r[2]["rows"]:
            x = ch[row[0]]
            exp = expected_fn(x)
            for name, v in zip(names, row[1:]):
                counts["date_fn"] += 1
                if v != exp[name]:
                    typed = name.endswith("_d")
                    f = name[:-2].upper() if typed else name.upper()
                    cls = "date_typed_arg" if typed else "text_date:" + x.feats()
                    obs = "null" if v is None else "other_value"
                    diverge(chk, sigs, "%s/1|%s|exp=%s|obs=%s" % (f, cls, "str" if name == "last_day" else "int", obs), "table",
                            {"fn": f, "date": x.text, "arg_type": "DATE column" if typed else "TEXT column", "expected": exp[name], "observed": v})


def judge_date_literal(chk, dates, counts, sigs):
    fns = [("YEAR", "year"), ("MONTH", "month"), ("DAY", "day"), ("DAYOFWEEK", "dayofweek"), ("DAYOFYEAR", "dayofyear"), ("QUARTER", "quarter"),
           ("LAST_DAY", "last_day"), ("WEEKDAY", "weekday")]
    jobs = []
    for i, ch in enumerate(caltab.chunks(dates, 12)):
        jobs.append({"id": "q%d" % i, "ops": [{"k": "query", "sql": "SELECT " + ", ".join("%s('%s')" % (f, x.text) for x in ch for f, _ in fns)}]})
    res = caltab.run_cases(jobs)
    for i, ch in enumerate(caltab.chunks(dates, 12)):
        r = res["q%d" % i][0]
        if "rows" not in r:
            diverge(chk, sigs, "DATEFN/1|batch|exp=value|obs=statement_failed", "literal", {"dates": [ch[0].text, ch[-1].text], "result": r})
            continue
        vals = r["rows"][0]
        k = 0
        for x in ch:
            exp = expected_fn(x)
            for f, name in fns:
                counts["date_fn"] += 1
                if vals[k] != exp[name]:
                    diverge(chk, sigs, "%s/1|text_date:%s|exp=%s|obs=%s" % (f, x.feats(), "str" if name == "last_day" else "int", "null" if vals[k] is None else "other_value"),
                            "literal", {"fn": f, "date": x.text, "expected": exp[name], "observed": vals[k]})
                k += 1


def diverge(chk, sigs, sig, ctx, replay):
    sig = sig + "|ctx=" + ctx
    sigs[sig] = sigs.get(sig, 0) + 1
    if sigs[sig] == 1:
        chk.classify(sig, replay)
    elif chk.findings.known(sig):
        chk.findings.record(sig)


# ----------------------------------------------------------------------------- driver
def run(chk):
    thorough = chk.tier == "thorough"
    rng = random.Random(chk.seed)
    chk.assumptions += ["SQL renderer and value comparer (lib/scalar.py) are trusted; the harness returns integers exactly and floats in Rust's shortest round-trip form",
                        "harness profile: release, panic=unwind, overflow-checks=off (what a user's release build executes): an overflow shows as a wrapped value, not as a panic",
                        "an integer result delivered as an integral double (MOD, ROUND) is accepted as the same number"]
    vlib.build_harness(); chk.mark("build")
    cases, stats = load_cases(chk, thorough); chk.mark("tlc_scalar")
    if SELFTEST:
        perturb(cases)
    iso = [c for c in cases if c["g"] == "pad_isolated"]
    main = [c for c in cases if c["g"] != "pad_isolated"]
    sigs, counts = {}, {"literal": 0, "table": 0, "isolated": 0, "date_fn": 0}
    obs_l = scalar.run_literal(main); chk.mark("run_literal")
    obs_t = scalar.run_table(main); chk.mark("run_table")
    samples = []
    for ctx, obs in (("literal", obs_l), ("table", obs_t)):
        for c, o in zip(main, obs):
            counts[ctx] += 1
            if o is None:
                raise vlib.ToolError("no observation for %s %s" % (ctx, scalar.lit_expr(c)))
            sig = scalar.judge(c, o)
            if sig:
                diverge(chk, sigs, sig, ctx, {"case": c, "context": ctx, "sql": scalar.lit_expr(c) if ctx == "literal" else scalar.table_case("r", c["f"], scalar.typevec(c), [c])["ops"],
                                              "expected": [scalar.show(e) for e in c["exp"]], "observed": o})
    for c in iso:
        o = scalar.run_isolated(c)
        counts["isolated"] += 1
        sig = scalar.judge(c, o)
        if sig:
            diverge(chk, sigs, sig, "literal_isolated", {"case": c, "context": "literal_isolated", "sql": scalar.lit_expr(c), "expected": [scalar.show(e) for e in c["exp"]], "observed": o})
    chk.mark("judge")
    # date functions against the calendar table
    tab = caltab.load_table(chk, regenerate=False, sample_years=6); chk.mark("tlc_calendar")
    if thorough:
        n_dates, buf = 0, []
        for x in caltab.expand(tab["months"]):
            buf.append(x)
            if len(buf) >= 150000:
                judge_date_table(chk, buf, counts, sigs); n_dates += len(buf); buf = []
        if buf:
            judge_date_table(chk, buf, counts, sigs); n_dates += len(buf)
        alld = None
    else:
        alld, _ = caltab.quick_subset(tab["months"], chk.seed)
        alld = [x for x in alld if x.d in (1, x.len) and x.m in (1, 2, 3, 12) or x.y % 400 in (0, 100, 399) or x.y in (1, 1582, 1969, 1970, 2024, 9999)]
        judge_date_table(chk, alld, counts, sigs)
        n_dates = len(alld)
    lit_dates = (alld if alld is not None else list(caltab.expand(tab["months"][::97])))
    lit_dates = [lit_dates[i] for i in sorted(rng.sample(range(len(lit_dates)), min(len(lit_dates), 6000 if thorough else 1500)))]
    judge_date_literal(chk, lit_dates, counts, sigs)
    chk.mark("date_functions")
    cc = class_counts(main)
    empty = [k for k, v in cc.items() if not v]
    if empty or n_dates < 1000:
        raise vlib.ToolError("vacuous run: classes never generated: %s" % empty)
    per_f = {}
    for c in main:
        per_f[c["f"]] = per_f.get(c["f"], 0) + 1
    chk.cov = {"evaluations": counts["literal"] + counts["table"] + counts["isolated"] + counts["date_fn"], "distinct_nontrivial": len(cases) + n_dates,
               "rule": "distinct function applications (function x argument tuple) emitted by TLC, plus distinct calendar dates driven through the date functions; each has its own expected result",
               "applications": len(cases), "contexts": ["literal", "table"], "per_context": counts, "functions": len(per_f), "per_function": per_f,
               "classes": cc, "dates_through_date_functions": n_dates, "all_dates": n_dates == caltab.N_DATES, "literal_date_sample": len(lit_dates),
               "tlc_states": stats.get("distinct"), "divergences_per_signature": sigs, "selftest": SELFTEST, "calendar_table": tab["info"],
               "samples": [{"sql": "SELECT " + scalar.lit_expr(c), "admissible": [scalar.show(e) for e in c["exp"]], "class": c["cls"]}
                           for c in [main[i] for i in sorted(rng.sample(range(len(main)), 3))]]}


def replay(chk, path):
    rep = json.load(open(path))
    r = rep["replay"]
    vlib.build_harness()
    print("replay signature: %s" % rep["signature"])
    if "case" in r:
        c = r["case"]
        ol = scalar.run_isolated(c) if r.get("context") == "literal_isolated" else scalar.run_literal([c])[0]
        print("  SELECT %s" % scalar.lit_expr(c))
        print("  admissible: %s" % [scalar.show(e) for e in c["exp"]])
        print("  literal context  : %s -> %s" % (json.dumps(ol, ensure_ascii=False), scalar.judge(c, ol) or "ok"))
        if r.get("context") != "literal_isolated":
            ot = scalar.run_table([c])[0]
            print("  table context    : %s -> %s" % (json.dumps(ot, ensure_ascii=False), scalar.judge(c, ot) or "ok"))
    else:
        print("  date function case: %s" % json.dumps(r))
        ops = [{"k": "exec", "sql": "CREATE TABLE t (id INT, d DATE, s TEXT)"}, {"k": "exec", "sql": "INSERT INTO t VALUES (0, '%s', '%s')" % (r.get("date"), r.get("date"))},
               {"k": "query", "sql": "SELECT id, %s FROM t" % ", ".join(sql for _, sql in FN_COLS)}]
        print("  observed: %s" % json.dumps(caltab.run_cases([{"id": "r", "ops": ops}])["r"][-1])[:600])
    vlib.cleanup()
    return 1

"""C25 - HNSW search returns live, correctly ranked neighbours.

Hnsw.tla is the reference (live set + vectors; insert / delete / update / vacuum / reopen) with the search postcondition
ValidSearch(R, q, k, ef) and ghost REGIMES that name the context of a finding.  TLC
  * checks the model (TypeOK; PredicateSound: the predicate accepts the exact answer and rejects each kind of broken one),
  * enumerates every transition of the reference to a depth over 5 ids (history to the source state + the step) and
    draws random walks of 60 steps over 40 ids (with and without deletes), with the exact distances of every live row
    to every query of a grid,
  * generates SQ8 cases in exact integer units (Sq8.tla).
The harness (`hnsw-replay`) drives the real PersistentHnswIndex through each history with the level draws of the
behaviour, searches the query grid for k in {1,2,|live|,|live|+1}, two search widths and both search APIs, and judges
each result with a mirror of ValidSearch on TLC's distances (reopen: identical results before/after).  All violating
observations and a sample of the passing ones are re-judged by TLC itself (Trace_Hnsw).  A sample of the histories is
also rendered as SQL DML on a table with `CREATE INDEX .. USING HNSW`.
Signature of a finding: <api or action>:<regime>:<first violated clause>.
"""
import os, json, random, concurrent.futures as cf
import vlib

LEVEL = "model_checking"
MANIFEST = dict(cat=LEVEL, ref="DESIGN.md 6 (C25), 3.12 (Hnsw)",
    tech="TLA+ reference Hnsw.tla (live set, vectors, ValidSearch predicate, regimes) model-checked by TLC; every explored "
         "transition to depth 4 (quick) / 5 (thorough) over 5 ids and -simulate walks of 60 steps over 40 ids replayed on the real "
         "PersistentHnswIndex with the behaviour's level draws; every search judged by ValidSearch (Rust mirror on TLC's "
         "distances, cross-checked by TLC in Trace_Hnsw); SQ8 decode cases from Sq8.tla; histories also replayed as SQL DML",
    text="After every generated history of inserts/deletes/updates/vacuum/reopen a k-nearest search returns at most k distinct "
         "live rows in exact distance order, something whenever a live row exists, the exact top-k when the index is smaller "
         "than the search width, the same results after reopening; SQ8 decodes within one step",
    note="2-D integer vectors (exact distances); L2 metric only; the SQL layer never searches an HNSW index and "
         "CREATE INDEX .. USING HNSW builds a B-tree, so SQL-level results come from the exact sort; "
         "the unchanged tree violates most clauses once anything was deleted or the index outgrows one neighbour list / page (known findings)")

ORDER = ["no_error", "size", "live", "distinct", "nonempty", "sorted", "topk", "reopen_same"]


def first_clause(cl):
    for c in ORDER:
        if c in cl:
            return c
    return cl[0] if cl else "?"


def sig_of(what, regime, clause):
    """<api or action>:<regime>:<first violated clause | error | process_abort | hang>.  In the page_overflow regime node
    pages overwrite their own slot directory: behaviour is arbitrary, so only the KIND of failure is kept."""
    if regime == "page_overflow" and not what.startswith("sql_"):
        kind = clause if clause in ("process_abort", "hang", "error", "panic") else "search_clause"
        return "page_overflow:" + kind
    return "%s:%s:%s" % (what, regime, clause)


def _cfg(name, repl, tag):
    txt = open(os.path.join(vlib.SPEC, name)).read()
    for a, b in repl:
        if a not in txt:
            raise vlib.ToolError("cfg %s has no '%s'" % (name, a))
        txt = txt.replace(a, b)
    p = os.path.join(vlib.scratch(), tag + "_" + name)
    open(p, "w").write(txt)
    return p


def generate(chk, thorough):
    vlib.scratch()
    w = max(2, min(5, vlib.NCPU // 4))
    bfs_cfg = _cfg("Gen_Hnsw_bfs.cfg", [("MaxOps = 4", "MaxOps = 5")], "t") if thorough else os.path.join(vlib.SPEC, "Gen_Hnsw_bfs.cfg")
    mc_cfg = _cfg("MC_Hnsw.cfg", [("MaxOps = 3", "MaxOps = 4")], "t") if thorough else os.path.join(vlib.SPEC, "MC_Hnsw.cfg")
    nodel_cfg = _cfg("Gen_Hnsw_walk.cfg", [("Levels = {0, 1}", "Levels = {0}"), ("MaxOps = 60", "MaxOps = 46"), ("MaxNodes = 60", "MaxNodes = 42"),
                                           ("WithDelete = TRUE", "WithDelete = FALSE")], "nodel")
    sq_cfg = _cfg("Gen_Sq8.cfg", [("Dense = FALSE", "Dense = TRUE")], "t") if thorough else os.path.join(vlib.SPEC, "Gen_Sq8.cfg")
    nw, nw2 = (150, 40) if thorough else (16, 8)
    with cf.ThreadPoolExecutor(5) as ex:
        f_mc = ex.submit(vlib.run_tlc, "MC_Hnsw.tla", mc_cfg, w, 2400, None, None, None, None, None, True)
        f_bfs = ex.submit(vlib.tlc_emit, "MC_Hnsw.tla", bfs_cfg, 2400, None, None, None, w)
        f_w1 = ex.submit(vlib.tlc_emit, "Walk_Hnsw.tla", os.path.join(vlib.SPEC, "Gen_Hnsw_walk.cfg"), 2400, "num=%d" % nw, chk.seed, ["-depth", "62"], 1)
        f_w2 = ex.submit(vlib.tlc_emit, "Walk_Hnsw.tla", nodel_cfg, 2400, "num=%d" % nw2, chk.seed + 1000, ["-depth", "48"], 1)
        f_sq = ex.submit(vlib.tlc_emit, "Sq8.tla", sq_cfg, 2400, None, None, None, w)
        mc, bfs, w1, w2, sq = f_mc.result(), f_bfs.result(), f_w1.result(), f_w2.result(), f_sq.result()
    vlib.tlc_ok(mc, "MC_Hnsw")
    for r, what in ((mc, "MC_Hnsw"), (bfs, "Gen_Hnsw_bfs"), (w1, "walks"), (w2, "walks without deletes"), (sq, "Sq8")):
        if r["violated"]:
            raise vlib.ToolError("the Hnsw model (%s) violates its own invariant %s:\n%s" % (what, r["violated"], r["out"][-2500:]))
    if len(w1["emitted"]) != nw or len(w2["emitted"]) != nw2:
        raise vlib.ToolError("expected %d+%d walks, TLC emitted %d+%d" % (nw, nw2, len(w1["emitted"]), len(w2["emitted"])))
    return mc, bfs["emitted"], w1["emitted"], w2["emitted"], sq["emitted"]


def last_feat(h):
    last = h[-1]
    kinds = "".join(sorted({e["a"][0] for e in h[:-1]}))
    return (last["a"], last["regime"], last["reopened"], len(last["live"]), kinds)


def trace_check(obs, mine):
    if not obs:
        return 0
    p = os.path.join(vlib.scratch(), "hnsw_obs.ndjson")
    vlib.write_ndjson(p, obs)
    res = vlib.run_tlc("Trace_Hnsw.tla", os.path.join(vlib.SPEC, "Trace_Hnsw.cfg"), workers=4, timeout=1800, env={"OBS": p})
    vlib.tlc_ok(res, "Trace_Hnsw")
    got = {e["i"]: sorted(e["failed"]) for e in vlib.parse_emitted(res["out"])}
    if len(got) != len(obs):
        raise vlib.ToolError("Trace_Hnsw judged %d of %d observations:\n%s" % (len(got), len(obs), res["out"][-1500:]))
    for i, m in enumerate(mine):
        if got[i + 1] != sorted(m):
            raise vlib.ToolError("Rust mirror and Hnsw!FailedClausesIn disagree on %s: mirror %s, TLC %s" % (json.dumps(obs[i]), sorted(m), got[i + 1]))
    return len(obs)


def obs_for_tlc(step, o):
    # row ids the index reports are u64: keep them inside TLC's integers (a wild id is just "not live")
    R = [x if 0 <= x < 1000000 else 999999 for x in o["R"]]
    return {"live": step["live"], "vecs": step["vecs"], "nodes": step["nodes"], "R": R, "q": [int(x) for x in o["q"]], "k": o["k"], "ef": o["ef"]}


def classify_all(chk, cases, results, counts, tobs, tmine, rng):
    by_id = {r["id"]: r for r in results}
    for c in cases:
        r = by_id.get(c["id"])
        if r is None or "fatal" in r:
            raise vlib.ToolError("hnsw-replay lost case %s: %s" % (c["id"], r))
        hist = c["hist"]
        counts["searches"] += r["nsearch"]
        judged_steps = range(len(hist)) if c["every"] else [len(hist) - 1]
        # action results (only the judged steps: prefixes of an enumerated history are cases of their own)
        crash = r.get("crash")
        if crash:
            # TurDB took the child process down (abort on a failed allocation, stack overflow) or never returned
            i = crash.get("step") if isinstance(crash.get("step"), int) else len(r["steps"])
            i = min(i, len(hist) - 1)
            what = hist[i]["a"] if crash.get("phase") == "action" else "search"
            sig = sig_of(what, hist[i]["regime"], "hang" if crash.get("kind") == "hang" else "process_abort")
            counts["sig"][sig] = counts["sig"].get(sig, 0) + 1
            counts["crashes"] = counts.get("crashes", 0) + 1
            chk.classify(sig, {"case": c, "step": i, "crash": crash, "regime": hist[i]["regime"]})
        for i in judged_steps:
            if i >= len(r["steps"]):
                # the replay stops after a crash and after a reopen that failed (there is no index any more): those are
                # reported on their own step; the steps behind them are abandoned, not judged
                prev = r["steps"][-1] if r["steps"] else None
                explained = crash or (i > 0 and hist[len(r["steps"]) - 1]["a"] == "reopen" and prev != "ok")
                if not explained:
                    chk.classify(sig_of(hist[i]["a"], hist[i]["regime"], "not_executed"), {"case": c, "result": r, "step": i})
                counts["abandoned_steps"] = counts.get("abandoned_steps", 0) + len(hist) - i
                break
            s = r["steps"][i]
            counts["actions"] += 1
            if c["mode"] == "sql":
                ok = s == "skipped" or (isinstance(s, dict) and "ok" in s)
            else:
                ok = s == "ok"
            if not ok:
                kind = "panic" if isinstance(s, dict) and "panic" in s else "error"
                sig = sig_of(("sql_" if c["mode"] == "sql" else "") + hist[i]["a"], hist[i]["regime"], kind)
                counts["sig"][sig] = counts["sig"].get(sig, 0) + 1
                chk.classify(sig, {"case": c, "step": i, "action": {k: hist[i][k] for k in ("a", "id", "v", "lvl")}, "result": s})
        for v in r["viol"]:
            if v.get("api") == "dml":
                continue    # reported above as an action result
            st = hist[v["step"]]
            sig = sig_of(v["api"], st["regime"], first_clause(v["clauses"]))
            counts["sig"][sig] = counts["sig"].get(sig, 0) + 1
            chk.classify(sig, {"case": c, "step": v["step"], "observation": v, "live": st["live"], "vecs": st["vecs"], "regime": st["regime"]})
            if "R" in v and v.get("err") is None and st["vecs"] and v["api"] in ("search", "search_filtered", "sql_order_by"):
                o = obs_for_tlc(st, dict(v, ef=(10 ** 6 if v["api"] == "sql_order_by" else v["ef"])))
                if v["api"] == "sql_order_by":
                    o["nodes"] = 0
                tobs.append(o); tmine.append([x for x in v["clauses"] if x != "reopen_same"])
        for v in r["sample"]:
            st = hist[v["step"]]
            if st["vecs"] and rng.random() < 0.3:
                o = obs_for_tlc(st, dict(v, ef=(10 ** 6 if v["api"] == "sql_order_by" else v["ef"])))
                if v["api"] == "sql_order_by":
                    o["nodes"] = 0
                tobs.append(o); tmine.append([])


def run_replay(cases, tag):
    inp, outp = vlib.scratch() + "/%s_in.ndjson" % tag, vlib.scratch() + "/%s_out.ndjson" % tag
    vlib.write_ndjson(inp, cases)
    vlib.run_vh(["hnsw-replay", "--in", inp, "--out", outp, "--jobs", vlib.NCPU], timeout=3000)
    return vlib.read_ndjson(outp)


def sq8_part(chk, sq, counts):
    for i, c in enumerate(sq):
        c["id"] = i
    inp, outp = vlib.scratch() + "/sq_in.ndjson", vlib.scratch() + "/sq_out.ndjson"
    vlib.write_ndjson(inp, sq)
    vlib.run_vh(["sq8-cases", "--in", inp, "--out", outp, "--jobs", 4], timeout=900)
    res = {r["id"]: r for r in vlib.read_ndjson(outp)}
    ncomp, worst2 = 0, 0
    resid = set()
    for c in sq:
        r = res.get(c["id"])
        if r is None:
            raise vlib.ToolError("sq8-cases lost case %d" % c["id"])
        rng_class = "range%d" % c["range"]
        if "panic" in r:
            chk.classify("sq8:panic:%s" % rng_class, {"case": c, "result": r})
            continue
        if not r["exact_input"]:
            raise vlib.ToolError("SQ8 case is not exact in f32: %s" % json.dumps(c))
        selftest = os.environ.get("VERIF_SELFTEST") == "1"
        for api in ("decode", "decode_into", "stored_decode", "ref_decode"):
            dec = r["obs"][api]
            if isinstance(dec, dict):
                chk.classify("sq8:%s:%s:error" % (api, rng_class), {"case": c, "result": r})
                continue
            step = c["step"] - (3 if selftest and c["step"] == 4 else 0)
            if len(dec) != len(c["u"]):
                chk.classify("sq8:%s:%s:length" % (api, rng_class), {"case": c, "result": r})
                continue
            for j, (u, d) in enumerate(zip(c["u"], dec)):
                ncomp += 1
                dv = float(d["f"]) if isinstance(d, dict) else d
                resid.add((c["range"], c["resid"][j]))
                if c["step"]:
                    worst2 = max(worst2, 2 * abs(dv - u) / c["step"])
                if abs(dv - u) > step:
                    chk.classify("sq8:%s:%s:resid%d:beyond_one_step" % (api, rng_class, c["resid"][j]), {"case": c, "api": api, "component": j, "decoded": dec, "step_units": c["step"]})
    for need in ((1020, 0), (1020, 1), (1020, 2), (1020, 3), (510, 1), (255, 0), (0, 0)):
        if need not in resid:
            raise vlib.ToolError("SQ8 class (range, residue) %s never generated" % (need,))
    counts["sq8_cases"] = len(sq)
    counts["sq8_components"] = ncomp
    counts["sq8_worst_error_in_half_steps"] = worst2


def run(chk):
    thorough = chk.tier == "thorough"
    selftest = os.environ.get("VERIF_SELFTEST") == "1"
    rng = random.Random(chk.seed)
    chk.assumptions += ["2-D integer vectors: squared L2 distances are exact in f32", "row id 0 is never used (the index reports unreadable nodes as row 0)",
                        "the table the index reads vectors from holds exactly the live rows (get_vector returns None for deleted rows)",
                        "level draws are passed as random_value = m^-(level+1/2)", "reopen = sync() + drop + open()",
                        "'index small enough for the search width' is read as: number of nodes ever inserted <= ef"]
    vlib.build_harness(); chk.mark("build")
    mc, bfs, w1, w2, sq = generate(chk, thorough); chk.mark("tlc")
    # ---- non-vacuity of the generated behaviours
    acts = {}
    regimes = {}
    for t in bfs:
        a = t["hist"][-1]
        acts[a["a"]] = acts.get(a["a"], 0) + 1
    for wk in w1 + w2:
        for e in wk["hist"]:
            regimes[e["regime"]] = regimes.get(e["regime"], 0) + 1
    for t in bfs:
        regimes[t["hist"][-1]["regime"]] = regimes.get(t["hist"][-1]["regime"], 0) + 1
    for a in ("ins", "del", "upd", "vac", "reopen"):
        if not acts.get(a):
            raise vlib.ToolError("action %s never generated" % a)
    for g in ("clean", "after_delete", "ep_deleted", "fanout_exceeded", "page_overflow"):
        if not regimes.get(g):
            raise vlib.ToolError("regime %s never generated" % g)
    if not any(t["hist"][-1]["a"] == "vac" and t["hist"][-1]["regime"] == "ep_deleted" for t in bfs):
        raise vlib.ToolError("no history deletes the entry point and then vacuums")
    total_bfs = len(bfs)
    if not thorough:
        bfs = vlib.stratified_sample(bfs, lambda t: last_feat(t["hist"]), 9000, rng)
    cases = []
    for t in bfs:
        cases.append({"id": len(cases), "mode": "api", "m": 16, "efs": [64, 2], "every": False, "hist": t["hist"], "src": "bfs"})
    for wk in w1:
        cases.append({"id": len(cases), "mode": "api", "m": 16, "efs": [64, 3], "every": True, "hist": wk["hist"], "src": "walk"})
    for wk in w2:
        cases.append({"id": len(cases), "mode": "api", "m": 16, "efs": [64, 3], "every": True, "hist": wk["hist"], "src": "walk_nodelete"})
    # the same behaviours through SQL DML on a table with CREATE INDEX .. USING HNSW
    sql_src = vlib.stratified_sample(bfs, lambda t: last_feat(t["hist"])[:3], 1500 if thorough else 400, rng)
    for j, t in enumerate(sql_src):
        cases.append({"id": len(cases), "mode": "sql", "efs": [64], "every": False, "lit": j % 2 == 0, "hist": t["hist"], "src": "bfs_sql"})
    for wk in w1[: (20 if thorough else 3)]:
        cases.append({"id": len(cases), "mode": "sql", "efs": [64], "every": True, "lit": False, "hist": wk["hist"], "src": "walk_sql"})
    if selftest:   # falsify the expectations of one query on clean insert-only histories: the nearest row is "very far"
        for c in cases:
            st = c["hist"][-1]
            if c["src"] == "bfs" and st["regime"] == "clean" and len(st["live"]) >= 2:
                d = st["exp"][0]["d"]
                best = min(d, key=lambda p: p[1])
                best[1] += 1000
    results = run_replay(cases, "hn"); chk.mark("replay")
    counts = {"searches": 0, "actions": 0, "sig": {}}
    tobs, tmine = [], []
    classify_all(chk, cases, results, counts, tobs, tmine, rng)
    if selftest:
        tobs, tmine = [], []
    # bound the cross-check: every distinct (clauses, api) combination + a sample
    if len(tobs) > 1500:
        keep, seen = [], set()
        idx = list(range(len(tobs)))
        rng.shuffle(idx)
        for i in idx:
            key = (tuple(sorted(tmine[i])), len(tobs[i]["live"]) > 8)
            if key not in seen or len(keep) < 1500:
                seen.add(key); keep.append(i)
        tobs, tmine = [tobs[i] for i in keep], [tmine[i] for i in keep]
    judged = trace_check(tobs, tmine); chk.mark("trace")
    sq8_part(chk, sq, counts); chk.mark("sq8")
    hnsw_file = any(r.get("hnsw_file") for r in results)
    if selftest:
        chk.notes.append("VERIF_SELFTEST=1: expectations were deliberately falsified; violations are expected")
    chk.cov = dict(states=mc["stats"].get("distinct", 0), transitions=mc["stats"].get("generated", 0),
                   traces_validated_against_impl=len(cases), transitions_generated_by_tlc=total_bfs, transitions_replayed=len(bfs),
                   walks=len(w1) + len(w2), sql_histories=len([c for c in cases if c["mode"] == "sql"]),
                   searches_judged=counts["searches"], actions_judged=counts["actions"], observations_rejudged_by_tlc=judged,
                   last_actions=acts, regimes_visited=regimes, divergences_by_signature=counts["sig"],
                   process_crashes=counts.get("crashes", 0), abandoned_steps=counts.get("abandoned_steps", 0), sq8_cases=counts["sq8_cases"], sq8_components=counts["sq8_components"], sq8_worst_error_in_half_steps=counts["sq8_worst_error_in_half_steps"],
                   model_actions_covered={a: t for a, (d, t) in mc["coverage"].items()}, exhaustive=thorough,
                   sql_layer_has_hnsw_file=hnsw_file,
                   samples=[{"history": [(e["a"], e["id"], e["v"], e["lvl"]) for e in c["hist"]], "regime": c["hist"][-1]["regime"], "live": c["hist"][-1]["live"]}
                            for c in cases[:: max(1, len(cases) // 3)][:3]])


def replay(chk, path):
    rep = json.load(open(path))["replay"]
    vlib.build_harness()
    c = dict(rep["case"], id=0)
    r = run_replay([c], "one")[0]
    print("history:", json.dumps([(e["a"], e["id"], e["v"], e["lvl"]) for e in c["hist"]]), "mode", c["mode"])
    print("action results:", json.dumps(r.get("steps")))
    if r.get("crash"):
        print("PROCESS CRASH", json.dumps(r["crash"]))
    st = c["hist"][rep.get("step", len(c["hist"]) - 1)]
    print("live:", st["live"], "vectors:", st["vecs"], "regime:", st["regime"], "nodes:", st["nodes"])
    for v in r.get("viol", [])[:6]:
        print("DIVERGENCE", json.dumps({k: v[k] for k in v if k in ("step", "api", "ef", "q", "k", "R", "reported", "clauses", "err", "res", "before_reopen")}))
    bad = bool(r.get("viol")) or bool(r.get("crash")) or any(s != "ok" and not (isinstance(s, dict) and "ok" in s) and s != "skipped" for s in r.get("steps", []))
    vlib.cleanup()
    return 1 if bad else 0

"""C38 - concurrent commits log page images in commit order (spec/CommitOrder.tla).

(A) TLC model-checks the capture / submit / elect / flush / return protocol (batches of several commits included: AckAfterLogged,
    BatchLogged) of COMMIT for 2 (thorough: 3) concurrent committers on one shared
    page: Covered, LogOrder and ReplayGivesNewestCommitted hold for every schedule without overlap (Serial*
    invariants) and the witness configurations show that the protocol violates them with overlap.
(B) every schedule TLC explores is driven through real cloned Database handles on real threads, parked at the hook
    points `commit.captured` (between the copy of the page images and their submission), `gc.check` (wait loop of the queue) and
    `commit.flush.begin` (the leader has taken its batch); the batch sizes the real leaders take must be the model's; afterwards the
    directory is copied as a process-kill snapshot, reopened (recovery replays the log) and each row whose writer's
    COMMIT returned must carry that writer's last value. The model predicts the outcome of every schedule:
        model: newest committed image is last in the log   -> the recovered rows must be right
        model: an older image is logged last / not covered  -> the recorded finding, confirmed on the real code
"""
import json, os, random
import vlib

LEVEL = "model_checking"
MANIFEST = dict(cat=LEVEL, ref="DESIGN.md 3.3, 6 (C38)",
    tech="TLA+ spec CommitOrder.tla (shared dirty tracker, capture under the file-manager lock, then the group-commit queue: submit, leader election taking every pending commit, flush of the batch in queue order, return of the waiters) model-checked by TLC; every explored schedule forced on real Database handles by a puppeteer at the commit.captured hook, followed by a kill snapshot, recovery and comparison with the model's prediction",
    text="TLC explores every interleaving of modify / capture / submit / elect / flush / return steps of 2 committers (3 in thorough) with up to 3 page versions; Covered / LogOrder / ReplayGivesNewestCommitted are proved for non-overlapping schedules and refuted (witness) for overlapping ones; each explored schedule is executed on two real handles, the database is snapshotted as by a process kill, recovered, and every committed writer's row must carry its last value exactly when the model says the newest committed image is last in the log",
    note="one shared table page (two rows); index and overflow pages are outside this model (their absence from the log is the C01 finding power:...:index); group commit enabled (default); statements run to completion between schedule points")


def predicted_ok(c, done=None):
    # after a process kill the page in the mapping survives: recovery gives the last logged image, or - with an
    # empty log - the in-place image. (The power-loss reading, Covered, is model-checked only.)
    # `done`: the committers whose COMMIT has returned on the real code. A COMMIT with nothing to log returns at the
    # capture point already (the model's Submit step of an empty payload is not a separate real step), so the
    # model's formula is evaluated over the observed set.
    if done is None:
        return bool(c["killok"])
    newest = c["log"][-1] if c["log"] else c["ver"]
    return all(newest >= c["mine"][t - 1] for t in done)


def run(chk):
    thorough = chk.tier == "thorough"
    chk.assumptions += ["schedule points at commit.captured, gc.check (wait loop of the group-commit queue) and commit.flush.begin (statements are atomic steps)", "both rows on one table page", "kill snapshot = byte copy of the directory after the schedule"]
    vlib.build_harness(); chk.mark("build")
    mc = vlib.run_tlc("MC_CommitOrder.tla", os.path.join(vlib.SPEC, "MC_CommitOrder.cfg"), coverage=True, timeout=600)
    vlib.tlc_ok(mc, "MC_CommitOrder")
    if mc["violated"]:
        raise vlib.ToolError("CommitOrder.tla violates %s for non-overlapping schedules" % mc["violated"])
    for cfg, inv in (("MC_CommitOrder_witness.cfg", "Covered"), ("MC_CommitOrder_witness2.cfg", "ReplayGivesNewestCommitted")):
        w = vlib.run_tlc("MC_CommitOrder.tla", os.path.join(vlib.SPEC, cfg), timeout=600)
        vlib.tlc_ok(w, cfg)
        if inv not in w["violated"]:
            raise vlib.ToolError("witness %s no longer violates %s" % (cfg, inv))
    chk.mark("tlc_mc")
    cfg = vlib.scratch() + "/GenCO.cfg"
    base = open(os.path.join(vlib.SPEC, "Gen_CommitOrder.cfg")).read()
    if thorough:
        base = base.replace("Threads = {1, 2}", "Threads = {1, 2, 3}")
    open(cfg, "w").write(base)
    gen = vlib.tlc_emit("MC_CommitOrder.tla", cfg, timeout=900, workers=1)
    cases = gen["emitted"]
    total = len(cases)
    rng = random.Random(chk.seed)
    if len(cases) > 1500:
        cases = vlib.stratified_sample(cases, lambda c: (c["overlap"], c["killok"], c["covered"], len(c["done"]), len(c["hist"])), 1500, rng)
    for i, c in enumerate(cases):
        c["id"] = i
        c["threads"] = 3 if thorough else 2
    inp, outp = vlib.scratch() + "/co_in.ndjson", vlib.scratch() + "/co_out.ndjson"
    vlib.write_ndjson(inp, cases)
    vlib.run_vh(["commit-order", "--in", inp, "--out", outp], timeout=3000)
    chk.mark("replay")
    stats = {"followed": 0, "ok_as_predicted": 0, "finding_as_predicted": 0}
    for r in vlib.read_ndjson(outp):
        c = cases[r["id"]]
        sched = [(h["t"], h["a"]) for h in c["hist"]]
        rep = {"schedule": sched, "model": {k: c[k] for k in ("overlap", "log", "mine", "newest", "covered", "killok")}, "observed": r}
        if r.get("fatal"):
            raise vlib.ToolError("commit-order harness: %s" % r["fatal"])
        if r["diverged"]:
            chk.stale.append("schedule %s: step %s did not behave as CommitOrder.tla says (%s)" % (sched, r["diverged"]["step"], r["diverged"]["observed"]))
            continue
        # a COMMIT that returned without reaching the capture point must have had nothing to log in the model
        bad_early = [t for t in r["early"] if c["payload"][t - 1] != 0 and t in c["done"]]
        if bad_early:
            chk.stale.append("schedule %s: COMMIT of %s returned early although the model captured a page" % (sched, bad_early))
            continue
        want_batches = [h["n"] for h in c["hist"] if h["a"] == "elect"]
        if r.get("batch_sizes", []) != want_batches:
            chk.stale.append("schedule %s: the flush leaders took batches of %s commits, CommitOrder.tla says %s" % (sched, r.get("batch_sizes"), want_batches))
            continue
        stats["followed"] += 1
        if any(n >= 2 for n in want_batches):
            stats["with_a_batch_of_two_or_more"] = stats.get("with_a_batch_of_two_or_more", 0) + 1
        rec = r["recovered"]
        if not isinstance(rec, dict) or "rows" not in rec:
            chk.violation("recovery_failed_after_concurrent_commits", rep)
            continue
        got = {x[0]: x[1] for x in rec["rows"]}
        lost = sorted(t for t in r["done"] if got.get(t) != r["values"].get(str(t)))
        ok_pred = predicted_ok(c, r["done"])
        if not lost:
            if ok_pred:
                stats["ok_as_predicted"] += 1
            else:
                # the model predicts a stale image but the real rows are fine: tolerated only if the real log order differs
                chk.stale.append("schedule %s: model predicts a lost committed image, the real recovery is correct" % (sched,))
            continue
        if ok_pred:
            chk.violation("committed_update_lost_after_recovery:%s" % ("overlapping" if c["overlap"] else "serial"), rep)
        else:
            stats["finding_as_predicted"] += 1
            chk.classify("older_image_logged_after_newer:capture_then_submit", rep)
    if stats["followed"] < 0.8 * len(cases):
        raise vlib.ToolError("only %d of %d schedules could be followed on the real code" % (stats["followed"], len(cases)))
    if not stats.get("with_a_batch_of_two_or_more"):
        raise vlib.ToolError("no schedule in which a flush leader took two commits was followed: the group-commit part is vacuous")
    if not stats["ok_as_predicted"]:
        raise vlib.ToolError("no schedule was judged as conforming: vacuous run")
    chk.cov = {"states": mc["stats"].get("distinct", 0), "transitions": mc["stats"].get("generated", 0),
               "traces_validated_against_impl": len(cases), "schedules_generated_by_tlc": total, "schedule_verdicts": stats,
               "actions_covered": {a: t for a, (d, t) in mc["coverage"].items()},
               "witnesses": {"Covered": "violated (as recorded)", "ReplayGivesNewestCommitted": "violated (as recorded)"},
               "exhaustive": len(cases) == total,
               "samples": [[(h["t"], h["a"]) for h in c["hist"]] for c in cases[:: max(1, len(cases) // 3)][:3]]}


def replay(chk, path):
    rep = json.load(open(path))["replay"]
    vlib.build_harness()
    case = {"id": 0, "threads": max(x[0] for x in rep["schedule"]), "hist": [{"t": x[0], "a": x[1]} for x in rep["schedule"]]}
    inp, outp = vlib.scratch() + "/co_in.ndjson", vlib.scratch() + "/co_out.ndjson"
    vlib.write_ndjson(inp, [case])
    vlib.run_vh(["commit-order", "--in", inp, "--out", outp], timeout=600)
    r = vlib.read_ndjson(outp)[0]
    print("schedule: %s" % rep["schedule"])
    print("  written values %s, committed %s, recovered %s" % (r["values"], r["done"], json.dumps(r["recovered"])[:200]))
    chk.cov = {"states": 1, "transitions": len(rep["schedule"]), "traces_validated_against_impl": 1, "samples": [rep["schedule"]]}
    return chk.finish()

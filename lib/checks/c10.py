"""C10 - indexes never change query results: after every step the primary-key, unique-index and secondary-index
lookups are compared with what the full scan OF THE SAME DATABASE implies (no model involved), on a table with
a secondary index on b as well."""
import relrun, relational as R
LEVEL = "model_checking"


def relevant(d, hist):
    # COUNT(*) is not an index path (it belongs to C05); every other derived query is
    return d["kind"] == "index_vs_scan" and set(d.get("queries", [])) != {"count"}


def signature(d, hist):
    op = hist[-1]["op"]
    qs = [q for q in d.get("queries", []) if q != "count"]
    cls = sorted({"pk" if q.startswith("pk") or q == "range" else "unique" if q.startswith("ua") or q == "anull" else "secondary" if q.startswith("b") else q for q in qs})
    what = op["k"] + ("(" + op.get("c", "") + ")" if op["k"] == "update" else "")
    return "index_vs_scan:%s:%s:%s" % ("+".join(cls), what, ",".join(R.features(hist)) or "-")


def run(chk):
    relrun.standard(chk, relevant, signature, schema="pk_idx_b")


def replay(chk, path):
    return relrun.replay_file(chk, path, relevant, signature)

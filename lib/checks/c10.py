"""C10 - indexes never change query results: after every step the primary-key, unique-index and secondary-index
lookups are compared with what the full scan OF THE SAME DATABASE implies (no model involved), on a table with
a secondary index on b as well."""
import relrun, relational as R
LEVEL = "model_checking"


def relevant(d, hist):
    # COUNT(*) is not an index path (it belongs to C05); every other derived query is
    return d["kind"] == "index_vs_scan" and set(d.get("queries", [])) != {"count"}


def signature(d, hist):
    op = hist[-1]["op"]
    uc = R.upsert_class(hist)
    if uc:
        return "index_vs_scan:upsert:%s" % uc
    qs = [q for q in d.get("queries", []) if q != "count"]
    cls = sorted({"pk" if q.startswith("pk") or q == "range" else "unique" if q.startswith("ua") or q in ("anull", "arange") else "secondary" if q.startswith("b") else q for q in qs})
    what = R.opname(op)
    return "index_vs_scan:%s:%s:%s" % ("+".join(cls), what, ",".join(R.features(hist)) or "-")


def wide_phase(chk):
    """WideTable.tla: hundreds of rows (several leaves, interior pages), statements on runs of ids; probes through the
    primary-key index, the secondary index and the scan after every step (TLC -simulate walks)."""
    import widetable
    thorough = chk.tier == "thorough"
    hists = widetable.walks(chk, 120 if thorough else 24, 20 if thorough else 12, cap=1500 if thorough else 150)
    outs = widetable.execute(hists)
    probs, st = widetable.judge(hists, outs)
    # the same with the indexes created (and dropped) on the POPULATED table: WithDDL = TRUE
    dh = widetable.walks(chk, 60 if thorough else 12, 16 if thorough else 10, n=700, ddl=True, cap=500 if thorough else 50)
    dprobs, dst = widetable.judge(dh, widetable.execute(dh, n=700, ddl=True), n=700)
    late = sum(1 for h in dh for x in h if x["op"]["k"] == "create_index" and x["probes"]["count"] >= 100)
    if not late:
        raise vlib.ToolError("no WideTable walk created an index on a table of 100 rows or more")
    st = dict(st, ddl_walks=len(dh), ddl_steps=dst["steps"], ddl_ok=dst["ok"], ddl_abandoned=dst["abandoned"], indexes_created_on_100_rows_or_more=late)
    sigs = {}
    for h, kind, d, is_ddl in [p + (False,) for p in probs] + [p + (True,) for p in dprobs]:
        if kind != "index":
            continue
        sig = "wide:%s:%s" % (d["what"], h[-1]["op"]["k"])
        sigs[sig] = sigs.get(sig, 0) + 1
        chk.classify(sig, {"behaviour": widetable.describe(h), "wide_hist": h, "wide_ddl": is_ddl, "detail": d})
    if st["steps"] and st["abandoned"] > 0.5 * st["steps"] and not chk.violations:       # (an unlisted divergence explains the loss itself)
        raise vlib.ToolError("more than half of the WideTable steps were abandoned")
    if st["rows_max"] < 150:
        raise vlib.ToolError("WideTable walks never built a table of 150 rows: the phase is vacuous")
    chk.cov["wide_table"] = dict(st, walks=len(hists), signatures=sigs, sample=widetable.describe(hists[0]))
    chk.mark("wide_table")


def run(chk):
    import vlib
    globals()["vlib"] = vlib
    _run_small(chk)
    # index paths after ROLLBACK / ROLLBACK TO (undo has to maintain every index): transaction-focused exploration
    st = relrun.focus_phase(chk, relevant, signature, "Gen_TxnFocus.cfg", 9 if chk.tier == "thorough" else 8, None if chk.tier == "thorough" else 4000)
    chk.cov["txn_focus"] = st
    chk.mark("txn_focus")
    chk.cov["upsert"] = relrun.upsert_phase(chk, relevant, signature)
    chk.mark("upsert")
    wide_phase(chk)


def _run_small(chk):
    relrun.standard(chk, relevant, signature, schema="pk_idx_b")


def replay(chk, path):
    import json, widetable
    rep = json.load(open(path))["replay"]
    if "wide_hist" in rep:
        return widetable.replay(chk, rep, "index")
    return relrun.replay_file(chk, path, relevant, signature)

"""C24 - vector distance ordering is exact.

Vector.tla is the oracle (integer-valued vectors: exact squared L2, exact cosine COMPARISON by sign + fraction
comparison, zero-vector cosine unspecified).  TLC
  (i)   checks the laws of the metrics on the model (MC_Vector_laws),
  (ii)  emits kernel conformance cases for EVERY length 1..70 (spike / prefix / pattern vectors at every position) with
        the exact expected numbers; the harness (`vector-kernels`) calls every public function of
        src/hnsw/distance.rs (scalar, dispatching, AVX2+FMA when the CPU has them) both ways round and compares exactly,
  (iii) emits small tables x queries x {<->, <=>} x LIMIT with the RANK of every row; the queries run on TurDB (tables
        without any index: exact path) and the observed id sequences are judged by the predicate Admissible
        (count, rows, distinct, sorted, topk; ties in any order; zero vectors under cosine unspecified).  The python
        comparison is a mirror on TLC's integers; all violations and a sample of the passes are fed back to TLC
        (Trace_Vector) which evaluates FailedClauses itself.
"""
import os, json, random, math, struct, concurrent.futures as cf
import vlib, oracle

LEVEL = "exploration"
MANIFEST = dict(cat=LEVEL, ref="DESIGN.md 6 (C24), 3.10 (Vector)",
    tech="TLA+ oracle Vector.tla evaluated by TLC: metric laws model-checked; kernel cases for every length 1..70 and "
         "ORDER BY <->/<=> [LIMIT k] cases over tables with ties, zero vectors, duplicates, negative and large components; "
         "every case run on TurDB (distance.rs kernels through the harness, SQL through sql-run) and compared; "
         "observed results re-judged by TLC (Trace_Vector)",
    text="On integer-valued inputs (exact in f32) every distance kernel returns exactly the defined value for every length "
         "1..70 and every position of a spike / prefix boundary; ORDER BY v <-> q / v <=> q [LIMIT k] returns min(k,n) rows "
         "in non-decreasing exact distance whose distances are the k smallest, on all generated tables/queries/k",
    note="numeric accuracy on non-integer data and cosine with zero vectors are not decided (DESIGN.md 7); AVX2 variants are "
         "only exercised when the CPU running the check has AVX2+FMA; SQL vector operators do not use distance.rs")

CLAUSES = ["count", "rows", "distinct", "sorted", "topk"]


def _cfg(name, repl):
    """copy of a spec cfg with constants replaced, in scratch"""
    txt = open(os.path.join(vlib.SPEC, name)).read()
    for a, b in repl:
        if a not in txt:
            raise vlib.ToolError("cfg %s has no '%s'" % (name, a))
        txt = txt.replace(a, b)
    p = os.path.join(vlib.scratch(), name)
    open(p, "w").write(txt)
    return p


def failed_clauses(R, case):
    """mirror of Vector!FailedClauses on TLC's ranks (rank -1 = unspecified row); R = observed ids"""
    n = len(case["rows"])
    rank = {i + 1: r for i, r in enumerate(case["rank"])}
    bad = []
    if len(R) != case["want_len"]:
        bad.append("count")
    if any(not (isinstance(x, int) and 1 <= x <= n) for x in R):
        bad.append("rows")
    if len(set(map(str, R))) != len(R):
        bad.append("distinct")
    S = [x for x in R if isinstance(x, int) and rank.get(x, -1) >= 0]
    if any(rank[S[i]] > rank[S[i + 1]] for i in range(len(S) - 1)):
        bad.append("sorted")
    out = [i for i in rank if rank[i] >= 0 and i not in S]
    if any(rank[o] < rank[i] for i in S for o in out):
        bad.append("topk")
    return bad


def vec_text(v):
    return "[" + ",".join(str(x) for x in v) + "]"


def sql_of(case):
    op = "<->" if case["op"] == "l2" else "<=>"
    s = "SELECT id FROM t ORDER BY v %s '%s'" % (op, vec_text(case["q"]))
    if case["k"] != -1:
        s += " LIMIT %d" % case["k"]
    return s


def setup_of(case):
    return ["CREATE TABLE t (id BIGINT PRIMARY KEY, v VECTOR(%d))" % case["dim"]] + \
           ["INSERT INTO t VALUES (%d, '%s')" % (i + 1, vec_text(r)) for i, r in enumerate(case["rows"])]


def f32(x):
    return struct.unpack("f", struct.pack("f", x))[0]


def trace_check(chk, obs, mine):
    """TLC judges the observations with FailedClauses; must agree with the python mirror"""
    if not obs:
        return 0
    p = os.path.join(vlib.scratch(), "vec_obs.ndjson")
    vlib.write_ndjson(p, obs)
    res = vlib.run_tlc("Trace_Vector.tla", os.path.join(vlib.SPEC, "Trace_Vector.cfg"), workers=4, timeout=1200, env={"OBS": p})
    vlib.tlc_ok(res, "Trace_Vector")
    got = {e["i"]: sorted(e["failed"]) for e in vlib.parse_emitted(res["out"])}
    if len(got) != len(obs):
        raise vlib.ToolError("Trace_Vector judged %d of %d observations:\n%s" % (len(got), len(obs), res["out"][-1500:]))
    for i, m in enumerate(mine):
        if got[i + 1] != sorted(m):
            raise vlib.ToolError("python mirror and Vector!FailedClauses disagree on %s: mirror %s, TLC %s" % (json.dumps(obs[i]), m, got[i + 1]))
    return len(obs)


def pos_class(c):
    if c["pos"] == 0:
        return "whole"
    body = c["n"] - c["n"] % 8
    return "simd_body" if c["pos"] <= body else "tail"


def kernel_part(chk, kcases, selftest):
    ns = {c["n"] for c in kcases}
    if ns != set(range(1, 71)):
        raise vlib.ToolError("kernel cases do not cover every length 1..70: missing %s" % sorted(set(range(1, 71)) - ns))
    for n in range(1, 71):
        for fam in ("spike_zero", "spike_ones", "prefix_ones", "prefix_zero", "pattern_spike"):
            ps = {c["pos"] for c in kcases if c["n"] == n and c["fam"] == fam}
            if ps != set(range(1, n + 1)):
                raise vlib.ToolError("family %s of length %d does not cover every position" % (fam, n))
    classes = {c["cls"] for c in kcases}
    for need in ("zero", "orthogonal", "same_dir", "opposite", "acute", "obtuse"):
        if need not in classes:
            raise vlib.ToolError("no generated kernel case of cosine class " + need)
    if not any(max(map(abs, c["a"] + c["b"])) == 1024 for c in kcases) or not any(min(c["a"] + c["b"]) < 0 for c in kcases):
        raise vlib.ToolError("large / negative components never generated")
    for i, c in enumerate(kcases):
        c["id"] = i
    send = kcases
    if selftest:
        send = [dict(c, l2sq=c["l2sq"] + (1 if c["pos"] == 9 and c["fam"] == "spike_ones" else 0)) for c in kcases]
    inp, outp = vlib.scratch() + "/k_in.ndjson", vlib.scratch() + "/k_out.ndjson"
    vlib.write_ndjson(inp, send)
    vlib.run_vh(["vector-kernels", "--in", inp, "--out", outp, "--jobs", vlib.NCPU], timeout=1500)
    res = vlib.read_ndjson(outp)
    if len(res) != len(kcases):
        raise vlib.ToolError("vector-kernels returned %d of %d cases" % (len(res), len(kcases)))
    calls, avx2, nbad = 0, False, 0
    for r in res:
        if "fatal" in r:
            raise vlib.ToolError("vector-kernels: %s" % r["fatal"])
        calls += r["calls"]
        avx2 = avx2 or r["avx2"]
        c = kcases[r["id"]]
        for b in r["bad"]:
            nbad += 1
            sig = "kernel:%s:%s:len%%8=%d:%s" % (b["kernel"], b["why"], c["n"] % 8, pos_class(c))
            chk.classify(sig, {"kind": "kernel", "case": c, "divergence": b})
    return dict(kernel_cases=len(kcases), kernel_calls=calls, avx2_fma_exercised=avx2, kernel_divergences=nbad,
                kernel_families=sorted({c["fam"] for c in kcases}), cosine_classes=sorted(classes))


def sql_part(chk, tcases, selftest, rng):
    need = {("tabclass", x) for x in ("ties", "zero_rows", "duplicates", "negative", "large", "dim1", "spikes_long")} | \
           {("spec", x) for x in ("exact", "zero_rows", "zero_query")} | {("kclass", x) for x in ("nolimit", "k<n", "k=n", "k>n")} | \
           {("op", "l2"), ("op", "cos")}
    have = {(f, c[f]) for c in tcases for f in ("tabclass", "spec", "kclass", "op")}
    if need - have:
        raise vlib.ToolError("table cases never generated: %s" % sorted(need - have))
    if not any(len(set(r for r in c["rank"] if r >= 0)) < len([r for r in c["rank"] if r >= 0]) for c in tcases):
        raise vlib.ToolError("no generated table has a tie")
    if selftest:   # a deliberately wrong expectation: swap the ranks of the closest and the farthest row of one table
        for c in tcases:
            if c["tab"] == "neg3" and c["op"] == "l2":
                r = c["rank"]
                i, j = r.index(min(r)), r.index(max(r))
                r[i], r[j] = r[j], r[i]
    by_tab = {}
    for c in tcases:
        by_tab.setdefault(c["tab"], []).append(c)
    obs, mine, nq, panics, errors = [], [], 0, 0, 0
    per_sig = {}
    for tab, cs in sorted(by_tab.items()):
        setup = setup_of(cs[0])
        qs = [sql_of(c) for c in cs]
        # the select-list value of the operator, once per (q, op): must order the rows like the ranks do
        probes = sorted({(c["op"], tuple(c["q"])) for c in cs})
        pq = ["SELECT id, v %s '%s' FROM t" % ("<->" if op == "l2" else "<=>", vec_text(q)) for op, q in probes]
        res = oracle.run_sql(setup, qs + pq, batch=40)
        for c, r in zip(cs, res[:len(cs)]):
            nq += 1
            rep = {"kind": "sql", "setup": setup, "sql": sql_of(c), "case": {k: c[k] for k in ("tab", "q", "op", "k", "rank", "want_len", "spec", "reference")}, "observed": r}
            # exact cases: (operator, table class, k class); cases with zero vectors under cosine (the unspecified corner): (operator, spec class)
            base = "sql:%s:%s:%s:exact" % (c["op"], c["tabclass"], c["kclass"]) if c["spec"] == "exact" else "sql:%s:%s" % (c["op"], c["spec"])
            if "panic" in r or "missing" in r:
                panics += 1
                chk.classify(base + ":panic", rep)
                continue
            if "err" in r:
                errors += 1
                chk.classify(base + ":error", rep)
                continue
            R = [row[0] if len(row) == 1 else None for row in r["rows"]]
            R = [x if isinstance(x, int) else -1 for x in R]
            bad = failed_clauses(R, c)
            o = {"tab": c["tab"], "q": c["q"], "op": c["op"], "k": c["k"], "R": R}
            if selftest and c["tab"] == "neg3" and c["op"] == "l2":
                pass    # the expectation was falsified on purpose: TLC (rightly) disagrees, do not cross-check these
            elif bad or rng.random() < 0.25:
                obs.append(o); mine.append(bad)
            if bad:
                sig = base + ":" + bad[0]
                per_sig[sig] = per_sig.get(sig, 0) + 1
                chk.classify(sig, dict(rep, failed=bad, observed_ids=R))
        for (op, q), r in zip(probes, res[len(cs):]):
            nq += 1
            c = next(x for x in cs if x["op"] == op and tuple(x["q"]) == q)
            base = "select_list:%s:%s:%s" % (op, c["tabclass"], c["spec"])
            rep = {"kind": "select_list", "setup": setup, "sql": pq[probes.index((op, q))], "rank": c["rank"], "l2sq": c["l2sq"], "observed": r}
            if "rows" not in r:
                chk.classify(base + (":panic" if "panic" in r or "missing" in r else ":error"), rep)
                continue
            vals = {}
            for row in r["rows"]:
                if len(row) == 2 and isinstance(row[0], int):
                    vals[row[0]] = oracle.norm(row[1])
            rank = {i + 1: x for i, x in enumerate(c["rank"])}
            sp = [i for i in rank if rank[i] >= 0]
            if set(vals) != set(rank) or any(not isinstance(vals[i], float) for i in sp):
                chk.classify(base + ":shape", rep)
                continue
            wrong = None
            for i in sp:
                for j in sp:
                    if rank[i] < rank[j] and not vals[i] <= vals[j]:
                        wrong = "order"
                    if rank[i] == rank[j] and abs(vals[i] - vals[j]) > 1e-6 * max(1.0, abs(vals[i])):
                        wrong = wrong or "tie_value"
            if op == "l2" and not wrong:
                # integer inputs: the exact distance is sqrt(l2sq); f32 or f64 evaluation both round it correctly
                for i in sp:
                    ex = math.sqrt(c["l2sq"][i - 1])
                    if vals[i] != ex and vals[i] != f32(ex):
                        wrong = "value"
            if wrong:
                chk.classify(base + ":" + wrong, rep)
    judged = trace_check(chk, obs, mine)
    return dict(sql_queries=nq, sql_cases=len(tcases), sql_errors=errors, sql_panics=panics, judged_by_tlc=judged,
                sql_divergences=per_sig)


def generate(chk, thorough):
    laws_cfg = _cfg("MC_Vector_laws.cfg", [("LawFull = FALSE", "LawFull = TRUE")]) if thorough else os.path.join(vlib.SPEC, "MC_Vector_laws.cfg")
    k_cfg = _cfg("Gen_Vector_kernels.cfg", [("Rich = FALSE", "Rich = TRUE")]) if thorough else os.path.join(vlib.SPEC, "Gen_Vector_kernels.cfg")
    vlib.scratch()
    w = max(2, min(6, vlib.NCPU // 3))
    with cf.ThreadPoolExecutor(3) as ex:
        f_laws = ex.submit(vlib.run_tlc, "MC_Vector_laws.tla", laws_cfg, w, 2400)
        f_k = ex.submit(vlib.tlc_emit, "MC_Vector.tla", k_cfg, 2400, None, None, None, w)
        f_t = ex.submit(vlib.tlc_emit, "MC_Vector.tla", os.path.join(vlib.SPEC, "Gen_Vector_tables.cfg"), 2400, None, None, None, w)
        laws, gk, gt = f_laws.result(), f_k.result(), f_t.result()
    vlib.tlc_ok(laws, "MC_Vector_laws")
    for r, what in ((laws, "laws"), (gk, "kernel cases"), (gt, "table cases")):
        if r["violated"]:
            raise vlib.ToolError("Vector model (%s) violates its own invariant %s:\n%s" % (what, r["violated"], r["out"][-2500:]))
    return laws, gk["emitted"], gt["emitted"]


def run(chk):
    thorough = chk.tier == "thorough"
    selftest = os.environ.get("VERIF_SELFTEST") == "1"
    rng = random.Random(chk.seed)
    chk.assumptions += ["inputs are integer valued with every partial sum below 2^24: every kernel operation is exact in f32, so exact equality is demanded",
                        "IEEE sqrt and division are correctly rounded (cosine / L2 final steps are mirrored in the harness on TLC's integers)",
                        "SQL tables have no index on the vector column (exact path); vector literals are text '[..]'",
                        "cosine distance involving a zero vector is unspecified: only no panic / rest of the order intact"]
    vlib.build_harness(); chk.mark("build")
    laws, kcases, tcases = generate(chk, thorough); chk.mark("tlc")
    cov = kernel_part(chk, kcases, selftest); chk.mark("kernels")
    cov.update(sql_part(chk, tcases, selftest, rng)); chk.mark("sql")
    nontrivial = sum(1 for c in kcases if c["l2sq"] != 0 and c["fam"] != "zero_zero") + sum(1 for c in tcases if len(set(c["rank"])) > 1)
    cov.update(evaluations=cov["kernel_calls"] + cov["sql_queries"], distinct_nontrivial=nontrivial,
               rule="kernel case with non-zero expected distance; table case whose rows have at least two different ranks",
               law_states=laws["stats"].get("distinct", 0), laws_full_domain=thorough, exhaustive=True,
               tables={t: len([1 for c in tcases if c["tab"] == t]) for t in sorted({c["tab"] for c in tcases})},
               samples=[{k: kcases[i][k] for k in ("fam", "n", "pos", "l2sq", "dot", "na", "nb", "cls")} for i in (0, len(kcases) // 2, len(kcases) - 1)] +
                       [{"sql": sql_of(c), "rank": c["rank"], "reference": c["reference"]} for c in tcases[:: max(1, len(tcases) // 3)][:3]])
    if selftest:
        chk.notes.append("VERIF_SELFTEST=1: expectations were deliberately falsified; violations are expected")
    chk.cov = cov


def replay(chk, path):
    rep = json.load(open(path))["replay"]
    vlib.build_harness()
    if rep["kind"] == "kernel":
        c = dict(rep["case"], id=0)
        inp, outp = vlib.scratch() + "/k1.ndjson", vlib.scratch() + "/k1o.ndjson"
        vlib.write_ndjson(inp, [c])
        vlib.run_vh(["vector-kernels", "--in", inp, "--out", outp, "--jobs", 1])
        r = vlib.read_ndjson(outp)[0]
        print("case: fam=%s n=%d pos=%d  expected l2sq=%d dot=%d na=%d nb=%d cls=%s" % (c["fam"], c["n"], c["pos"], c["l2sq"], c["dot"], c["na"], c["nb"], c["cls"]))
        for b in r["bad"]:
            print("DIVERGENCE", json.dumps(b))
        vlib.cleanup()
        return 1 if r["bad"] else 0
    res = oracle.run_sql(rep["setup"], [rep["sql"]])
    print("\n".join(rep["setup"]))
    print(rep["sql"])
    print("observed:", json.dumps(res[0]))
    if rep["kind"] == "sql":
        c = rep["case"]
        print("ranks by row id (TLC):", c["rank"], " an admissible answer:", c["reference"])
        if "rows" in res[0]:
            full = dict(c, rows=[None] * len(c["rank"]))
            bad = failed_clauses([r[0] for r in res[0]["rows"]], full)
            print("failed clauses:", bad)
            vlib.cleanup()
            return 1 if bad else 0
    vlib.cleanup()
    return 1

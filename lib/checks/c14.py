"""C14 - WHERE filtering and select-list evaluation follow SQL three-valued logic.

The oracle is the TLA+ module ThreeVL (Eval(e,row) in {T,F,N}); TLC enumerates expression trees (MC_ThreeVL: every
atom, depth-2 trees, seeded deep walks), evaluates each on a fixed table holding every combination of the column
domains and prints tree + expected value per row; the laws of the oracle itself (TLP, De Morgan, double negation,
commutativity, IN = OR of =, BETWEEN = two comparisons, LIKE sanity) are TLC invariants of the same runs.
Every tree is rendered to SQL and run on TurDB as `SELECT id FROM t WHERE e`, `SELECT id, e FROM t` and
`SELECT id FROM ti WHERE e` (copy with an index on i). A mismatch is localised to the innermost node whose observed
value is not the oracle's value for the observed values of its children; the signature is
context : operator family : [value classes of the operands] : expected->observed."""
import os, random, json, collections
import vlib, oracle
import threevl as T

LEVEL = "exploration"
MANIFEST = dict(cat=LEVEL, ref="DESIGN.md 3.10, 6 (C14)",
    tech="TLA+ oracle ThreeVL.tla (Eval(e,row) in {T,F,N} for = <> < <= > >= AND OR NOT [NOT] IN, [NOT] BETWEEN, [NOT] LIKE, IS [NOT] NULL over int/float/text/NULL) evaluated by TLC on a fixed 100-row table with every combination of the column domains; MC_ThreeVL enumerates every atom, depth-2 trees and seeded deep walks and checks the oracle's own laws as invariants; each tree is rendered to SQL and run on TurDB in three contexts (WHERE, select list, WHERE on an indexed copy); blame localisation with TLC's per-node values and TLC's truth tables",
    text="for every generated boolean expression (quick: ~230 atoms, ~2 000 depth-2 trees, ~300 deeper trees; thorough: all ~119 000 depth-2 trees and ~2 500 deeper trees to depth 8) the set of rows returned by WHERE e, the per-row TRUE/FALSE/NULL of e in the select list and the rows returned through an index on i equal the values computed by TLC from ThreeVL on all 100 input combinations (NULL, negative, zero, int/float mixes, empty and multi-character text)",
    note="trusts the renderer (fully parenthesised SQL) and the mapping bool/0/1/NULL -> T/F/N; one fixed table; no arithmetic inside comparisons (C20), no subqueries (C18), no text-vs-number comparisons, binary collation, LIKE without ESCAPE; NOT is always rendered as NOT (..)")


def tier_params(chk):
    if chk.tier == "thorough":
        return dict(bfs=dict(Partners=0, CheckLaws="none"), laws=dict(Partners=2, CheckLaws="all"),
                    walk=dict(Walks=400, WalkLen=8, CheckLaws="none"), walk_laws=dict(Walks=25, WalkLen=6, CheckLaws="all"))
    return dict(bfs=dict(Partners=3, CheckLaws="some"), laws=None,
                walk=dict(Walks=60, WalkLen=6, CheckLaws="none"), walk_laws=None)


def generate(chk):
    p = tier_params(chk)
    gen = T.Generated()
    w = 12 if chk.tier == "thorough" else 8
    T.run_gen(gen, "bfs", Mode="bfs", Seed=chk.seed, EmitNodes=False, workers=w, timeout=3000, **p["bfs"])
    if p["laws"]:
        T.run_gen(gen, "laws", Mode="bfs", Seed=chk.seed, EmitNodes=False, workers=w, timeout=3000, **p["laws"])
    T.run_gen(gen, "walk", Mode="walk", Seed=chk.seed, EmitNodes=True, workers=w, timeout=3000, **p["walk"])
    if p["walk_laws"]:
        T.run_gen(gen, "walk-laws", Mode="walk", Seed=chk.seed + 500, EmitNodes=True, workers=w, timeout=3000, **p["walk_laws"])
    return gen


def selftest_perturb(gen):
    """VERIF_SELFTEST=1: feed a deliberately wrong expectation (BETWEEN atoms: first TRUE row becomes FALSE) to show
    that the comparison binds; the run must end in a VIOLATION."""
    n = 0
    for k, c in gen.cases.items():
        if c["e"][0] == "between" and "T" in c["v"]:
            j = c["v"].index("T")
            c["v"] = c["v"][:j] + "F" + c["v"][j + 1:]
            gen.expected[k] = c["v"]
            n += 1
    return n


def nonvacuity(gen):
    cnt = collections.Counter()
    for c in gen.cases.values():
        e, v = c["e"], c["v"]
        ops = {n[0] for n in T.nodes(e)}
        for o in ops:
            cnt["op:" + ("cmp" if o in T.CMP else o)] += 1
        kinds = set()
        for n in T.nodes(e):
            if n[0] in T.CMP:
                ks = tuple(sorted("col" if a[0] == "col" else a[1] for a in n[1:]))
                kinds.add(ks)
        for ks in kinds:
            cnt["cmp:" + "/".join(ks)] += 1
        if "N" in v:
            cnt["has_unknown_rows"] += 1
        if "T" in v and "F" in v and "N" in v:
            cnt["all_three_values"] += 1
        d = T.depth(e)
        cnt["depth:%d" % min(d, 5)] += 1
        if "not" in ops and "N" in v:
            cnt["negation_over_unknown"] += 1
    need = ["op:cmp", "op:and", "op:or", "op:not", "op:in", "op:notin", "op:between", "op:notbetween", "op:like", "op:notlike",
            "op:isnull", "op:isnotnull", "has_unknown_rows", "all_three_values", "negation_over_unknown", "depth:1", "depth:2",
            "depth:3", "depth:4", "cmp:col/int", "cmp:col/float", "cmp:col/text", "cmp:col/null", "cmp:col/col"]
    missing = [k for k in need if cnt[k] == 0]
    if missing:
        raise vlib.ToolError("vacuous generation: no expression of class %s" % missing)
    return dict(cnt)


def judge(chk, gen, ob, cases, contexts):
    """cases: list of {"e","v"}; observes, compares, localises and classifies. -> statistics"""
    ob.ensure((ctx, c["e"]) for c in cases for ctx in contexts)
    failing = []
    stats = collections.Counter()
    for c in cases:
        for ctx in contexts:
            o = ob.get(ctx, c["e"])
            stats["evaluations"] += 1
            if ctx == "where/indexed":
                # judged as its own context only when the indexed copy answers differently from the plain copy
                if o == ob.get("where", c["e"]):
                    continue
                stats["indexed_differs_from_plain"] += 1
            if not T.agrees(ctx, c["v"], o):
                failing.append((ctx, c))
                stats["failing:" + ctx] += 1
    row_of = lambda j: gen.table[j]
    bl = T.Blamer(gen, ob, lambda t: gen.expected[T.key(t)], row_of)
    ob.ensure(x for ctx, c in failing for x in bl.need(ctx, c["e"]))
    per_sig = collections.Counter()
    where_blame = {}
    failing.sort(key=lambda x: x[0] != "where")          # the plain WHERE context first
    for ctx, c in failing:
        sigs = bl.blame(ctx, c["e"])
        if not sigs:
            raise vlib.ToolError("a failing case produced no blame: %s" % T.key(c["e"]))
        if ctx == "where":
            where_blame[T.key(c["e"])] = set(sigs)
        elif ctx == "where/indexed":
            # this context is about the index path answering differently from the scan: what the scan gets wrong in
            # the same way is already judged in context "where"
            same = {"where/indexed" + s[len("where"):] for s in where_blame.get(T.key(c["e"]), ())}
            specific = collections.OrderedDict((s, d) for s, d in sigs.items() if s not in same)
            sigs = specific or sigs
        rep = T.explain(gen, ob, ctx, c["e"], c["v"])
        for sig, d in sigs.items():
            per_sig[sig] += 1
            chk.classify(sig, dict(rep, blamed_node=d.get("node"), blamed_rows=d.get("rows"), all_signatures=list(sigs)))
    stats["failing_cases"] = len(failing)
    return stats, per_sig


def judge_parentheses(chk, gen, ob, cases, stats, per_sig):
    """The same trees written with only the parentheses standard SQL precedence requires (OR < AND < NOT < comparison /
    IN / BETWEEN / LIKE / IS NULL) must be answered like the fully parenthesised text. When they are not, every site
    at which a pair of parentheses was dropped is tested alone (parentheses dropped there only): blamed are the
    sites that change the answer on their own; signature = operator at the site and the class of its operand."""
    ctx = "where/minimal-parens"
    todo = [c for c in cases if T.paren_sites(c["e"])]
    ob.ensure((ctx, c["e"]) for c in todo)
    canon = lambda o: o["err"] if isinstance(o, dict) else o
    bad = [c for c in todo if canon(ob.get(ctx, c["e"])) != canon(ob.get("where", c["e"]))]
    stats["evaluations"] += len(todo)
    stats["minimal_parentheses_differ"] = len(bad)
    jobs = [(c, n, j) for c in bad for n, j in T.paren_sites(c["e"])]
    queries = [ob.ctx["where"] % T.render_min(c["e"], only={(T.key(n), j)}) for c, n, j in jobs]
    res = oracle.run_sql(ob.setup, queries, batch=200) if queries else []
    ob.queries += len(queries)
    culprits = collections.defaultdict(list)
    for (c, n, j), q, r in zip(jobs, queries, res):
        if canon(ob.decode("where", r)) != canon(ob.get("where", c["e"])):
            culprits[T.key(c["e"])].append((n, j, q))
    # no single site explains it: reduce the set of dropped pairs to a minimal one that still changes the answer
    hard = [c for c in bad if not culprits.get(T.key(c["e"]))]
    stats["minimal_parentheses_need_several_sites"] = len(hard)
    for c in hard:
        sites = T.paren_sites(c["e"])
        keep = list(sites)
        for st in sites:
            trial = [x for x in keep if x is not st]
            if not trial:
                continue
            q = ob.ctx["where"] % T.render_min(c["e"], only={(T.key(n), j) for n, j in trial})
            r = oracle.run_sql(ob.setup, [q], batch=1)[0]
            ob.queries += 1
            if canon(ob.decode("where", r)) != canon(ob.get("where", c["e"])):
                keep = trial
        q = ob.ctx["where"] % T.render_min(c["e"], only={(T.key(n), j) for n, j in keep})
        culprits[T.key(c["e"])] = [(n, j, q) for n, j in keep]
    for c in bad:
        def cl(k):
            while k[0] == "not":        # NOT NOT x: what matters is what the chain of NOTs finally applies to
                k = k[1]
            return k[0] if k[0] in ("and", "or") else "predicate"
        sigs = collections.OrderedDict()
        for n, j, q in culprits[T.key(c["e"])]:
            sigs.setdefault("%s:%s:[%s]:answer_differs_from_fully_parenthesised" % (ctx, T.family(n), cl(n[j])), q)
        for sig, q in sigs.items():
            per_sig[sig] += 1
            chk.classify(sig, {"context": ctx, "tree": c["e"], "expected": c["v"], "sql": ob.sql(ctx, c["e"]),
                               "sql_fully_parenthesised": ob.sql("where", c["e"]), "sql_minimal_set_of_dropped_pairs": q,
                               "observed_minimal": canon(ob.get(ctx, c["e"])), "observed_full": canon(ob.get("where", c["e"]))})


def run(chk):
    chk.assumptions += ["expression grammar of MC_ThreeVL (no arithmetic, no subqueries, comparable operand kinds only)",
                        "fixed table: i in {NULL,-1,0,1,2} x f in {NULL,0.5,1.0,2.0} x s in {NULL,'','a','b','ab'}",
                        "TurDB's select-list result is mapped true/1 -> T, false/0 -> F, NULL -> N; anything else is a divergence"]
    vlib.build_harness(); chk.mark("build")
    gen = generate(chk); chk.mark("tlc")
    classes = nonvacuity(gen)
    if os.environ.get("VERIF_SELFTEST") == "1":
        chk.notes.append("SELFTEST: %d BETWEEN expectations deliberately falsified" % selftest_perturb(gen))
    setup = T.setup_sql(gen)
    T.check_tables(gen, setup)
    contexts = dict(T.Observer.CONTEXTS)
    contexts["where/minimal-parens"] = contexts["where"]
    ob = T.Observer(setup, len(gen.table), contexts=contexts, renderers={"where/minimal-parens": T.render_min})
    cases = list(gen.cases.values())
    stats, per_sig = judge(chk, gen, ob, cases, ["where", "select", "where/indexed"])
    judge_parentheses(chk, gen, ob, cases, stats, per_sig); chk.mark("replay")
    rng = random.Random(chk.seed)
    nontrivial = sum(1 for c in cases if len(set(c["v"])) >= 2)
    samples = []
    for c in rng.sample(cases, min(3, len(cases))):
        samples.append({"sql_where": ob.sql("where", c["e"]), "expected_true_ids": [j + 1 for j, x in enumerate(c["v"]) if x == "T"][:20],
                        "expected_values": c["v"], "observed_where": ob.get("where", c["e"]) if not isinstance(ob.get("where", c["e"]), dict) else ob.get("where", c["e"])["err"],
                        "observed_select": ob.get("select", c["e"]) if not isinstance(ob.get("select", c["e"]), dict) else ob.get("select", c["e"])["err"]})
    chk.cov = {"evaluations": int(stats["evaluations"]), "distinct_nontrivial": nontrivial,
               "rule": "distinct expression trees whose expected value takes at least two of T/F/N over the 100 rows",
               "samples": samples, "expressions": len(cases), "rows_per_expression": len(gen.table),
               "queries_run": ob.queries, "classes": classes, "tlc_runs": gen.stats,
               "failing_cases": int(stats["failing_cases"]), "failing_by_context": {k[8:]: v for k, v in stats.items() if k.startswith("failing:")},
               "indexed_differs_from_plain": int(stats["indexed_differs_from_plain"]),
               "minimal_parentheses_differ": int(stats["minimal_parentheses_differ"]),
               "signatures": dict(per_sig), "exhaustive": False,
               "exhaustive_depth2": chk.tier == "thorough"}
    like_family(chk)


def like_family(chk):
    """LikeFamily.tla: every pattern over {a, b, %, _} up to length 4 against every text over {a, b} up to length 5
    (backtracking after %, overlapping literal segments, _ next to %): WHERE s LIKE p, WHERE s NOT LIKE p and the
    select-list value, compared with the spec's LikeMatch."""
    import re
    gen = vlib.tlc_emit("MC_LikeFamily.tla", os.path.join(vlib.SPEC, "Gen_LikeFamily.cfg"), timeout=600, workers=1)
    if gen["violated"]:
        raise vlib.ToolError("LikeFamily.tla violates its own laws: %s" % gen["violated"])
    pats = gen["emitted"]
    texts = [""] + ["".join(t) for n in range(1, 6) for t in __import__("itertools").product("ab", repeat=n)]
    setup = ["CREATE TABLE lk (id INT PRIMARY KEY, s TEXT)"]
    for i in range(0, len(texts), 32):
        setup.append("INSERT INTO lk VALUES " + ", ".join("(%d, '%s')" % (j + 1, texts[j]) for j in range(i, min(i + 32, len(texts)))))
    rng = random.Random(chk.seed)
    if chk.tier != "thorough":
        # every pattern of length <= 3 and a seeded half of the length-4 ones
        pats = [c for c in pats if len(c["p"]) <= 3 or rng.random() < 0.5]
    qs = []
    for c in pats:
        qs.append("SELECT s FROM lk WHERE s LIKE '%s'" % c["p"])
        qs.append("SELECT s FROM lk WHERE s NOT LIKE '%s'" % c["p"])
        qs.append("SELECT s, s LIKE '%s' FROM lk" % c["p"])
    res = oracle.run_sql(setup, qs, batch=120)
    bad = 0
    for i, c in enumerate(pats):
        yes = set(c["yes"])
        shape = re.sub("[ab]", "x", c["p"])
        for k, (ctx, want) in enumerate((("where", yes), ("where_not", set(texts) - yes), ("select", yes))):
            r = res[3 * i + k]
            if "rows" not in r:
                got = None
            elif ctx == "select":
                got = {row[0] for row in r["rows"] if row[1] == {"bool": True} or row[1] is True or row[1] == 1}
            else:
                got = {row[0] for row in r["rows"]}
            if got != want:
                bad += 1
                chk.classify("like_family:%s:%s" % (ctx, shape), {"sql": qs[3 * i + k], "pattern": c["p"],
                             "missing": sorted(want - got)[:6] if got is not None else None, "extra": sorted(got - want)[:6] if got is not None else None,
                             "error": None if got is not None else json.dumps(r)[:200]})
    chk.cov["like_family"] = {"patterns": len(pats), "texts": len(texts), "queries": len(qs), "divergent_queries": bad}
    chk.cov["evaluations"] = chk.cov.get("evaluations", 0) + len(qs)
    chk.mark("like_family")


def replay(chk, path):
    d = json.load(open(path))
    r = d["replay"]
    vlib.build_harness()
    gen = T.Generated()
    T.run_gen(gen, "tables", Mode="opq", Seed=1, EmitNodes=False, workers=2, timeout=600)   # tables + truth tables only
    setup = T.setup_sql(gen)
    contexts = dict(T.Observer.CONTEXTS)
    contexts["where/minimal-parens"] = contexts["where"]
    ob = T.Observer(setup, len(gen.table), contexts=contexts, renderers={"where/minimal-parens": T.render_min})
    tree, ctx = r["tree"], r["context"]
    ob.ensure([(ctx, tree)])
    o = ob.get(ctx, tree)
    print("query:    %s" % ob.sql(ctx, tree))
    print("expected: %s   (T/F/N per id 1..%d, from TLC at the time of the run)" % (r["expected"], len(gen.table)))
    print("observed: %s" % (o if not isinstance(o, dict) else json.dumps(o)))
    ok = T.agrees(ctx, r["expected"], o)
    print("signature of the stored divergence: %s (blamed node %s)" % (d["signature"], r.get("blamed_node")))
    print("DIVERGENCE reproduced" if not ok else "no divergence on the current tree")
    vlib.cleanup()
    return 1 if not ok else 0

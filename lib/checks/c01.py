"""C01 - acknowledged writes survive a crash (crash-point enumeration driven by Relational.tla workloads; lib/crashrun.py).
Every view of the reopened database must show the effects of every acknowledged statement / transaction."""
import crashrun
LEVEL = "fault_enumeration"
MANIFEST = dict(cat=LEVEL, ref="DESIGN.md 3.2, 6 (C01)",
    tech="TLA+ reference spec Relational.tla generates workloads (TLC -simulate) and the admissible recovered states; every hook event of the real execution is a crash point materialised in two crash models (kill / power loss via a sync shadow), reopened and compared with the model",
    text="for each TLC-generated workload (DML, transactions, both checkpoint implementations, close/reopen; WAL on, synchronous=FULL) a snapshot is taken at EVERY page mutation, WAL frame write, fsync/msync, truncation and statement boundary, in the process-kill model and in the power-loss model; each snapshot is reopened and every view (scan, COUNT(*), primary-key, unique and secondary index lookups) must show all acknowledged effects (equal the Relational state after the acknowledged units, with or without the in-flight unit)",
    note="assumptions A-FS / A-KILL (DESIGN.md 2.3): no torn pages, directory operations durable in order; crash points only where hooks are; bounded Relational domain; open findings by signature (crash model : missing view group : phase)")


def run(chk):
    crashrun.evaluate(chk, "C01")


def replay(chk, path):
    return crashrun.replay_file(chk, path, "C01")

"""C01 - acknowledged writes survive a crash (crash-point enumeration driven by Relational.tla workloads; lib/crashrun.py).
Every view of the reopened database must show the effects of every acknowledged statement / transaction."""
import crashrun
LEVEL = "fault_enumeration"
MANIFEST = dict(cat=LEVEL, ref="DESIGN.md 3.2, 6 (C01)",
    tech="TLA+ protocol spec Durability.tla model-checked by TLC (crash after every action, two crash models) and bound to the code by trace validation of hook / system-call events; TLA+ reference spec Relational.tla generates workloads (TLC -simulate) and the admissible recovered states; every hook event of the real execution is a crash point materialised in two crash models (kill / power loss via a sync shadow), reopened and compared with the model",
    text="for each TLC-generated workload (DML, transactions, both checkpoint implementations, close/reopen; WAL on, synchronous=FULL) a snapshot is taken at EVERY page mutation, WAL frame write, fsync/msync, truncation and statement boundary, in the process-kill model and in the power-loss model; each snapshot is reopened and every view (scan, COUNT(*), primary-key, unique and secondary index lookups) must show all acknowledged effects (equal the Relational state after the acknowledged units, with or without the in-flight unit)",
    note="assumptions A-FS / A-KILL (DESIGN.md 2.3): no torn pages, directory operations durable in order; crash points only where hooks are; bounded Relational domain; open findings by signature (crash model : missing view group : phase)")


def model_check(chk):
    """(A) the page-level protocol Durability.tla: a crash after every action, both crash models; the witness
    configurations (header page, bypass files, no fsync) must violate their invariant (non-vacuity)."""
    import os, vlib
    cfg = vlib.scratch() + "/MC_Durability.cfg"
    base = open(os.path.join(vlib.SPEC, "MC_Durability.cfg")).read()
    if chk.tier != "thorough":
        base = base.replace("MaxStmts = 3", "MaxStmts = 2").replace("MaxMut = 5", "MaxMut = 4")
    open(cfg, "w").write(base)
    mc = vlib.run_tlc("MC_Durability.tla", cfg, coverage=True, timeout=1500)
    vlib.tlc_ok(mc, "MC_Durability")
    if mc["violated"]:
        raise vlib.ToolError("Durability.tla violates %s: the protocol model contradicts the property" % mc["violated"])
    wit = {}
    for name, inv in (("header", "C01_power_header"), ("bypass", "C01_power_bypass"), ("nosync", "C01_power_logged")):
        w = vlib.run_tlc("MC_Durability.tla", os.path.join(vlib.SPEC, "MC_Durability_witness_%s.cfg" % name), timeout=600)
        vlib.tlc_ok(w, "MC_Durability_witness_" + name)
        wit[name] = inv in w["violated"]
        if not wit[name]:
            raise vlib.ToolError("witness configuration %s no longer violates %s" % (name, inv))
    return {"states": mc["stats"].get("distinct"), "transitions": mc["stats"].get("generated"),
            "actions_covered": {a: t for a, (d, t) in mc["coverage"].items()}, "witnesses_violated": wit,
            "invariants": ["C01_kill", "C01_power_logged", "NoRegressionOfAcked"]}


def run(chk):
    import vlib
    vlib.build_harness()
    mc = model_check(chk); chk.mark("tlc_mc")
    crashrun.evaluate(chk, "C01")
    chk.cov["protocol_model_check"] = mc


def replay(chk, path):
    return crashrun.replay_file(chk, path, "C01")

"""C21 - schema changes behave as declared and persist.

RelDDL.tla is the reference: catalog (schemas, tables, ordered columns with NOT NULL / DEFAULT / PRIMARY KEY / UNIQUE,
named indexes) + rows; CREATE/DROP TABLE, INDEX, SCHEMA, TRUNCATE, ALTER TABLE ADD / DROP / RENAME COLUMN as actions
with result and complete post-state, interleaved with INSERT / UPDATE / DELETE on the affected tables and reopen.
 (1) TLC checks the reference against itself (well-formed catalog, constraints hold, ALTER preserves the other columns'
     values, an erring statement changes nothing).
 (2) TLC enumerates every behaviour of two statements from a populated table and of three statements from an empty
     database, and walks at random (two tables of the same name in two schemas, DROP-then-CREATE of the same name with
     another declaration, unique index on violating data, DROP of first / middle / last / indexed / constrained column,
     RENAME of constrained / indexed columns and onto an existing name, reopen anywhere).
 (3) every behaviour is executed on TurDB; the prefix must be a behaviour that itself conformed completely; after the
     last step the full observation must equal the model: result, SELECT * (column names and rows) of every table,
     COUNT(*), lookups through every column (index paths), the catalog as the shipped CLI lists it (.schema: order,
     NOT NULL, PRIMARY KEY, UNIQUE, DEFAULT; .indexes), existence of the schema.
A deviation the spec names (KF_add_default_reads_null) is switched on in the model when it is listed as an open finding,
so that histories continue behind it.
"""
import json, os, random
import vlib, reldl, relddl

LEVEL = "model_checking"
MANIFEST = dict(cat=LEVEL, ref="DESIGN.md 6 (C21), notes/C21.md",
    tech="TLA+ reference RelDDL.tla (catalog + rows, DDL and DML as actions with result and post-state, named deviation "
         "switch) model-checked by TLC; TLC-enumerated behaviours and random walks replayed on TurDB with full observation "
         "(SELECT *, COUNT, lookups per column, CLI catalog listing, schema probe) compared with the model",
    text="(plus WideTable.tla with WithDDL: CREATE INDEX / DROP INDEX on a table prefilled with 600 rows, every index probed against the scan and the model after every step) all 2-statement behaviours from a populated 4-column table and all 3-statement behaviours from an empty database "
         "(quick: sampled by class) plus random walks of DDL/DML/reopen over two same-named tables in two schemas leave "
         "TurDB in the state the reference predicts, except for the listed findings",
    note="INT columns only; one index name; DROP SCHEMA only of an empty schema; RENAME TABLE, IF [NOT] EXISTS, composite "
         "and expression indexes are not modelled; renderer lib/relddl.py, the CLI catalog printer and rel-run are trusted")

DEVIATIONS = ["KF_add_default_reads_null"]


def hkey(h, start):
    return json.dumps([start] + [[s["op"], s["tk"]] for s in h], sort_keys=True)


# which history events of the addressed table can explain that a statement the reference refuses for reason `why` is accepted
RELEVANT_HX = {"unique_col": ("renamed_uq",), "pk_dup": ("renamed_pk",), "not_null": ("renamed_nn",), "pk_null": ("renamed_pk",),
               "unique_index": ("renamed_indexed", "index_created", "index_dropped")}


def signature(st, d):
    """spec-defined signature of one divergence of the last step:
         <kind>[:<detail>]:<statement>:<the spec's feature values that matter for this kind>
    Features come from RelDDL.tla (op.feat, op.cls, why, hx); this function only selects which of them are part of the
    name, so that one defect has one name whatever else happened in the history."""
    op = st["op"]
    k = op["k"]
    kind = d["kind"]
    feat = set(op.get("feat", []))
    cls = set(op.get("cls", []))
    hx = set(st.get("hx", [])) - {"created"}
    parts = [kind]
    where_tbl = sorted(feat & {"in_s1"})            # statements on the table in the non-default schema
    if kind == "accepts_invalid":
        why = st.get("why", "?")
        parts += [k, "why=" + why]
        if k in ("insert", "update"):
            rel = [e for e in RELEVANT_HX.get(why, ()) if e in hx]
            parts.append("after=" + ("+".join(rel) if rel else "+".join(sorted(hx)) or "-"))
    elif kind == "rejects_valid":
        parts.append(k)
        if k == "reopen":
            parts += sorted(feat)
        elif k in ("insert", "update", "delete"):
            parts.append("after=" + ("+".join(sorted(hx)) or "-"))
            parts += where_tbl
        else:
            parts += sorted(feat & {"in_s1", "recreate", "default"})
            if k == "create_index" and "dropped_indexed" in hx:
                parts.append("after=dropped_indexed")     # an indexed column was dropped from this table before
    elif kind == "panic":
        parts += [k] + sorted(feat - {"has_rows"})
    else:
        detail = d.get("shape") if kind == "rows" else "+".join(d.get("flags", [])) if kind == "catalog" else None
        if detail:
            parts.append(detail)
        parts.append(k)
        on = "target" if d.get("tk") in (None, st.get("tk")) else "other_table"
        if k == "alter_drop":
            if "tomb" in feat and kind in ("rows", "count", "lookup"):
                parts.append("table_had_deleted_rows")
            else:
                parts += [op.get("where", ""), "col=" + ("+".join(sorted(cls)) or "plain")]
        elif k == "alter_rename":
            keep = cls & {"indexed"} if kind in ("index_list", "lookup") else cls
            parts.append("col=" + ("+".join(sorted(keep)) or "plain"))
        elif k == "create_index":
            if "name_taken" in feat:
                parts.append("name_taken")                 # the refused statement is the story, whatever else holds
            else:
                parts += sorted(feat & {"data_violates", "recreate"})
                if "tomb" in feat and kind in ("rows", "count", "lookup"):
                    parts.append("table_had_deleted_rows")
            if st.get("why") not in ("-", None):
                parts.append("why=" + st["why"])
        elif k == "alter_add":
            parts += sorted(feat & {"default", "has_rows"})
        elif k in ("create_table", "drop_table", "truncate", "drop_index"):
            parts += sorted(feat & {"recreate"})
            if st.get("why") not in ("-", None):
                parts.append("why=" + st["why"])
        elif k == "reopen":
            parts += sorted(feat)
            parts.append("after=" + ("+".join(sorted(hx - {"reopened", "tomb"})) or "-"))
        elif k in ("insert", "update", "delete"):
            if k == "insert":
                parts.append("form=" + op["form"])
            parts.append("after=" + ("+".join(sorted(hx)) or "-"))
        parts += where_tbl
        if on != "target":
            parts.append("on=other_table")
    return ":".join(p for p in parts if p)


def selftest(meta):
    """binding test (VERIF_SELFTEST=1): ONE expectation is falsified - in the first successful single RENAME COLUMN from the
    populated table the model's post-state gets another value in the renamed column - the comparison must report it."""
    import copy
    for cid, (h, start, lay) in meta.items():
        st = h[-1]
        if len(h) == 1 and start == "t2" and st["op"]["k"] == "alter_rename" and st["ok"] and st["tk"] == "root.t":
            h2 = copy.deepcopy(h)
            t = h2[-1]["cont"]["tabs"]["root.t"]
            p = [c["cid"] for c in t["cols"]].index(st["op"]["cid"])
            t["rows"][0][p] = 31337
            meta[cid] = (h2, start, lay)
            print("SELFTEST: the model now claims the renamed column holds 31337 in: %s" % relddl.describe(h, start))
            return
    raise vlib.ToolError("selftest: no suitable behaviour")


def evaluate(chk, items):
    """items: list of (hist, start). -> stats"""
    cases, meta = [], {}
    for h, start in items:
        c, lay = relddl.render(len(cases), h, start=start)
        meta[len(cases)] = (h, start, lay)
        cases.append(c)
    res = reldl.run_cases(cases)
    chk.mark("replay")
    if os.environ.get("VERIF_SELFTEST") == "1":
        selftest(meta)
    st = {"behaviours": len(cases), "judged": 0, "conforming": 0, "abandoned_prefix_diverged": 0, "prefix_not_judged_separately": 0,
          "divergences": {}, "classes": {}, "named_deviation_hits": {}, "follows_reference_although_deviation_listed": 0}
    verdict = {}
    full = {}
    for cid, (h, start, lay) in meta.items():
        r = res.get(cid, [])
        bad = relddl.prefix_ok(h, lay, r, len(h) - 1)
        if bad:
            full[cid] = ("prefix", bad)
            continue
        divs, matched = relddl.compare_last(h, lay, r)
        full[cid] = ("last", divs, matched)
        k = hkey(h, start)
        follows = (not divs) and matched == "cont"
        verdict[k] = verdict.get(k, True) and follows
    for cid, (h, start, lay) in meta.items():
        f = full[cid]
        state = "ok"
        for n in range(1, len(h)):
            v = verdict.get(hkey(h[:n], start))
            if v is False:
                state = "diverged"
                break
            if v is None:
                state = "unknown"
        if f[0] == "prefix" or state == "diverged":
            st["abandoned_prefix_diverged"] += 1
            continue
        if state == "unknown":
            st["prefix_not_judged_separately"] += 1
        _, divs, matched = f
        last = h[-1]
        st["judged"] += 1
        ck = "%s|%s|%s|%s" % (last["op"]["k"], "ok" if last["ok"] else "err", ",".join(sorted(last["op"].get("feat", []))), "+".join(sorted(last["op"].get("cls", []))))
        st["classes"][ck] = st["classes"].get(ck, 0) + 1
        rep = {"sql": relddl.describe(h, start), "hist": h, "start": start}
        if not divs:
            if matched == "cont" and last["dev"] != "-":
                s = last["dev"]                      # the named deviation, as predicted
                st["named_deviation_hits"][s] = st["named_deviation_hits"].get(s, 0) + 1
                st["divergences"][s] = st["divergences"].get(s, 0) + 1
                chk.classify(s, dict(rep, divergence="observed = reference with deviation %s" % s))
            elif matched == "ref":
                st["follows_reference_although_deviation_listed"] += 1
                st["conforming"] += 1
            elif matched not in ("cont", "ref"):
                s = matched                          # a named deviation that is not switched on
                st["divergences"][s] = st["divergences"].get(s, 0) + 1
                chk.classify(s, dict(rep, divergence="observed = reference with deviation %s" % s))
            else:
                st["conforming"] += 1
            continue
        seen = set()
        for d in divs:
            s = signature(last, d)
            if s in seen:
                continue
            seen.add(s)
            st["divergences"][s] = st["divergences"].get(s, 0) + 1
            chk.classify(s, dict(rep, divergence=d, all_divergences=divs[:6]))
    return st


def run(chk):
    thorough = chk.tier == "thorough"
    rng = random.Random(chk.seed)
    dev = [d for d in DEVIATIONS if chk.findings.known(d)]
    devset = "{" + ",".join('"%s"' % d for d in dev) + "}"
    chk.assumptions += ["INT columns; values are distinct per column identity so that shifted / swapped columns show",
                        "a behaviour is judged only if each of its proper prefixes was itself judged completely conforming in this run",
                        "named deviations switched on in the model (listed as open findings): %s" % (dev or "none"),
                        "DROP SCHEMA only of an empty schema; RENAME TABLE / IF EXISTS forms not modelled"]
    vlib.build_harness(); chk.mark("build")
    mc = vlib.run_tlc("MC_RelDDL.tla", reldl.cfg_with("MC_RelDDL.cfg", {"MaxOps": 3 if thorough else 2}, "mc"), workers=8, timeout=2400)
    vlib.tlc_ok(mc, "MC_RelDDL")
    if mc["violated"]:
        raise vlib.ToolError("RelDDL.tla violates its own meta-property %s" % mc["violated"])
    chk.mark("tlc_mc")
    items = []
    # one BFS from both initial databases: two statements from the populated table, three from the empty database
    g, s1 = reldl.bfs("MC_RelDDL.tla", "Gen_RelDDL.cfg", {"MaxOps": 2, "Dev": devset}, timeout=2400)
    def cls(e):
        return (e["start"],) + tuple((s["op"]["k"], s["tk"], s["ok"], s.get("why"), tuple(sorted(s["op"].get("feat", []))), tuple(sorted(s["op"].get("cls", []))), s["op"].get("form")) for s in e["hist"])
    deepest = {"t2": 2, "empty": 3}
    short = [e for e in g if len(e["hist"]) < deepest[e["start"]]]
    deep = [e for e in g if len(e["hist"]) == deepest[e["start"]]]
    picked = short + (deep if thorough else vlib.stratified_sample(deep, cls, 2600, rng))
    items += [(e["hist"], e["start"]) for e in picked]
    wn, wd = (400, 8) if thorough else (60, 6)
    ws = reldl.walks("MC_RelDDL.tla", "Gen_RelDDL.cfg", {"MaxOps": wd, "Dev": devset}, wn, wd + 1, chk.seed)
    for w in ws:
        for k in range(1, len(w["hist"]) + 1):
            items.append((w["hist"][:k], w["start"]))
    nw = len(ws)
    ng3 = 0
    if thorough:
        g3, s3 = reldl.bfs("MC_RelDDL.tla", "Gen_RelDDL.cfg", {"MaxOps": 3, "Dev": devset, "WithS1": False, "Starts": '{"t2"}'}, timeout=3000)
        ng3 = len(g3)
        items += [(e["hist"], e["start"]) for e in g3]
    chk.mark("tlc_gen")
    # de-duplicate
    seen, uniq = set(), []
    for h, start in items:
        k = hkey(h, start)
        if k not in seen:
            seen.add(k)
            uniq.append((h, start))
    st = evaluate(chk, uniq)
    need = ["create_table|ok", "drop_table|ok", "create_index|ok", "create_index|err", "drop_index|ok", "create_schema|ok", "drop_schema|ok",
            "truncate|ok", "alter_add|ok", "alter_drop|ok", "alter_rename|ok", "reopen|ok", "insert|ok", "insert|err"]
    have = {}
    for k, n in st["classes"].items():
        kk = "|".join(k.split("|")[:2])
        have[kk] = have.get(kk, 0) + n
    missing = [n for n in need if not have.get(n)]
    if missing:
        raise vlib.ToolError("statement classes never judged (vacuous): %s" % missing)
    if st["judged"] < 0.2 * st["behaviours"]:
        raise vlib.ToolError("only %d of %d behaviours could be judged" % (st["judged"], st["behaviours"]))
    if st["follows_reference_although_deviation_listed"]:
        chk.stale.append("the code follows the reference where the deviation %s is listed as an open finding (%d behaviours): move the finding to `fixed`" % (dev, st["follows_reference_although_deviation_listed"]))
    chk.cov = {"states": mc["stats"].get("distinct", 0), "transitions": mc["stats"].get("generated", 0),
               "traces_validated_against_impl": st["judged"], "behaviours_generated": {"bfs_two_statements_from_populated_table_three_from_empty_db": len(g), "walks": nw, "bfs_three_statements_one_schema": ng3},
               "behaviours_replayed": st["behaviours"], "judged": st["judged"], "conforming": st["conforming"],
               "abandoned_prefix_diverged": st["abandoned_prefix_diverged"], "prefix_not_judged_separately": st["prefix_not_judged_separately"],
               "deviations_switched_on": dev, "named_deviation_hits": st["named_deviation_hits"],
               "divergence_signatures": st["divergences"], "classes_judged": len(st["classes"]), "judged_by_statement": have, "exhaustive": False,
               "samples": [relddl.describe(h, s) for h, s in uniq[:: max(1, len(uniq) // 3)][:3]]}
    wide_ddl_phase(chk)


def wide_ddl_phase(chk):
    """CREATE INDEX / DROP INDEX on a table of several hundred rows (WideTable.tla with WithDDL = TRUE): the statement that
    follows the DDL must already see its whole effect - the new index answers for every row that existed before it, also
    once the index B-tree has more than one leaf, and after a reopen"""
    import widetable
    thorough = chk.tier == "thorough"
    dh = widetable.walks(chk, 80 if thorough else 20, 16 if thorough else 10, n=700, ddl=True, cap=600 if thorough else 60)
    probs, st = widetable.judge(dh, widetable.execute(dh, n=700, ddl=True), n=700)
    late = sum(1 for h in dh for x in h if x["op"]["k"] == "create_index" and x["probes"]["count"] >= 100)
    if not late:
        raise vlib.ToolError("no WideTable walk created an index on a table of 100 rows or more")
    sigs = {}
    for h, kind, d in probs:
        ddl_before = [x["op"]["k"] for x in h if x["op"]["k"] in ("create_index", "drop_index")]
        if not ddl_before:
            continue       # nothing DDL has happened yet: C05 / C10 territory
        if kind == "model" and (h[-1]["op"]["k"] not in ("create_index", "drop_index") or d["what"] == "predicate_over_out_of_line_value"):
            continue       # a DML statement's own result, expressions over out-of-line values: C05
        sig = "wide_ddl:%s:%s:after_%s" % (d["what"], h[-1]["op"]["k"], ddl_before[-1])
        sigs[sig] = sigs.get(sig, 0) + 1
        chk.classify(sig, {"behaviour": widetable.describe(h), "wide_hist": h, "wide_ddl": True, "detail": d})
    if st["steps"] and st["abandoned"] > 0.5 * st["steps"] and not chk.violations:       # (an unlisted divergence explains the loss itself)
        raise vlib.ToolError("more than half of the WideTable DDL steps were abandoned")
    chk.cov["wide_ddl"] = dict(st, walks=len(dh), indexes_created_on_100_rows_or_more=late, signatures=sigs, sample=widetable.describe(dh[0]))
    chk.mark("wide_ddl")


def replay(chk, path):
    rep = json.load(open(path))["replay"]
    if "wide_hist" in rep:
        import widetable
        vlib.build_harness()
        h = rep["wide_hist"]
        probs, st = widetable.judge([h], widetable.execute([h], n=700, ddl=True), n=700)
        print("replayed:", widetable.describe(h))
        for hp, k, d in probs:
            print("  %s after step %d: %s" % (k, len(hp), json.dumps(d)[:300]))
            ddl_before = [x["op"]["k"] for x in hp if x["op"]["k"] in ("create_index", "drop_index")]
            if ddl_before and not (k == "model" and (hp[-1]["op"]["k"] not in ("create_index", "drop_index") or d["what"] == "predicate_over_out_of_line_value")):
                chk.classify("wide_ddl:%s:%s:after_%s" % (d["what"], hp[-1]["op"]["k"], ddl_before[-1]), {"behaviour": widetable.describe(hp), "wide_hist": hp, "wide_ddl": True, "detail": d})
        chk.cov = {"states": 1, "transitions": len(h), "traces_validated_against_impl": 1, "samples": [widetable.describe(h)], "replay_of": path}
        return chk.finish()
    vlib.build_harness()
    h, start = rep["hist"], rep.get("start", "t2")
    st = evaluate(chk, [(h[:k], start) for k in range(1, len(h) + 1)])
    print("replayed: %s" % rep["sql"])
    print("  divergences: %s" % json.dumps(st["divergences"]))
    chk.cov = {"states": 1, "transitions": len(h), "traces_validated_against_impl": 1, "samples": [rep["sql"]], "replay_of": path}
    return chk.finish()

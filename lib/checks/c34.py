"""C34 - the freelist conserves pages.

(A) TLC on Freelist.tla (trunk-shaped implementation model vs abstract free set, TrunkMax=2 so that several trunks are
    crossed): Conservation, CountIsAllocatable, NoDoubleAlloc; witness run of the pinned allocate() must still fail.
(B) behaviours replayed on the real Freelist: every single-operation history TLC explores (real trunk size) and every
    bulk history of FreelistBulk.tla (runs of 1, 2, 4089..4092 operations: 0-3 trunk boundaries crossed both ways).
"""
import os, random, json
import vlib

LEVEL = "model_checking"

PROPERTY_KINDS = {"allocated_page_was_not_free", "none_while_pages_free", "free_count_wrong", "free_pages_not_allocatable", "panic",
                  "allocate_error", "release_error"}


def run(chk):
    thorough = chk.tier == "thorough"
    chk.assumptions += ["sparse in-memory Storage implementation in the harness; page 0 holds non-zero filler",
                        "pages are released at most once while free (client contract)"]
    vlib.build_harness(); chk.mark("build")
    mc = vlib.run_tlc("MC_Freelist.tla", os.path.join(vlib.SPEC, "MC_Freelist.cfg"), coverage=True, timeout=900)
    vlib.tlc_ok(mc, "MC_Freelist")
    if mc["violated"]:
        raise vlib.ToolError("Freelist model (repaired) violates %s" % mc["violated"])
    pin = vlib.run_tlc("MC_Freelist.tla", os.path.join(vlib.SPEC, "MC_Freelist_pinned.cfg"), timeout=300)
    vlib.tlc_ok(pin, "MC_Freelist_pinned")
    if "CountIsAllocatable" not in pin["violated"]:
        raise vlib.ToolError("model of the pinned allocate() no longer exhibits the lost-trunk counterexample")
    chk.mark("tlc_mc")
    single = vlib.tlc_emit("MC_Freelist.tla", os.path.join(vlib.SPEC, "Gen_Freelist.cfg"), timeout=900)["emitted"]
    bcfg = vlib.scratch() + "/GenBulk.cfg"
    open(bcfg, "w").write(open(os.path.join(vlib.SPEC, "Gen_FreelistBulk.cfg")).read().replace("MaxOps = 4", "MaxOps = %d" % (7 if thorough else 6)))
    bulk = vlib.tlc_emit("MC_FreelistBulk.tla", bcfg, timeout=900)["emitted"]
    chk.mark("tlc_gen")
    rng = random.Random(chk.seed)
    nsingle, nbulk = len(single), len(bulk)
    if not thorough:
        single = vlib.stratified_sample(single, lambda c: (c["hist"][-1]["op"], c["hist"][-1]["res"] == 0, len(c["hist"])), 6000, rng)
        bulk = vlib.stratified_sample(bulk, lambda c: (c["hist"][-1]["op"], c["hist"][-1]["n"], len(c["hist"])), 1200, rng)
    cases = single + bulk
    inp, outp = vlib.scratch() + "/fl_cases.ndjson", vlib.scratch() + "/fl_res.ndjson"
    vlib.write_ndjson(inp, cases)
    vlib.run_vh(["freelist-replay", "--in", inp, "--out", outp, "--jobs", vlib.NCPU], timeout=3000)
    res = vlib.read_ndjson(outp); chk.mark("replay")
    ok, kinds, events = 0, {}, 0
    for r in res:
        events += r.get("events", 0)
        if r["kind"] == "ok":
            ok += 1
            continue
        for pr in r["problems"]:
            kinds[pr["kind"]] = kinds.get(pr["kind"], 0) + 1
            ops = [(o["op"], o.get("n", o.get("p"))) for o in r["hist"]]
            rep = {"history": r["hist"], "problem": pr}
            if pr["kind"] in PROPERTY_KINDS:
                bulkish = "bulk" if "n" in r["hist"][0] else "single"
                chk.violation("%s:%s" % (pr["kind"], bulkish), rep)
            else:
                chk.stale.append("%s in %s: %s" % (pr["kind"], json.dumps(ops), json.dumps(pr)))
    chk.cov = {
        "states": mc["stats"]["distinct"], "transitions": mc["stats"]["generated"],
        "traces_validated_against_impl": len(res), "single_op_histories_generated": nsingle, "bulk_histories_generated": nbulk,
        "histories_replayed": len(cases), "histories_ok": ok, "freelist_calls_executed": events, "problem_kinds": kinds,
        "actions_covered": {a: t for a, (d, t) in mc["coverage"].items()},
        "pinned_counterexample_in_model": True, "exhaustive": thorough,
        "samples": [c["hist"] for c in (single[:1] + bulk[:: max(1, len(bulk) // 2)][:2])],
    }

"""C09 - declared constraints hold exactly: TurDB accepts a write iff Relational.tla's TableOk holds afterwards."""
import relrun, relational as R
LEVEL = "model_checking"


def relevant(d, hist):
    return d["kind"] in ("accepts_invalid", "rejects_valid")


def signature(d, hist):
    op = hist[-1]["op"]
    uc = R.upsert_class(hist)
    if uc:
        return "%s:upsert:%s:%s" % (d["kind"], uc, R.upsert_why(hist) or ("set_" + op["c"] if op["k"] == "upsert" else op["k"]))
    what = R.opname(op)
    return "%s:%s:%s" % (d["kind"], what, ",".join(R.features(hist)) or "-")


def probe_phase(chk):
    """After a behaviour, the table must accept exactly the single-row INSERTs that Relational.tla accepts (Accepts in
    MC_Relational.tla): probes the constraint state itself (unique / primary-key index entries lost or left behind
    by earlier statements) instead of waiting for a later statement of the history to trip over it."""
    import random, json, vlib
    thorough = chk.tier == "thorough"
    cases, _, gstats = relrun.generate(chk, 3, False, True, None)
    rng = random.Random(chk.seed)
    cases = [c for c in cases if c["hist"][-1]["ok"] and c["hist"][-1]["op"]["k"] in ("insert", "update", "delete", "truncate", "reopen")]
    cases = vlib.stratified_sample(cases, relrun.class_key, 6000 if thorough else 900, rng)
    probes = [[i, a, 0] for i in (1, 2, 3) for a in (R.N, 1, 2)]
    rend, meta = [], {}
    cid = 0
    for c in cases:
        acc = {tuple(r) for r in c["accept"]}
        for pr in probes:
            case, marks, obs_at = R.render_case(cid, c["hist"], schema="pk_idx_b")
            case["ops"] = case["ops"][:obs_at] + [{"k": "query", "sql": "SELECT id, a, b FROM t"},
                                                   {"k": "exec", "sql": "INSERT INTO t VALUES (%s)" % ", ".join(R.lit(x) for x in pr)}]
            rend.append(case)
            meta[cid] = (c, marks, obs_at, pr, tuple(pr) in acc)
            cid += 1
    inp, outp = vlib.scratch() + "/probe_in.ndjson", vlib.scratch() + "/probe_out.ndjson"
    vlib.write_ndjson(inp, rend)
    vlib.run_vh(["sql-run", "--in", inp, "--out", outp, "--jobs", vlib.NCPU], timeout=3000)
    st = {"probes": 0, "agree": 0, "abandoned": 0}
    for r in vlib.read_ndjson(outp):
        c, marks, obs_at, pr, want_ok = meta[r["id"]]
        hist, res = c["hist"], r["res"]
        # the history itself must have gone as the model says (results and final scan), otherwise the probe says nothing
        okh = len(res) > obs_at + 1
        for i, stp in enumerate(hist):
            x = res[marks[i][0]] if marks[i][0] < len(res) else None
            if x is None or ("ok" in x) != stp["ok"] or ("ok" in x and stp["op"]["k"] in ("insert", "update", "delete", "truncate") and x["ok"].get("n") != stp["n"]):
                okh = False
        if okh and R.norm_rows(res[obs_at]) != R.expected_obs(hist[-1]["rows"])["scan"]:
            okh = False
        if not okh:
            st["abandoned"] += 1
            continue
        st["probes"] += 1
        got_ok = "ok" in res[obs_at + 1]
        if got_ok == want_ok:
            st["agree"] += 1
            continue
        rows = hist[-1]["rows"]
        which = "primary_key" if any(x[0] == pr[0] for x in rows) else "unique" if pr[1] != R.N and any(x[1] == pr[1] for x in rows) else "none"
        last = hist[-1]["op"]
        sig = "probe:%s:after_%s:%s" % ("accepts_invalid" if got_ok else "rejects_valid", last["k"] + ("(" + last.get("c", "") + ")" if last["k"] == "update" else ""), which)
        chk.classify(sig, {"sql": relrun.describe(hist) + "; INSERT INTO t VALUES (%s)" % ", ".join(R.lit(x) for x in pr), "hist": hist,
                           "probe": pr, "model_accepts": want_ok, "observed": json.dumps(res[obs_at + 1])[:200], "replay_args": {"schema": "pk_idx_b"}})
    if st["probes"] == 0:
        raise vlib.ToolError("no constraint probe could be judged")
    chk.cov["constraint_probes"] = st
    chk.cov["traces_validated_against_impl"] += st["probes"]
    chk.mark("probes")


def fk_relevant(d, act, hist):
    # C09 for FOREIGN KEY: acceptance both ways, the declared effect of the delete action, no dangling reference ever
    if d["kind"] in ("accepts_invalid", "rejects_valid", "dangling_reference", "panic"):
        return True
    if d["kind"] in ("state", "affected_count"):
        return hist[-1]["ok"] and d.get("basis", "model_post") == "model_post" and hist[-1]["op"]["k"] in ("del_p", "upd_p_key", "upd_c_fk", "ins_c", "rollback")
    return False


def fk_phase(chk):
    """FOREIGN KEY (ForeignKey.tla): p / c with ON DELETE noaction | restrict | cascade | setnull, every transition of
    depth 4 (5 thorough) incl. multi-row statements, key updates, BEGIN / ROLLBACK and reopen"""
    import fkrun
    st = fkrun.phase(chk, fk_relevant)
    chk.cov["foreign_key"] = st
    chk.cov["traces_validated_against_impl"] += st["replayed"]
    chk.mark("foreign_key")


def run(chk):
    relrun.standard(chk, relevant, signature)
    cov = chk.cov
    cov["upsert"] = relrun.upsert_phase(chk, relevant, signature)
    chk.mark("upsert")
    probe_phase(chk)
    chk.cov["upsert"] = cov["upsert"]
    fk_phase(chk)


def replay(chk, path):
    import json
    rep = json.load(open(path))["replay"]
    if "fk_hist" in rep:
        import fkrun
        return fkrun.replay(chk, rep, fk_relevant)
    return relrun.replay_file(chk, path, relevant, signature)

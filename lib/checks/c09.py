"""C09 - declared constraints hold exactly: TurDB accepts a write iff Relational.tla's TableOk holds afterwards."""
import relrun, relational as R
LEVEL = "model_checking"


def relevant(d, hist):
    return d["kind"] in ("accepts_invalid", "rejects_valid")


def signature(d, hist):
    op = hist[-1]["op"]
    what = op["k"] + ("(" + op.get("c", "") + ")" if op["k"] == "update" else "")
    return "%s:%s:%s" % (d["kind"], what, ",".join(R.features(hist)) or "-")


def run(chk):
    relrun.standard(chk, relevant, signature)


def replay(chk, path):
    return relrun.replay_file(chk, path, relevant, signature)

"""C09 - declared constraints hold exactly: TurDB accepts a write iff Relational.tla's TableOk holds afterwards."""
import os
import relrun, relational as R
LEVEL = "model_checking"


def relevant(d, hist):
    return d["kind"] in ("accepts_invalid", "rejects_valid")


def signature(d, hist):
    op = hist[-1]["op"]
    uc = R.upsert_class(hist)
    if uc:
        return "%s:upsert:%s:%s" % (d["kind"], uc, R.upsert_why(hist) or ("set_" + op["c"] if op["k"] == "upsert" else op["k"]))
    what = R.opname(op)
    return "%s:%s:%s" % (d["kind"], what, ",".join(R.features(hist)) or "-")


def probe_phase(chk):
    """After a behaviour, the table must accept exactly the single-row INSERTs that Relational.tla accepts (Accepts in
    MC_Relational.tla): probes the constraint state itself (unique / primary-key index entries lost or left behind
    by earlier statements) instead of waiting for a later statement of the history to trip over it."""
    import random, json, vlib
    thorough = chk.tier == "thorough"
    cases, _, gstats = relrun.generate(chk, 3, False, True, None)
    rng = random.Random(chk.seed)
    cases = [c for c in cases if c["hist"][-1]["ok"] and c["hist"][-1]["op"]["k"] in ("insert", "update", "delete", "truncate", "reopen")]
    cases = vlib.stratified_sample(cases, relrun.class_key, 6000 if thorough else 900, rng)
    probes = [[i, a, 0] for i in (1, 2, 3) for a in (R.N, 1, 2)]
    rend, meta = [], {}
    cid = 0
    for c in cases:
        acc = {tuple(r) for r in c["accept"]}
        for pr in probes:
            case, marks, obs_at = R.render_case(cid, c["hist"], schema="pk_idx_b")
            case["ops"] = case["ops"][:obs_at] + [{"k": "query", "sql": "SELECT id, a, b FROM t"},
                                                   {"k": "exec", "sql": "INSERT INTO t VALUES (%s)" % ", ".join(R.lit(x) for x in pr)}]
            rend.append(case)
            meta[cid] = (c, marks, obs_at, pr, tuple(pr) in acc)
            cid += 1
    inp, outp = vlib.scratch() + "/probe_in.ndjson", vlib.scratch() + "/probe_out.ndjson"
    vlib.write_ndjson(inp, rend)
    vlib.run_vh(["sql-run", "--in", inp, "--out", outp, "--jobs", vlib.NCPU], timeout=3000)
    st = {"probes": 0, "agree": 0, "abandoned": 0}
    for r in vlib.read_ndjson(outp):
        c, marks, obs_at, pr, want_ok = meta[r["id"]]
        hist, res = c["hist"], r["res"]
        # the history itself must have gone as the model says (results and final scan), otherwise the probe says nothing
        okh = len(res) > obs_at + 1
        for i, stp in enumerate(hist):
            x = res[marks[i][0]] if marks[i][0] < len(res) else None
            if x is None or ("ok" in x) != stp["ok"] or ("ok" in x and stp["op"]["k"] in ("insert", "update", "delete", "truncate") and x["ok"].get("n") != stp["n"]):
                okh = False
        if okh and R.norm_rows(res[obs_at]) != R.expected_obs(hist[-1]["rows"])["scan"]:
            okh = False
        if not okh:
            st["abandoned"] += 1
            continue
        st["probes"] += 1
        got_ok = "ok" in res[obs_at + 1]
        if got_ok == want_ok:
            st["agree"] += 1
            continue
        rows = hist[-1]["rows"]
        which = "primary_key" if any(x[0] == pr[0] for x in rows) else "unique" if pr[1] != R.N and any(x[1] == pr[1] for x in rows) else "none"
        last = hist[-1]["op"]
        sig = "probe:%s:after_%s:%s" % ("accepts_invalid" if got_ok else "rejects_valid", last["k"] + ("(" + last.get("c", "") + ")" if last["k"] == "update" else ""), which)
        chk.classify(sig, {"sql": relrun.describe(hist) + "; INSERT INTO t VALUES (%s)" % ", ".join(R.lit(x) for x in pr), "hist": hist,
                           "probe": pr, "model_accepts": want_ok, "observed": json.dumps(res[obs_at + 1])[:200], "replay_args": {"schema": "pk_idx_b"}})
    if st["probes"] == 0:
        raise vlib.ToolError("no constraint probe could be judged")
    chk.cov["constraint_probes"] = st
    chk.cov["traces_validated_against_impl"] += st["probes"]
    chk.mark("probes")


def check_phase(chk):
    """CHECK (CheckExpr.tla): x INT CHECK (e) accepts v iff ThreeVL!Eval(e, x = v) is not FALSE; every expression shape
    of the spec written with minimal parentheses, every value, through INSERT and through UPDATE"""
    import random, json, vlib, threevl
    thorough = chk.tier == "thorough"
    gen = vlib.tlc_emit("MC_CheckExpr.tla", os.path.join(vlib.SPEC, "Gen_CheckExpr.cfg"), timeout=1500, workers=4)
    if gen["violated"]:
        raise vlib.ToolError("CheckExpr.tla violates its own laws: %s" % gen["violated"])
    cases = gen["emitted"]
    total = len(cases)
    rng = random.Random(chk.seed)

    def skeleton(t):
        if t[0] in ("and", "or", "not"):
            return "%s(%s)" % (t[0], ",".join(skeleton(c) for c in t[1:]))
        return "_"

    def families(t):
        if t[0] in ("and", "or", "not"):
            return set().union(*[families(c) for c in t[1:]])
        if t[0] in threevl.CMP:
            return {"cmp_lit_left" if t[1][0] == "lit" else "cmp"}
        return {t[0]}
    def unsupported(t, sql):
        """features of the expression that lie outside `x {<,<=,>,>=} number` joined by AND / OR without parentheses"""
        out = set()
        def walk(n):
            if n[0] in ("and", "or"):
                walk(n[1]); walk(n[2])
            elif n[0] == "not":
                out.add("not"); walk(n[1])
            elif n[0] in threevl.CMP:
                if n[0] in ("=", "<>"):
                    out.add("eq_ne_operator")
                if n[1][0] == "lit":
                    out.add("literal_on_the_left")
            elif n[0] in ("isnull", "isnotnull"):
                out.add("null_test")
            else:
                out.add(n[0])
        walk(t)
        if "(" in sql:
            out.add("parentheses")
        return sorted(out)
    if not thorough:
        cases = vlib.stratified_sample(cases, lambda c: (skeleton(c["e"]), tuple(sorted(families(c["e"])))), 450, rng)
    rend = []
    for cid, c in enumerate(cases):
        sql = threevl.render_min(c["e"])
        c["sql"] = sql
        vals = [threevl.sql_lit(k, n, []) for k, n in c["vals"]]
        ops = [{"k": "exec", "sql": "CREATE TABLE k (id INT PRIMARY KEY, x INT CHECK (%s))" % sql}]
        ops += [{"k": "exec", "sql": "INSERT INTO k VALUES (%d, %s)" % (j + 1, v), "stop_on_panic": False} for j, v in enumerate(vals)]
        ok_vals = [v for v, a in zip(vals, c["acc"]) if a]
        c["upd_base"] = ok_vals[0] if ok_vals else None
        if ok_vals:
            ops.append({"k": "exec", "sql": "INSERT INTO k VALUES (100, %s)" % ok_vals[0]})
            ops += [{"k": "exec", "sql": "UPDATE k SET x = %s WHERE id = 100" % v, "stop_on_panic": False} for v in vals]
        ops.append({"k": "query", "sql": "SELECT id, x FROM k"})
        rend.append({"id": cid, "ops": ops})
    inp, outp = vlib.scratch() + "/chk_in.ndjson", vlib.scratch() + "/chk_out.ndjson"
    vlib.write_ndjson(inp, rend)
    vlib.run_vh(["sql-run", "--in", inp, "--out", outp, "--jobs", vlib.NCPU], timeout=3000)
    st = {"expressions_generated": total, "expressions_run": len(cases), "judged_writes": 0, "agree": 0, "create_refused": {}, "divergences": {},
          "writes_inside_the_implemented_fragment": 0}
    for r in vlib.read_ndjson(outp):
        c = cases[r["id"]]
        res = r["res"]
        fam = "+".join(sorted(families(c["e"])))
        if "ok" not in res[0]:
            k = fam
            st["create_refused"][k] = st["create_refused"].get(k, 0) + 1
            continue
        nv = len(c["vals"])
        writes = [("insert", j, res[1 + j]) for j in range(nv) if 1 + j < len(res)]
        if c["upd_base"] is not None and 1 + nv < len(res) and "ok" in res[1 + nv]:
            writes += [("update", j, res[2 + nv + j]) for j in range(nv) if 2 + nv + j < len(res)]
        inside = not unsupported(c["e"], c["sql"])
        for stmt, j, x in writes:
            st["judged_writes"] += 1
            st["writes_inside_the_implemented_fragment"] += inside
            want = c["acc"][j]
            if "panic" in x:
                kind = "panic"
            elif ("ok" in x) == want:
                st["agree"] += 1
                continue
            else:
                kind = "accepts_invalid" if "ok" in x else "rejects_valid"
            vcls = "null" if c["vals"][j][0] == "null" else "int"
            uns = unsupported(c["e"], c["sql"])
            if uns:
                # outside the fragment TurDB's CHECK evaluator implements (see known_findings.d/C09.json): one finding per missing feature set
                sig = "check:outside_implemented_fragment:%s" % "+".join(uns)
            else:
                sig = "check:%s:%s:%s:%s" % (kind, stmt, skeleton(c["e"]), vcls)
            st["divergences"][sig] = st["divergences"].get(sig, 0) + 1
            chk.classify(sig, {"sql": "CREATE TABLE k (id INT PRIMARY KEY, x INT CHECK (%s)); %s x = %s" % (c["sql"], stmt, threevl.sql_lit(c["vals"][j][0], c["vals"][j][1], [])),
                               "check_expr": c["e"], "value": c["vals"][j], "model_accepts": want, "observed": json.dumps(x)[:200]})
    if st["writes_inside_the_implemented_fragment"] < 200:
        raise vlib.ToolError("only %d CHECK writes inside the implemented fragment were judged" % st["writes_inside_the_implemented_fragment"])
    if st["judged_writes"] < 1000:
        raise vlib.ToolError("only %d CHECK writes could be judged (CREATE TABLE refused: %s)" % (st["judged_writes"], st["create_refused"]))
    chk.cov["check_expressions"] = st
    chk.cov["traces_validated_against_impl"] += st["judged_writes"]
    chk.mark("check_expressions")


def fk_relevant(d, act, hist):
    # C09 for FOREIGN KEY: acceptance both ways, the declared effect of the delete action, no dangling reference ever
    if d["kind"] in ("accepts_invalid", "rejects_valid", "dangling_reference", "panic"):
        return True
    if d["kind"] in ("state", "affected_count"):
        return hist[-1]["ok"] and d.get("basis", "model_post") == "model_post" and hist[-1]["op"]["k"] in ("del_p", "upd_p_key", "upd_c_fk", "ins_c", "rollback")
    return False


def fk_phase(chk):
    """FOREIGN KEY (ForeignKey.tla): p / c with ON DELETE noaction | restrict | cascade | setnull, every transition of
    depth 4 (5 thorough) incl. multi-row statements, key updates, BEGIN / ROLLBACK and reopen"""
    import fkrun
    st = fkrun.phase(chk, fk_relevant)
    chk.cov["foreign_key"] = st
    chk.cov["traces_validated_against_impl"] += st["replayed"]
    chk.mark("foreign_key")


def run(chk):
    relrun.standard(chk, relevant, signature)
    cov = chk.cov
    cov["upsert"] = relrun.upsert_phase(chk, relevant, signature)
    chk.mark("upsert")
    probe_phase(chk)
    chk.cov["upsert"] = cov["upsert"]
    fk_phase(chk)
    check_phase(chk)


def replay(chk, path):
    import json
    rep = json.load(open(path))["replay"]
    if "fk_hist" in rep:
        import fkrun
        return fkrun.replay(chk, rep, fk_relevant)
    return relrun.replay_file(chk, path, relevant, signature)

"""C30 - the vectorized leaf key search equals binary search.

LeafSearch.tla is the oracle: Search(keys, probe) = Found(i) / NotFound(|{k < probe}|) over byte strings in
lexicographic order.  TLC generates the pages and prints, for every probe, the expected answer:
  * every subset of the 26-key universe up to a bound (exhaustive), random subsets of every size 0..26 (-simulate),
    every universe key and every gap as probe;
  * descriptors of pages with n in {7,8,9,15,16,17,255,256,400} keys: one run of L keys sharing a 4-byte prefix at an
    offset that makes it straddle the 8-slot (AVX2) and 4-slot (scalar) windows, two adjacent runs, one single run, all
    distinct; the expected answer is a function of the descriptor (tied to Search by DescriptorAgrees in TLC).
The harness builds each leaf page with insert_at_end in the model's order (no search involved) and asks
LeafNode::find_key, find_key_simd, the scalar narrowing and (when the CPU has it) the AVX2 narrowing; each narrowing
variant is followed by the final phase of find_key_simd so that its answer does not depend on the CPU at hand, and
its bracket must contain the answer.
"""
import os, random, json, threading
import vlib

LEVEL = "exploration"
MANIFEST = dict(cat=LEVEL, ref="DESIGN.md 3.8, 6 (C30)",
    tech="TLA+ oracle LeafSearch.tla (Search = plain binary search, checked by TLC on every generated page) evaluated by TLC over generated key sets and descriptors of large pages; every page built on the real LeafNodeMut with insert_at_end and every probe answered by find_key, find_key_simd, the scalar narrowing and the AVX2 narrowing (public in simd_scan.rs), compared with the model's answer",
    text="for every subset of a 26-key universe (two 4-byte prefixes x 10 suffixes, 3 keys shorter than 4 bytes, zero-padding ties) up to 3 (quick) / 4 (thorough) keys, seeded random subsets of every size 0..26, and pages of 7..400 keys with runs of equal 4-byte prefixes placed across the batch windows of the narrowing loops, every universe key and every gap as probe: find_key reports the model's found position / insertion point, for the dispatching entry point and for the scalar and AVX2 narrowing variants separately, and each narrowing bracket contains the answer",
    note="the AVX2 variant is exercised only on a CPU that has AVX2 (stated in the evidence); the NEON variant is never run on x86-64; the final binary-search phase used after a forced narrowing variant is a copy of the one in find_key_simd (find_key_simd itself is also called unmodified)")

SELFTEST = os.environ.get("VERIF_SELFTEST") == "1"


def _gen(chk, thorough):
    """three TLC generators in parallel -> (cases, stats)"""
    out = {}
    errs = []

    def sub():
        cfg = vlib.scratch() + "/ls_sub.cfg"
        open(cfg, "w").write(open(os.path.join(vlib.SPEC, "Gen_LeafSearch_subsets.cfg")).read().replace("Bound = 3", "Bound = %d" % (4 if thorough else 3)))
        out["sub"] = vlib.tlc_emit("MC_LeafSearch.tla", cfg, timeout=2400, workers=6 if thorough else 3)

    def walk():
        out["walk"] = vlib.tlc_emit("MC_LeafSearch.tla", os.path.join(vlib.SPEC, "Gen_LeafSearch_walk.cfg"), timeout=2400, workers=1,
                                    simulate="num=%d" % (60 if thorough else 12), seed=chk.seed, extra=["-depth", "27"])

    def desc():
        cfg = vlib.scratch() + "/ls_desc.cfg"
        c = open(os.path.join(vlib.SPEC, "Gen_LeafSearch_desc.cfg")).read()
        if thorough:
            c = c.replace("Dense = FALSE", "Dense = TRUE")
        open(cfg, "w").write(c)
        out["desc"] = vlib.tlc_emit("MC_LeafSearch.tla", cfg, timeout=2400, workers=6 if thorough else 4)

    def guard(f):
        def g():
            try:
                f()
            except Exception as e:  # noqa
                errs.append(e)
        return g
    ths = [threading.Thread(target=guard(f)) for f in (sub, walk, desc)]
    [t.start() for t in ths]
    [t.join() for t in ths]
    if errs:
        raise errs[0]
    for k, r in out.items():
        if r["violated"] or "is violated" in r["out"]:
            raise vlib.ToolError("LeafSearch model: a meta-invariant failed in the %s generator:\n%s" % (k, r["out"][-1500:]))
    return out


def _run_cases(cases, selftest=False):
    inp, outp = vlib.scratch() + "/ls_cases.ndjson", vlib.scratch() + "/ls_res.ndjson"
    vlib.write_ndjson(inp, cases)
    args = ["leaf-search", "--in", inp, "--out", outp, "--jobs", min(vlib.NCPU, 8)]
    if selftest:
        args += ["--oldavx2", "1"]
    vlib.run_vh(args, timeout=1800)
    return vlib.read_ndjson(outp)


def _prefix_runs(keys):
    """lengths of maximal runs of keys with equal zero-padded 4-byte prefix"""
    runs, prev = [], None
    for k in keys:
        p = tuple((k + [0, 0, 0, 0])[:4])
        if p == prev:
            runs[-1] += 1
        else:
            runs.append(1)
        prev = p
    return runs


def signature(case, pr):
    """variant + answer class + page class (size band, longest equal-prefix run band)"""
    n = case.get("n", len(case.get("keys", [])))
    runs = [r[1] for r in case["runs"]] if "runs" in case else _prefix_runs(case.get("keys", []))
    longest = max(runs) if runs else 0
    band = "n<4" if n < 4 else "n<8" if n < 8 else "n>=8"
    rb = "run1" if longest <= 1 else "run<8" if longest < 8 else "run>=8"
    exp = pr.get("exp")
    kind = "found" if exp and exp[0] == "F" else "notfound"
    obs = pr.get("obs")
    how = "panic" if isinstance(obs, dict) else "bracket" if isinstance(obs, str) else "answer"
    return "leaf_search:%s:%s:%s:%s:%s" % (pr["variant"], how, kind, band, rb)


def run(chk):
    thorough = chk.tier == "thorough"
    chk.assumptions += ["pages are built with LeafNodeMut::insert_at_end in the model's key order, empty values",
                        "the forced narrowing variants are completed by a copy of find_key_simd's final binary-search phase"]
    vlib.scratch()          # created before any thread asks for it
    vlib.build_harness(); chk.mark("build")
    gen = _gen(chk, thorough); chk.mark("tlc_gen")
    cases = []
    for src in ("sub", "walk", "desc"):
        for c in gen[src]["emitted"]:
            c["id"] = len(cases)
            c["src"] = src
            cases.append(c)
    if not cases:
        raise vlib.ToolError("no cases generated")
    if SELFTEST:
        # the check must bind: feed one deliberately wrong expectation
        c = next(c for c in cases if c["src"] == "sub" and len(c["keys"]) >= 1)
        c["probes"][0]["r"] = ["F", 0]
    res = {r["id"]: r for r in _run_cases(cases)}
    chk.mark("replay")
    if len(res) != len(cases):
        raise vlib.ToolError("harness answered %d of %d cases" % (len(res), len(cases)))
    evals = sum(r["evals"] for r in res.values())
    variants = set()
    nontriv = set()
    sizes = {}
    classes = {"short_key_probe": 0, "zero_pad_tie_page": 0, "run_ge8_page": 0, "run_straddles_batch": 0, "avx_probes_n_ge_8": 0}
    for c in cases:
        r = res[c["id"]]
        variants |= set(r["variants"])
        n = r["n"]
        sizes[n] = sizes.get(n, 0) + 1
        keys = c.get("keys") or []
        runs = [x[1] for x in c["runs"]] if "runs" in c else _prefix_runs(keys)
        classes["avx_probes_n_ge_8"] += r.get("avx_probes_n_ge_8", 0)
        if runs and max(runs) >= 8:
            classes["run_ge8_page"] += 1
        if "runs" in c:
            pos = 0
            for L in runs:
                if L >= 2 and pos // 8 != (pos + L - 1) // 8:
                    classes["run_straddles_batch"] += 1
                    break
                pos += L
        else:
            if any(len(k) < 4 for k in keys) and len(set(tuple((k + [0] * 4)[:4]) for k in keys)) < len(keys):
                classes["zero_pad_tie_page"] += 1
            classes["short_key_probe"] += sum(1 for p in c["probes"] if len(p["p"]) < 4)
        if n >= 4:
            nontriv.add(json.dumps(c.get("runs") or keys))
        for pr in r["problems"]:
            if pr["variant"] == "harness":
                raise vlib.ToolError("harness problem in case %s: %s" % (c["id"], pr))
            if pr["variant"] == "old_avx2_selftest":
                continue
            chk.classify(signature(c, pr), {"case": {k: c[k] for k in c if k not in ("probes", "answers")}, "problem": pr})
    need = ["find_key", "find_key_simd", "scalar"]
    for v in need:
        if v not in variants:
            raise vlib.ToolError("variant %s was never exercised" % v)
    want_sizes = {7, 8, 9, 15, 16, 17, 255, 256, 400} | set(range(0, 27))
    missing = sorted(want_sizes - set(sizes))
    if missing:
        raise vlib.ToolError("page sizes never generated: %s" % missing)
    for k in ("short_key_probe", "zero_pad_tie_page", "run_ge8_page", "run_straddles_batch"):
        if classes[k] == 0:
            raise vlib.ToolError("class %s (named by the property) was never generated" % k)
    # detection power: the AVX2 narrowing as it was before commit 235e622 must be rejected on the same cases
    st = None
    if "avx2" in variants:
        sub = [c for c in cases if c["src"] != "sub"]
        stres = _run_cases(sub, selftest=True)
        st = sum(1 for r in stres for pr in r["problems"] if pr["variant"] == "old_avx2_selftest")
        if st == 0:
            raise vlib.ToolError("self-test: the pre-fix AVX2 narrowing (equal prefixes discarded) was NOT rejected by these cases")
        chk.mark("selftest")
    chk.cov = {
        "evaluations": evals, "distinct_nontrivial": len(nontriv),
        "rule": "TLC enumerates key sets (subsets of U26 up to the bound, random subsets of every size, descriptors of 7..400-key pages) with the expected answer of every probe; a case is non-trivial if the page has >= 4 keys (the narrowing loops are entered); distinct by key set / descriptor",
        "pages": len(cases), "pages_by_generator": {s: sum(1 for c in cases if c["src"] == s) for s in ("sub", "walk", "desc")},
        "page_sizes": {str(k): v for k, v in sorted(sizes.items())}, "variants": sorted(variants), "avx2_available": "avx2" in variants,
        "classes": classes, "tlc_states": {k: gen[k]["stats"].get("distinct") for k in gen},
        "selftest_old_avx2_rejections": st, "exhaustive_subset_bound": 4 if thorough else 3,
        "samples": [{k: v for k, v in c.items() if k not in ("probes", "answers")} for c in (cases[5], cases[-1])],
    }
    if "avx2" not in variants:
        chk.notes.append("this CPU has no AVX2: the AVX2 narrowing was not exercised")


def replay(chk, path):
    rep = json.load(open(path))["replay"]
    case, pr = rep["case"], rep["problem"]
    vlib.build_harness()
    print("case:", json.dumps(case)[:600])
    print("recorded problem:", json.dumps(pr))
    # re-run just this page with the recorded probe
    c = dict(case)
    if "runs" in c:
        raise_on = None
        gen = vlib.tlc_emit("MC_LeafSearch.tla", os.path.join(vlib.SPEC, "Gen_LeafSearch_desc.cfg"), timeout=1200, workers=4)
        full = [x for x in gen["emitted"] if x.get("runs") == c["runs"]]
        if not full:
            print("descriptor is not in the quick-tier family; expected answer as recorded")
            return 2
        c = full[0]
    else:
        c["probes"] = [{"p": pr["probe"], "r": pr["exp"]}]
    c["id"] = 0
    res = _run_cases([c])
    probs = [p for p in res[0]["problems"] if p.get("probe") == pr.get("probe")]
    for p in probs:
        print("DIVERGENCE", json.dumps(p))
    print("reproduced" if probs else "not reproduced")
    return 1 if probs else 0

"""C16 - aggregates and GROUP BY follow SQL semantics.

TLC enumerates the aggregate queries of spec/Aggregate.tla (COUNT(*), COUNT/SUM/AVG/MIN/MAX of a column or of an
expression x 0/1/2 grouping keys or a grouping expression x WHERE (none / some rows / no rows) x HAVING x with or
without a second aggregate in the select list, over a table or over a join; tables with NULLs, NULL-free, empty,
all-NULL column), checks the oracle's meta-invariants (COUNT(*) = sum of group counts, group SUMs add up to the total,
MIN <= AVG <= MAX, one row per distinct key, empty input gives COUNT 0 / NULL, ...) and prints for every query the
expected bag of groups plus the answer under every applicable set of NAMED DEVIATIONS.  Every query is rendered to SQL
in four plan shapes (plain, ORDER BY, LIMIT, ORDER BY + LIMIT), executed on TurDB, and its rows are compared as a bag
with TLC's answer (AVG against the correctly rounded quotient of TLC's exact <<sum, count>>, 1 ulp)."""
import json, os, random, collections, fractions, math, struct, itertools
import vlib, ordagg

LEVEL = "exploration"
MANIFEST = dict(cat=LEVEL, ref="DESIGN.md 3.10, 6 (C16)",
    tech="TLA+ oracle Aggregate.tla (aggregates over bags of small integers incl. NULL, AVG as exact <<sum,count>>, groups incl. the "
         "NULL key, HAVING; named deviations) enumerated by TLC with meta-invariants on the oracle; every generated query rendered to "
         "SQL in four plan shapes and over a join, run on TurDB and compared as a bag with TLC's answer",
    text="every aggregate query of the bounded space (6 aggregate functions x column/expression argument x 0-2 grouping keys or a "
         "grouping expression x WHERE selecting all/some/no rows x HAVING x one or two aggregates in the select list, over four fixed "
         "tables and over a join) returns exactly the bag of rows the specification computes: NULLs ignored except by COUNT(*), "
         "COUNT 0 and NULL for the others on empty input, one row per distinct key with NULL keys in one group, HAVING keeps the groups "
         "whose predicate is TRUE; AVG within 1 ulp of the correctly rounded quotient",
    note="integer inputs only (no overflow, no float summation order); the order of the result is not judged here (C15); the SQL "
         "renderer and the value comparison are trusted; SUM/COUNT returned as a float equal to the expected integer is accepted")

N = ordagg.N
SPEC_MODULE = "MC_Aggregate.tla"
VARIANTS = ("plain", "orderby", "limit", "topk")


# ----------------------------------------------------------------------------- rendering
def col(q, e):
    p = "x." if q["src"] == "join" else ""
    if e == "a+b":
        return "%sa + %sb" % (p, p)
    return p + e


def agg_sql(q, f, x):
    return "COUNT(*)" if f == "COUNT(*)" else "%s(%s)" % (f, col(q, x))


def variant_applies(q, variant):
    # ORDER BY variants only over plain grouping columns: what ORDER BY does to expressions is C15's subject
    if variant in ("orderby", "topk"):
        return bool(q["g"]) and all(e != "a+b" for e in q["g"])
    return True


def render(q, variant="plain", lim=1):
    sel = [col(q, e) for e in q["g"]]
    if q["wc"]:
        sel.append("COUNT(*)")
    sel.append(agg_sql(q, q["f"], q["x"]))
    s = "SELECT %s FROM %s" % (", ".join(sel), q["tab"] + (" x JOIN w y ON x.a = y.a" if q["src"] == "join" else ""))
    if q["w"] == "idge2":
        s += " WHERE %s >= 2" % col(q, "id")
    elif q["w"] == "idlt0":
        s += " WHERE %s < 0" % col(q, "id")
    if q["g"]:
        s += " GROUP BY " + ", ".join(col(q, e) for e in q["g"])
    if q["h"] == "cnt>1":
        s += " HAVING COUNT(*) > 1"
    elif q["h"] == "sumb>=1":
        s += " HAVING SUM(%s) >= 1" % col(q, "b")
    elif q["h"] == "self>=1":
        s += " HAVING %s >= 1" % agg_sql(q, q["f"], q["x"])
    if variant in ("orderby", "topk"):
        s += " ORDER BY " + ", ".join(col(q, e) for e in q["g"])
    if variant in ("limit", "topk"):
        s += " LIMIT %d" % lim
    return s


def qkey(q):
    return json.dumps(q, sort_keys=True, separators=(",", ":"))


# ----------------------------------------------------------------------------- comparing values
def ulp_neighbours(x):
    return {x, math.nextafter(x, math.inf), math.nextafter(x, -math.inf)}


def value_matches(f, exp, obs):
    """exp: spec value (int, N, or [sum, count] for AVG); obs: normalised harness value"""
    if f == "AVG":
        s, c = exp
        if c == 0:
            return obs is None
        if isinstance(obs, bool) or not isinstance(obs, (int, float)):
            return False
        want = float(fractions.Fraction(s, c))      # float(Fraction) is correctly rounded
        return float(obs) in ulp_neighbours(want)
    if exp == N:
        return obs is None
    if isinstance(obs, bool) or obs is None:
        return False
    if isinstance(obs, int):
        return obs == exp
    if isinstance(obs, float):
        return obs == float(exp)                     # an integer-valued float is accepted for an integer result
    return False


def expected_rows(q, groups):
    out = []
    for g in groups:
        row = [("k", v) for v in g["key"]]
        if q["wc"]:
            row.append(("COUNT(*)", g["cnt"]))
        row.append((q["f"], g["v"]))
        out.append(row)
    return out


def cell_matches(kind, exp, obs):
    if kind == "k":
        return (obs is None) if exp == N else (not isinstance(obs, bool) and isinstance(obs, int) and obs == exp)
    return value_matches(kind, exp, obs)


def bag_matches(exp_rows, obs_rows):
    """is there a bijection between expected and observed rows with every cell matching? (small: backtracking)"""
    if len(exp_rows) != len(obs_rows):
        return False
    used = [False] * len(obs_rows)

    def rec(i):
        if i == len(exp_rows):
            return True
        for j, o in enumerate(obs_rows):
            if used[j] or len(o) != len(exp_rows[i]):
                continue
            if all(cell_matches(k, e, ov) for (k, e), ov in zip(exp_rows[i], o)):
                used[j] = True
                if rec(i + 1):
                    return True
                used[j] = False
        return False
    return rec(0)


DEV_SEQ = ["count_counts_nulls", "expr_arg_is_first_column", "expr_key_shown_as_null", "having_looked_up_in_select_list",
           "minmax_of_text_is_null", "sum_of_nothing_is_zero"]


def dev_rank(devs):
    return len(devs) * 1000 + sum(2 ** DEV_SEQ.index(d) for d in devs)


def value_class(v, cnt):
    if v is None:
        return "NULL"
    if isinstance(v, float) and not v.is_integer():
        return "float"
    if v == 0:
        return "0"
    if cnt is not None and v == cnt:
        return "count(*)"
    return "n"


def spec_class(f, v, cnt):
    if f == "AVG":
        return "NULL" if v[1] == 0 else "avg"
    if v == N:
        return "NULL"
    if v == 0:
        return "0"
    if v == cnt:
        return "count(*)"
    return "n"


def plain_bag(rows):
    """rows of spec values / harness values -> comparable bag (NULL -> None, integer-valued floats -> ints)"""
    def nv(v):
        if v == N:
            return None
        if isinstance(v, float) and v.is_integer():
            return int(v)
        return v
    return sorted((json.dumps([nv(ordagg.code_of(v)) for v in r]) for r in rows))


def judge(case, res, variant="plain"):
    """-> (kind, blame). kind: ok | dev:<names> | shape | groups:<what> | cell | error:<cls> | panic:<cls> | missing"""
    q = case["q"]
    r = res["res"]
    if "panic" in r:
        return "panic:" + ordagg.err_class(r["panic"]), None
    if "err" in r:
        return "error:" + ordagg.err_class(r["err"]), None
    if "rows" not in r:
        return "missing", None
    obs = ordagg.norm_rows(r["rows"])
    if q["x"] == "s":
        # MIN/MAX of the TEXT column: compare through the order-preserving encoding of lib/ordagg.py
        obs = [o[:-1] + [ordagg.code_of(o[-1])] if o else o for o in obs]
    exp = expected_rows(q, case["groups"])
    if bag_matches(exp, obs):
        return "ok", None
    if q["src"] == "join":
        # the implementation-shaped model of the hand-written join path (Aggregate.tla, HandJoinRows) comes first:
        # on that path nothing of the Volcano aggregate runs, so its deviations explain nothing there
        hj = case["hj_topk"] if variant == "topk" else case["hj_lim"] if variant == "limit" else case["hj"]
        if plain_bag(hj) == plain_bag(obs):
            return "dev:handwritten_join_aggregate", None
    for alt in sorted(case["alts"], key=lambda a: dev_rank(a["devs"])):
        if bag_matches(expected_rows(q, alt["groups"]), obs):
            return "dev:" + "+".join(sorted(alt["devs"])), None
    width = len(q["g"]) + (1 if q["wc"] else 0) + 1
    if any(len(o) != width for o in obs):
        return "shape", None
    # blame: groups first (matched by key), then the first mismatching cell
    nk = len(q["g"])
    ekeys = collections.Counter(tuple(None if v == N else v for v in g["key"]) for g in case["groups"])
    okeys = collections.Counter(tuple(o[:nk]) for o in obs)
    if ekeys != okeys:
        what = []
        if any(c > 1 for c in okeys.values()):
            what.append("duplicate_keys")
        if sum((ekeys - okeys).values()):
            what.append("missing")
        if sum((okeys - ekeys).values()):
            what.append("extra")
        return "groups:" + "+".join(what), None
    byk = {tuple(o[:nk]): o for o in obs}
    for g in case["groups"]:
        o = byk[tuple(None if v == N else v for v in g["key"])]
        cells = ([("COUNT(*)", g["cnt"], o[nk])] if q["wc"] else []) + [(q["f"], g["v"], o[-1])]
        for f, e, ov in cells:
            if not value_matches(f, e, ov):
                arg = "*" if f == "COUNT(*)" else ("expr" if q["x"] == "a+b" else "textcol" if q["x"] == "s" else "col")
                cls = g["cls"] if f == q["f"] else "rows"
                return "cell", "%s(%s)|%s|%s->%s" % (f.replace("(*)", ""), arg, cls, spec_class(f, e, g["cnt"]), value_class(ov, g["cnt"]))
    return "groups:unmatched", None


# ----------------------------------------------------------------------------- reduction
def reductions(q, variant):
    out = []
    if variant != "plain":
        out.append((q, "plain"))

    def w(**kw):
        d = dict(q)
        d.update(kw)
        return d
    if q["h"] != "none":
        out.append((w(h="none"), variant))
    if q["wc"]:
        out.append((w(wc=False), variant))
    if q["w"] != "none":
        out.append((w(w="none"), variant))
    g = q["g"]
    for i in reversed(range(len(g))):
        out.append((w(g=g[:i] + g[i + 1:]), variant))
    for i, e in enumerate(g):
        if e == "a+b":
            out.append((w(g=g[:i] + ["a"] + g[i + 1:]), variant))
    if q["x"] == "a+b":
        out.append((w(x="a"), variant))
    if q["tab"] in ("t", "n"):
        out.append((w(tab="u"), variant))
    if q["src"] == "join":
        out.append((w(src="table"), variant))
    return out


def path_class(plan, variant):
    ops = plan.split("/")
    p = "join" if any("Join" in o for o in ops) else "scan"
    if "HashAggregate" in ops:
        i = ops.index("HashAggregate")
        if "Filter" in ops[i:]:
            p += "+where"
        if "Filter" in ops[:i]:
            p += "+having"
    return p + ("" if variant == "plain" else ":" + variant)


def abstract(case, variant):
    q = case["q"]
    parts = [q["src"]]
    if q["w"] != "none":
        parts.append("where" if q["w"] == "idge2" else "where-none-qualifies")
    if q["g"]:
        parts.append("group=%d:%s" % (len(q["g"]), "/".join(sorted({"expr" if e == "a+b" else "col" for e in q["g"]}))))
    parts.append("%s(%s)" % (q["f"].replace("(*)", ""), "*" if q["x"] == "*" else "expr" if q["x"] == "a+b" else "textcol" if q["x"] == "s" else "col"))
    if q["wc"]:
        parts.append("+COUNT(*)")
    if q["h"] != "none":
        parts.append("having:" + {"cnt>1": "COUNT(*)", "sumb>=1": "SUM(b)", "self>=1": "self"}[q["h"]])
    if variant != "plain":
        parts.append(variant)
    if case["input_rows"] == 0:
        parts.append("no_input")
    return ",".join(parts)


# ----------------------------------------------------------------------------- the check
def gen_cfg(thorough):
    cfg = vlib.scratch() + "/Gen_Aggregate_%s.cfg" % ("t" if thorough else "q")
    base = open(os.path.join(vlib.SPEC, "Gen_Aggregate.cfg")).read()
    if thorough:
        base = base.replace("Rich = FALSE", "Rich = TRUE")
    open(cfg, "w").write(base)
    return cfg


def nonvacuity(cases):
    c = collections.Counter()
    for k in cases:
        q = k["q"]
        c["total"] += 1
        c["fn_" + q["f"]] += 1
        c["groupkeys_%d" % len(q["g"])] += 1
        if "a+b" in q["g"]:
            c["group_by_expression"] += 1
        if q["x"] == "a+b":
            c["expression_argument"] += 1
        c["having_" + q["h"]] += 1
        c["where_" + q["w"]] += 1
        c["src_" + q["src"]] += 1
        c["tab_" + q["tab"]] += 1
        if q["wc"]:
            c["two_aggregates"] += 1
        if k["input_rows"] == 0:
            c["empty_input"] += 1
            if not q["g"] and k["groups"]:
                c["empty_input_one_row"] += 1
        for g in k["groups"]:
            c["cls_" + g["cls"]] += 1
            if any(v == N for v in g["key"]):
                c["null_group_key"] += 1
                if g["cnt"] > 1:
                    c["null_group_key_with_several_rows"] += 1
        if q["h"] != "none" and not k["groups"]:
            c["having_removes_everything"] += 1
        if k["alts"]:
            c["has_named_deviation_alternative"] += 1
    if any(k["q"]["x"] == "s" and k["q"]["f"] in ("MIN", "MAX") for k in cases):
        c["minmax_of_text"] = sum(1 for k in cases if k["q"]["x"] == "s" and k["q"]["f"] in ("MIN", "MAX"))
    need = ["minmax_of_text", "fn_COUNT(*)", "fn_COUNT", "fn_SUM", "fn_AVG", "fn_MIN", "fn_MAX", "groupkeys_0", "groupkeys_1", "groupkeys_2", "group_by_expression",
            "expression_argument", "having_none", "having_cnt>1", "having_sumb>=1", "where_none", "where_idge2", "where_idlt0", "src_table",
            "src_join", "tab_t", "tab_u", "tab_e", "tab_n", "two_aggregates", "empty_input", "empty_input_one_row", "cls_all_null",
            "cls_some_null", "cls_no_null", "cls_no_rows", "null_group_key", "null_group_key_with_several_rows", "having_removes_everything"]
    missing = [x for x in need if not c[x]]
    if missing:
        raise vlib.ToolError("vacuous generation: no query of class %s" % missing)
    return dict(c)


def check_tables(cases):
    for c in cases:
        q = c["q"]
        if q["src"] == "table" and q["w"] == "none" and not q["g"] and q["f"] == "COUNT(*)" and q["h"] == "none":
            if c["groups"][0]["v"] != len(ordagg.TABLES[q["tab"]]):
                raise vlib.ToolError("table %s in lib/ordagg.py differs from Tab(%s) in Aggregate.tla" % (q["tab"], q["tab"]))
        if q["src"] == "table" and q["w"] == "none" and not q["g"] and q["f"] == "SUM" and q["x"] in ("id", "a", "b") and q["h"] == "none" and not q["wc"]:
            vals = [r[("id", "a", "b").index(q["x"])] for r in ordagg.TABLES[q["tab"]]]
            vals = [v for v in vals if v != N]
            if c["groups"][0]["v"] != (sum(vals) if vals else N):
                raise vlib.ToolError("table %s in lib/ordagg.py differs from Tab(%s) in Aggregate.tla (SUM(%s))" % (q["tab"], q["tab"], q["x"]))


def run(chk):
    thorough = chk.tier == "thorough"
    selftest = os.environ.get("VERIF_SELFTEST") == "1"
    rng = random.Random(chk.seed)
    chk.assumptions += ["tables t (NULLs, duplicates), u (NULL-free), e (empty), n (column a all NULL), w (join partner): small INT values, no overflow",
                        "the result is compared as a bag; ORDER BY / LIMIT variants only change the plan shape (ORDER BY on plain grouping columns, LIMIT beyond the number of groups before HAVING)",
                        "every failing query is re-run on a fresh database before it is classified"]
    vlib.build_harness(); chk.mark("build")
    gen = vlib.tlc_emit(SPEC_MODULE, gen_cfg(thorough), timeout=2400, workers=8)
    if gen["violated"]:
        raise vlib.ToolError("the oracle violates its own meta-invariant %s:\n%s" % (gen["violated"], gen["out"][-2000:]))
    cases = gen["emitted"]
    for c in cases:
        c["_key"] = qkey(c["q"])
        if selftest and c["q"]["f"] == "MAX" and c["q"]["tab"] == "u":
            # deliberately wrong expectation: MAX answers like MIN + 1 would
            for g in c["groups"]:
                if g["v"] != N:
                    g["v"] += 1
    bykey = {c["_key"]: c for c in cases}
    check_tables(cases)
    counts = nonvacuity(cases)
    chk.mark("tlc_gen")

    # execute every case in every applicable plan shape
    jobs = [(c["_key"], v) for c in cases for v in VARIANTS if variant_applies(c["q"], v)]
    sqls = [render(bykey[k]["q"], v, bykey[k]["lim"]) for k, v in jobs]
    res = ordagg.run_queries(ordagg.setup_sql(), sqls, batch=250)
    results = dict(zip(jobs, res))
    chk.mark("execute")
    verdicts = {j: judge(bykey[j[0]], results[j], j[1]) for j in jobs}
    failing = [j for j in jobs if verdicts[j][0] != "ok"]
    for want_panic in (False, True):
        fj = [j for j in failing if verdicts[j][0].startswith("panic:") == want_panic]
        if fj:
            res = ordagg.run_queries(ordagg.setup_sql(), [render(bykey[k]["q"], v, bykey[k]["lim"]) for k, v in fj], batch=250)
            for j, r in zip(fj, res):
                results[j] = r
                verdicts[j] = judge(bykey[j[0]], r, j[1])
    chk.mark("judge")

    def kind_of(j):
        v = verdicts.get(j)
        return (v[0], v[1]) if v else None

    def minimise(j):
        kind = kind_of(j)
        cur = j
        while True:
            nxt = None
            for q2, v2 in reductions(bykey[cur[0]]["q"], cur[1]):
                j2 = (qkey(q2), v2)
                if j2 in verdicts and kind_of(j2) == kind:
                    nxt = j2
                    break
            if nxt is None:
                return cur
            cur = nxt

    sigs = collections.Counter()
    compound = collections.Counter()
    paths = collections.Counter()
    for j in jobs:
        kind, blame = verdicts[j]
        c = bykey[j[0]]
        pc = path_class(results[j]["plan"], j[1])
        paths[(pc, "ok" if kind == "ok" else "diverges")] += 1
        if kind == "ok":
            continue
        if kind == "missing":
            raise vlib.ToolError("query not executed: %s" % render(c["q"], j[1], c["lim"]))
        if kind.startswith("dev:"):
            src = "join" if c["q"]["src"] == "join" else "table"
            sig_list = ["dev:%s|%s" % (d, src) for d in kind[4:].split("+")]
            m = j
        else:
            m = minimise(j)
            mc = bykey[m[0]]
            sig_list = ["%s|%s|%s" % (kind + (":" + blame if blame else ""), path_class(results[m]["plan"], m[1]).split(":")[0], abstract(mc, m[1]))]
        mc = bykey[m[0]]
        for sig in sig_list:
            sigs[sig] += 1
            chk.classify(sig, {"sql": render(mc["q"], m[1], mc["lim"]), "variant": m[1], "plan": results[m]["plan"],
                               "case": {k: v for k, v in mc.items() if k != "_key"}, "observed": results[m]["res"], "verdict": verdicts[m][0],
                               "reduced_from": render(c["q"], j[1], c["lim"]) if m != j else None,
                               "expected": json.dumps(show_expected(mc))})
        compound[kind if kind.startswith("dev:") else sig_list[0]] += 1
    chk.mark("classify")

    judged = len(jobs)
    ok = sum(1 for j in jobs if verdicts[j][0] == "ok")
    nontrivial = {k for k, v in jobs if bykey[k]["input_rows"] >= 2}
    sample = [jobs[i] for i in sorted(rng.sample(range(len(jobs)), 3))]
    chk.cov = {
        "evaluations": judged, "distinct_nontrivial": len(nontrivial),
        "rule": "a query is non-trivial when its aggregate input has at least two rows; every generated query is executed in up to four plan shapes",
        "queries_generated_by_tlc": len(cases), "tlc_states": gen["stats"].get("distinct", 0), "exhaustive": True,
        "conforming": ok, "diverging": judged - ok,
        "classes_generated": counts, "by_path": {"%s:%s" % k: v for k, v in sorted(paths.items())},
        "divergence_signatures": dict(sigs), "divergences_by_full_explanation": dict(compound),
        "samples": [{"sql": render(bykey[k]["q"], v, bykey[k]["lim"]), "expected_bag": show_expected(bykey[k]),
                     "observed": results[(k, v)]["res"], "plan": results[(k, v)]["plan"], "verdict": verdicts[(k, v)][0]} for k, v in sample],
        "selftest": selftest,
    }


def show_expected(case):
    q = case["q"]
    out = []
    for g in case["groups"]:
        row = [None if v == N else v for v in g["key"]]
        if q["wc"]:
            row.append(g["cnt"])
        v = g["v"]
        if q["f"] == "AVG":
            row.append(None if v[1] == 0 else "%d/%d" % (v[0], v[1]))
        else:
            row.append(None if v == N else v)
        out.append(row)
    return out


def replay(chk, path):
    d = json.load(open(path))
    rep = d["replay"]
    vlib.build_harness()
    case = rep["case"]
    sql = render(case["q"], rep.get("variant", "plain"), case["lim"])
    res = ordagg.run_queries(ordagg.setup_sql(), [sql], batch=1)[0]
    kind, blame = judge(case, res, rep.get("variant", "plain"))
    print("replayed: %s   [plan %s]" % (sql, res["plan"]))
    print("  expected bag: %s" % json.dumps(show_expected(case)))
    print("  observed:     %s" % json.dumps(res["res"])[:600])
    print("  verdict:      %s %s" % (kind, blame or ""))
    chk.cov = {"evaluations": 1, "distinct_nontrivial": 2, "rule": "replay of one stored query", "samples": [sql], "replay_of": path}
    if kind != "ok":
        chk.classify(d["signature"], rep)
    return chk.finish()

"""C29 - B-tree pages stay structurally valid.

BTreeShape.tla states WellFormed over an abstract tree record with one named conjunct per clause of the property.
(A) non-vacuity: TLC evaluates the predicate on hand-made trees, one well formed and one per clause with a single
    seeded defect; each must fail exactly its clause (MC_BTreeShape.cfg; in the thorough tier additionally one TLC
    run per defect with the clauses as named INVARIANTS: TLC must name exactly that invariant).
(B) trace validation: the same behaviours as C28 (BTreeMap.tla: per-transition enumeration + random walks) are
    executed on the real BTree; after every step the harness projects the reachable pages to the abstract tree record
    through the public LeafNode/InteriorNode accessors.  Trace_BTreeShape.tla reads the dumped records and TLC
    evaluates WellFormed on each (verdict = set of failed clauses).  TLC judges a stratified subset of the steps plus
    EVERY tree that a Rust mirror of the predicate rejects; the mirror judges all steps and is cross-checked against
    TLC on everything that is dumped (a disagreement is a tool error).
"""
import json, os, collections, threading
import vlib, btree

LEVEL = "model_checking"
MANIFEST = dict(cat=LEVEL, ref="DESIGN.md 3.8, 6 (C29)",
    tech="TLA+ predicate BTreeShape!WellFormed (nine named clauses: page kinds / pointers, slot area, cells inside, cells disjoint, keys increasing, separators bound subtrees, uniform leaf depth, leaf chain = in-order leaves, no page shared) shown falsifiable clause by clause by TLC on seeded broken trees, and evaluated by TLC (Trace_BTreeShape, ndJsonDeserialize of the harness dump) on abstract trees projected from the real pages after the steps of TLC-generated behaviours of BTreeMap.tla",
    text="after every step of the C28 behaviours (every transition to depth 2/3 over a 6-key universe from seven preloaded trees, every sequence of three inserts into a tree with a full root interior page (interior splits at every child position), unsplittable cells, random walks of 240/120 steps with leaf and interior splits, emptied leaves, three hint modes) the projected tree is well formed: TLC decides it on a stratified subset of the steps (every step of every second (quick) / every (thorough) walk in one hint mode, every 12th/5th step of the other walk replays, the last step of 1 in 12 / 1 in 4 enumerated cases; identical trees are evaluated once) and on every tree the Rust mirror of the predicate rejects; the mirror covers all steps and agrees with TLC on all dumped trees",
    note="the projection (about 150 lines of Rust over the public node accessors) is trusted; only pages reachable from the root by child or next_leaf pointers are judged; dead cell space left by deletes is not a violation (cells of live slots must be inside the cell area and disjoint)")

CLAUSES = ["KindsOk", "SlotAreaOk", "CellsInside", "CellsDisjoint", "KeysIncreasing", "SeparatorsBound", "UniformDepth", "LeafChain", "NoSharing"]
SELFTEST = os.environ.get("VERIF_SELFTEST") == "1"


def nonvacuity_mc(thorough):
    r = vlib.run_tlc("MC_BTreeShape.tla", os.path.join(vlib.SPEC, "MC_BTreeShape.cfg"), workers=1, timeout=600)
    vlib.tlc_ok(r, "MC_BTreeShape")
    if r["violated"]:
        raise vlib.ToolError("BTreeShape: a seeded broken tree is not judged as expected (%s)" % r["violated"])
    named = {}
    if thorough:
        errs = []

        def one(cl):
            try:
                cfg = vlib.scratch() + "/MC_BTreeShape_%s.cfg" % cl
                open(cfg, "w").write('CONSTANT Only = "%s"\nINIT Init\nNEXT Next\nINVARIANTS %s\nCHECK_DEADLOCK FALSE\n' % (cl, " ".join("Inv" + c for c in CLAUSES)))
                rr = vlib.run_tlc("MC_BTreeShape.tla", cfg, workers=1, timeout=600, extra=["-continue"])
                named[cl] = sorted(set(rr["violated"]))
            except Exception as e:  # noqa
                errs.append(e)
        ths = [threading.Thread(target=one, args=(c,)) for c in CLAUSES]
        for i in range(0, len(ths), 3):
            [t.start() for t in ths[i:i + 3]]
            [t.join() for t in ths[i:i + 3]]
        if errs:
            raise errs[0]
        for cl in CLAUSES:
            if named.get(cl) != ["Inv" + cl]:
                raise vlib.ToolError("seeded defect %s: TLC names %s instead of exactly Inv%s" % (cl, named.get(cl), cl))
    return r["stats"], named


def shape_signature(case, r, s):
    """clauses + what the step did (blame from the replay record)"""
    st = s["step"]
    prim = next((d for d in r["div"] if d["step"] == st and d["view"] == "result" and d["op"]["o"] in ("ins", "ifabs", "app", "upd", "del")), None)
    o = s["op"]["o"]
    obs = prim["obs"] if prim else None
    if prim and prim["class"] == "fallback_failed":
        obs = obs[1]
    if s.get("fallback") and o == "upd":
        o = "ins"              # the failing call is the insert of the caller's delete+insert fallback
    err = btree.errnorm(obs)
    clauses = ",".join(sorted(s["failed"]))
    errored = bool(err) or (prim is not None and prim["class"] in ("panic", "failed_but_changed"))
    if err == "separator_key_already_exists":
        cause = "split_separator_already_in_parent"
    elif prim and prim["class"] == "failed_but_changed" and case["steps"][st].get("mayfail"):
        cause = "unsplittable_leaf_split"
    elif s.get("fastpath") and s.get("fastpath_leaf_empty") and not errored and o in ("ins", "app") and case["hint"] != "none":
        cause = "hint_fastpath_insert_into_empty_rightmost_leaf:%s" % o
    else:
        cause = "after_%s:%s:%s" % (o, prim["class"] if prim else "ok", err)
    return "shape:%s:%s" % (clauses, cause)


def run(chk):
    thorough = chk.tier == "thorough"
    chk.assumptions += ["the projection of pages to the abstract tree record (harness/src/btree.rs project) is faithful",
                        "the Rust mirror of WellFormed only filters: every tree it rejects is judged by TLC, and it must agree with TLC on every dumped tree"]
    vlib.scratch()
    mcstats, named = nonvacuity_mc(thorough); chk.mark("tlc_mc")
    P = btree.pipeline(chk, want_shape_tlc=True)
    nv = btree.nonvacuity(P)
    res, cases, ver = P["results"], P["cases"], P["verdicts"]
    distinct_trees = ver.pop("#distinct", len(ver))
    # cross-check mirror vs TLC on every dumped tree
    mism = [(t["id"], sorted(t["mirror"]), ver.get(t["id"])) for t in P["trees"] if sorted(t["mirror"]) != ver.get(t["id"])]
    if mism:
        raise vlib.ToolError("the Rust mirror of WellFormed disagrees with TLC on %d dumped trees, e.g. %s" % (len(mism), mism[:2]))
    if SELFTEST:
        # the check must bind: pretend TLC found a broken tree in a behaviour that is fine
        cid = next(i for i, r in res.items() if not r["shape"] and r["status"] == "ok")
        res[cid]["shape"].append({"step": 0, "op": {"o": cases[cid]["steps"][0]["o"], "k": 1, "v": 1}, "failed": ["SelftestClause"]})
        ver["%d#0" % cid] = ["SelftestClause"]
    per_sig = collections.Counter()
    steps_mirror = sum(r["executed"] for r in res.values())
    bad_cases = 0
    for cid in sorted(res):
        r, c = res[cid], cases[cid]
        for s in r["shape"][:1]:         # the behaviour is abandoned at its first ill-formed tree
            tid = "%d#%d" % (cid, s["step"])
            if tid not in ver:
                raise vlib.ToolError("tree %s was rejected by the mirror but not judged by TLC" % tid)
            if ver[tid] != sorted(s["failed"]):
                raise vlib.ToolError("tree %s: TLC says %s, mirror says %s" % (tid, ver[tid], s["failed"]))
            bad_cases += 1
            sig = shape_signature(c, r, s)
            per_sig[sig] += 1
            tree = next((t["tree"] for t in P["trees"] if t["id"] == tid), None)
            chk.classify(sig, {"case": dict(btree.case_brief(c, s["step"]), id=cid), "step": s["step"], "failed_clauses_by_tlc": ver[tid],
                               "tree": tree, "full_case": {"steps": c["steps"][:s["step"] + 1], "hint": c["hint"], "store": c.get("store", "mmap"), "grp": c["grp"]}})
    chk.mark("judge")
    ok_by_tlc = sum(1 for v in ver.values() if not v)
    chk.cov = {
        "states": mcstats.get("distinct", 0) + len(ver), "transitions": mcstats.get("generated", 0) + len(ver),
        "traces_validated_against_impl": len(ver),
        "trees_judged_by_tlc": len(ver), "distinct_trees_evaluated_by_tlc": distinct_trees, "trees_well_formed_by_tlc": ok_by_tlc, "trees_ill_formed_by_tlc": len(ver) - ok_by_tlc,
        "steps_judged_by_rust_mirror": steps_mirror, "mirror_vs_tlc_disagreements": 0,
        "behaviours": len(cases), "behaviours_with_ill_formed_tree": bad_cases, "signatures": dict(per_sig),
        "seeded_broken_trees": {"clauses": CLAUSES, "each_fails_exactly_its_clause": True, "named_invariant_runs": named},
        "classes": nv, "walks": {k: P["gstats"][k] for k in ("u40", "u20")},
        "verdict_histogram": {",".join(k) or "well_formed": v for k, v in collections.Counter(tuple(v) for v in ver.values()).items()},
        "samples": [P["trees"][0]["tree"]] if P["trees"] else [],
    }
    if not ver:
        raise vlib.ToolError("no tree was judged by TLC")


def replay(chk, path):
    rep = json.load(open(path))["replay"]
    tree = rep.get("tree")
    print("operations:", json.dumps(rep["case"]["ops"]), " hint:", rep["case"]["hint"], " universe:", rep["case"]["grp"])
    tp = vlib.scratch() + "/one_tree.ndjson"
    if tree is None:
        print("no tree stored in the replay file")
        return 2
    vlib.write_ndjson(tp, [{"id": "replay", "tree": tree}])
    r = vlib.run_tlc("Trace_BTreeShape.tla", os.path.join(vlib.SPEC, "Trace_BTreeShape_inv.cfg"), workers=1, timeout=600,
                     env={"TRACE": tp}, extra=["-continue"])
    v = sorted(set(r["violated"]))
    print("TLC on the stored tree: violated invariants:", v)
    # and the behaviour itself once more on the real tree
    import checks.c28 as c28
    fc = rep["full_case"]
    vlib.build_harness()
    cfgs = {"u6": "Gen_BTreeMap_bfs.cfg", "ubig": "Gen_BTreeMap_big.cfg", "u40": "Gen_BTreeMap_walk40.cfg", "u20": "Gen_BTreeMap_walk20.cfg"}
    uni = btree.gen_bfs(cfgs[fc["grp"]], 0, workers=1)[0] if fc["grp"] in ("u6", "ubig") else btree.gen_walks(cfgs[fc["grp"]], 1, 1)[0]
    res, trees = btree.replay([{"id": 0, "steps": fc["steps"], "hint": fc["hint"], "store": fc.get("store", "mmap"), "dump": "last", "grp": fc["grp"]}], uni, "replay", procs=1, jobs=1)
    ver = btree.tlc_shape(trees, procs=1)
    ver.pop("#distinct", None)
    bad = {k: x for k, x in ver.items() if x}
    print("re-executed: TLC verdicts of the ill-formed trees:", bad)
    vlib.cleanup()
    return 1 if (v or bad) else 0

"""C22 - no input makes the library panic, abort or hang.

Grammar.tla is a token-level derivation system for the SQL the parser accepts (statements, clauses, typed
expressions with every operator / function / boundary literal, DDL, transactions, PRAGMA/SET/EXPLAIN) with a
Mutate action (drop / dup / swap / replace / glue / unbalanced parenthesis / truncate, <= 2 times) and a family of
nesting shapes; ApiCalls.tla generates sequences of public API calls labelled with the situation they are made in.
TLC enumerates sentences (breadth-first: every sentence with <= k features; -simulate: deep random derivations) and
emits the admissible outcome classes {ok, err}. Every emitted sentence / sequence is executed on a populated TurDB
database in a child process under a watchdog (harness/src/robust.rs); the observed class must be admissible:
a panic, a dead process (stack overflow, abort) or a missing return is a divergence.
"""
import os, re, json, random, threading, time, collections
import vlib, robust

LEVEL = "exploration"
MANIFEST = dict(cat=LEVEL, ref="DESIGN.md 3.12, 6 (C22)",
    tech="TLA+ derivation system Grammar.tla (token-level SQL grammar + Mutate action + nesting shapes) and call-sequence generator ApiCalls.tla "
         "enumerated by TLC (breadth-first to a feature budget, -simulate for deep random derivations); every emitted sentence / call sequence "
         "executed on a populated TurDB database in a watchdogged child process and the outcome class compared with the spec's Allowed = {ok, err}",
    text="for every generated SQL sentence (valid and <=2-mutation near-valid), nesting shape and API call sequence the call returned Ok or Err "
         "within the watchdog bound; listed panic sites / stack overflows are recorded findings. Bounded by the grammar, the feature budget and the sample",
    note="'all byte strings' is NOT enumerated: only derivations of Grammar.tla, token-level mutations of them, and (Lexical.tla) 59 lexemes of the "
         "lexer's token classes cut / damaged at every piece boundary in 7 statement contexts; lexer robustness beyond that is not claimed. Harness profile: release, panic=unwind, overflow-checks off (arithmetic-overflow aborts "
         "of a debug build are not observable). Hang = no return within the watchdog on 4..5-row tables")

FIXTURE = [
    "CREATE TABLE t (id BIGINT PRIMARY KEY, i INT, s SMALLINT, r REAL, d DOUBLE PRECISION, tx TEXT, vc VARCHAR(10), b BLOB, bo BOOLEAN, dt DATE, tm TIME, ts TIMESTAMP, uu UUID, j JSONB, v VECTOR(3), n DECIMAL(10,2))",
    "INSERT INTO t VALUES (1, 10, 2, 1.5, 2.5, 'hello', 'abc', x'00ff', TRUE, '2024-01-02', '10:11:12', '2024-01-02 10:11:12', '550e8400-e29b-41d4-a716-446655440000', '{\"a\":1,\"b\":[1,2,{\"c\":null}]}', '[1,2,3]', 12.34)",
    "INSERT INTO t (id) VALUES (2)",
    "INSERT INTO t VALUES (3, 2147483647, -32768, -0.0, 1e308, '', 'a%_b', x'', FALSE, '1970-01-01', '00:00:00', '1970-01-01 00:00:00', '00000000-0000-0000-0000-000000000000', '[]', '[0,0,0]', -99999999.99)",
    "INSERT INTO t VALUES (4, -2147483648, 32767, 3.4e38, -1e308, 'héllo wörld \U0001F600', 'zzzzzzzzzz', x'deadbeef', NULL, '9999-12-31', '23:59:59', '9999-12-31 23:59:59', 'ffffffff-ffff-ffff-ffff-ffffffffffff', '\"str\"', '[-1,1e10,0.5]', 0)",
    "CREATE INDEX t_i ON t (i)",
    "CREATE TABLE u (id INT PRIMARY KEY, i INT UNIQUE, tx TEXT NOT NULL, tid BIGINT)",
    "INSERT INTO u VALUES (1, 10, 'x', 1), (2, 20, 'y', 1), (3, NULL, 'hello', 2), (4, 40, '', 9), (5, 50, 'abc', NULL)",
    "CREATE INDEX u_tx ON u (tx)",
    "CREATE TABLE e (id INT PRIMARY KEY, v VECTOR(3))",
    "INSERT INTO e VALUES (1, '[1,2,3]'), (2, '[0,0,1]'), (3, '[3,2,1]'), (4, NULL)",
    "CREATE INDEX e_v ON e USING HNSW (v)",
]
SETUP = {"std": FIXTURE}
WATCHDOG_MS = 15000          # per case in the sweep
CONFIRM_MS = 60000           # a hang / crash is confirmed alone with this bound
VMEM_MB = 1024               # address-space limit of a child: a runaway allocation aborts the child quickly and deterministically
NT_SHAPE = re.compile(r'^<[A-Z][A-Za-z]*>$')


def _cfg(base, **repl):
    txt = open(os.path.join(vlib.SPEC, base)).read()
    for k, v in repl.items():
        new = "%s %s" % (k, v) if str(v).startswith("<-") else "%s = %s" % (k, v)
        txt, n = re.subn(r'\b%s (= (\{[^}]*\}|\S+)|<- \w+)' % k, lambda m: new, txt)
        if n != 1:
            raise vlib.ToolError("cannot set %s in %s" % (k, base))
    path = os.path.join(vlib.scratch(), "%s_%d.cfg" % (base[:-4], abs(hash(json.dumps(repl, sort_keys=True))) % 10 ** 8))
    open(path, "w").write(txt)
    return path


def _tlc_jobs(jobs):
    """run several generating TLC jobs concurrently; jobs: {name: kwargs for vlib.tlc_emit}"""
    out, errs = {}, {}

    def work(name, kw):
        try:
            out[name] = vlib.tlc_emit(**kw)
            out[name].pop("out", None)          # tens of MB of TLC output per job: only the parsed values are needed
        except Exception as e:       # ToolError included
            errs[name] = e
    ths = [threading.Thread(target=work, args=(n, kw)) for n, kw in jobs.items()]
    for t in ths:
        t.start()
    for t in ths:
        t.join()
    if errs:
        n, e = sorted(errs.items())[0]
        raise vlib.ToolError("TLC job %s failed: %s" % (n, e))
    for n, r in out.items():
        if r["violated"]:
            raise vlib.ToolError("generator %s violates its own meta-invariant %s" % (n, r["violated"]))
    return out


def sentence_case(cid, v, src):
    sql = robust.render(v["toks"])
    trail = v.get("trail", [])
    frame = next((("%s.%s" % (t[0], t[1])) for t in trail if t[0] == "<Stmt>"), trail[0][0] if trail else "-")
    deep = next((t for t in trail if t[0] == "<Deep>"), None)
    return {"id": cid, "tpl": "std", "ops": [{"k": "exec", "sql": sql}], "src": src, "muts": v.get("muts", 0),
            "allowed": v["allowed"], "trail": trail, "frame": frame, "deep": deep and [deep[1], deep[2]],
            "mutkinds": [t[1] for t in trail if t[0] == "mut"]}


def lexical_case(cid, v):
    """Lexical.tla: the pieces are concatenated WITHOUT separators (the cut points are inside tokens)"""
    sql = "".join(robust.decode_token(p) for p in v["pieces"])
    trail = [["lex", v["lex"], v["mut"], v["n"]], ["ctx", v["ctx"], 0]]
    return {"id": cid, "tpl": "std", "ops": [{"k": "exec", "sql": sql}], "src": "lex", "muts": 0 if v["mut"] == "whole" else 1,
            "allowed": v["allowed"], "trail": trail, "frame": "lex." + v["ctx"], "deep": None, "mutkinds": [] if v["mut"] == "whole" else ["lex_" + v["mut"]]}


def api_case(cid, v, src):
    hist = v["hist"]
    ops = []
    for h in hist:
        c = dict(h["call"])
        for k in ("ph", "np", "ty"):
            c.pop(k, None)
        c["sit"] = sorted(h["sit"])       # travels with the call (ignored by the harness) so that it survives shrinking
        ops.append(c)
    sits = sorted({s for h in hist for s in h["sit"]})
    return {"id": cid, "tpl": "std", "ops": ops, "src": src, "allowed": hist[-1]["allowed"], "sits": sits,
            "last_sit": sorted(hist[-1]["sit"]), "lastk": hist[-1]["call"]["k"]}


def harness_view(c):
    return {"id": c["id"], "tpl": c["tpl"], "ops": c["ops"]}


def shape_of(case):
    """spec-level description of WHAT was being executed (used in hang / crash signatures)"""
    if case.get("deep"):
        return "deep:" + case["deep"][0]
    if case["src"].startswith("api"):
        return "api:" + case["lastk"]
    return "stmt:" + robust.stmt_kind(case["ops"][-1].get("sql", ""))


FN_CALL = re.compile(r"([A-Za-z_][A-Za-z_0-9]*) [(]")
NOT_FN = {"VALUES", "IN", "EXISTS", "AS", "FROM", "SELECT", "WHERE", "AND", "OR", "NOT", "ON", "USING", "OVER", "FILTER", "CHECK", "KEY", "REFERENCES", "UNIQUE",
          "INTO", "SET", "ANY", "ALL", "SOME", "BY", "THEN", "ELSE", "WHEN", "LATERAL", "JOIN", "TABLE", "EXPLAIN", "CONFLICT", "DECIMAL", "NUMERIC", "VARCHAR", "CHAR", "VECTOR"}


def blame(case, det):
    """spec vocabulary of the (minimised) failing call: nesting shape, or the functions it applies, or its first keyword"""
    if case.get("deep"):
        return "deep:" + case["deep"][0]
    at = det.get("at")
    op = case["ops"][at] if isinstance(at, int) and at < len(case["ops"]) else case["ops"][-1]
    sql = op.get("sql")
    if sql is None:
        return op["k"] + (":" + op["api"] if "api" in op else "")
    if case["src"].startswith("api"):
        # the failing call and, from the spec's situation labels, whether it reads a stored marker-like value
        return robust.first_keyword(sql) + ("@marker" if "read_of_marker_like_value" in op.get("sit", []) else "")
    fns = sorted({m.group(1).upper() for m in FN_CALL.finditer(sql)} - NOT_FN)
    return "+".join(fns[:4]) if fns else robust.first_keyword(sql)


def signature(case, cls, det):
    op = case["ops"][det["at"]] if isinstance(det.get("at"), int) and det["at"] < len(case["ops"]) else None
    if case["src"].startswith("api"):
        where = "api:" + (op["k"] if op else str(det.get("at")))
        if op and op.get("sql") is not None and op["k"] in ("exec", "query", "params", "prepared", "prepare"):
            where = "api:" + robust.stmt_kind(op["sql"])
    else:
        where = robust.stmt_kind(case["ops"][-1]["sql"])
    if cls == "panic":
        return "panic|%s|%s|%s" % (det["site"], robust.msg_class(det["panic"]), where)
    if cls == "crash":
        return "crash|%s|%s" % (robust.crash_name(det), blame(case, det))
    if cls == "hang":
        return "hang|%s" % blame(case, det)
    return "%s|%s" % (cls, where)


def same_defect(sig_a, sig_b):
    """two observations are the same defect when class and site (panic) / class (crash, hang) agree; used while shrinking"""
    a, b = sig_a.split("|"), sig_b.split("|")
    if a[0] != b[0]:
        return False
    return a[1] == b[1] if a[0] == "panic" else True


_tag = [0]
_tag_lock = threading.Lock()


def _run_variants(case, variants, wd, jobs=6):
    with _tag_lock:
        _tag[0] += 1
        tag = "min%d" % _tag[0]
    cs = [{"id": "m%d" % i, "tpl": case["tpl"], "ops": v} for i, v in enumerate(variants)]
    res = robust.run_cases(cs, SETUP, jobs=min(jobs, max(1, len(cs))), watchdog_ms=wd, vmem_mb=VMEM_MB, tag=tag)
    outs = []
    for c, v in zip(cs, variants):
        k, d = robust.classify(res[c["id"]])
        outs.append((k, d, signature(dict(case, ops=v), k, d) if k in ("panic", "crash", "hang") else None))
    return outs


def minimise(case, cls, det, budget_rounds=25):
    """Shrink a confirmed failing case: drop whole calls, then tokens of the failing SQL text (bounded effort)."""
    base = signature(case, cls, det)
    wd = WATCHDOG_MS

    def same(out):
        return out[2] is not None and same_defect(out[2], base)
    ops = list(case["ops"])
    if len(ops) > 1:
        ops = robust.ddmin(ops, lambda cands: [same(o) for o in _run_variants(case, cands, wd)], max_rounds=8)
    idx = next((i for i in range(len(ops) - 1, -1, -1) if ops[i].get("sql")), None)
    if idx is not None and not case.get("deep"):
        toks = ops[idx]["sql"].split(" ")
        if len(toks) <= 400:
            def batch(cands):
                vs = [ops[:idx] + [dict(ops[idx], sql=" ".join(c))] + ops[idx + 1:] for c in cands]
                return [same(o) for o in _run_variants(case, vs, wd)]
            toks = robust.ddmin(toks, batch, max_rounds=budget_rounds)
            ops = ops[:idx] + [dict(ops[idx], sql=" ".join(toks))] + ops[idx + 1:]
    (k, d, s), = _run_variants(case, [ops], CONFIRM_MS)
    if same((k, d, s)):
        return dict(case, ops=ops), k, d
    return case, cls, det


def triage(chk, cands, counts_by_sig):
    """confirm every first-seen divergence alone (one parallel batch, long watchdog), shrink the confirmed ones"""
    items = list(cands.items())
    if not items:
        return {}, []
    confirmed, unconfirmed, work = {}, [], []
    # a panic is an in-process, deterministic observation: when its signature is already a recorded finding there is
    # nothing to confirm or to shrink. Everything else is re-run alone (a dead or silent child may be the machine).
    recheck = []
    for sig, (c, cls, det) in items:
        if cls in ("panic", "crash") and chk.findings.known(sig):
            rep = {"signature": sig, "class": cls, "detail": det, "ops": c["ops"] if len(json.dumps(c["ops"])) < 3000 else "(long)", "tpl": c["tpl"],
                   "src": c["src"], "allowed": c["allowed"], "cases_with_this_signature_in_sweep": counts_by_sig[sig]}
            confirmed[sig] = rep
            for _ in range(counts_by_sig[sig]):
                chk.classify(sig, rep)
        elif cls == "panic":
            work.append((sig, c, cls, det))
        else:
            recheck.append((sig, (c, cls, det)))
    for i in range(0, len(recheck), 6):
        part = recheck[i:i + 6]
        cs = [{"id": "k%d" % (i + n), "tpl": c["tpl"], "ops": c["ops"]} for n, (sig, (c, cls, det)) in enumerate(part)]
        res = robust.run_cases(cs, SETUP, jobs=len(cs), watchdog_ms=CONFIRM_MS, vmem_mb=VMEM_MB, tag="confirm")
        for (sig, (c, cls, det)), cc in zip(part, cs):
            k2, d2 = robust.classify(res[cc["id"]])
            raw = signature(c, k2, d2) if k2 not in c["allowed"] else None
            if raw is None:
                unconfirmed.append(sig)
            elif chk.findings.known(raw):
                rep = {"signature": raw, "class": k2, "detail": d2, "ops": c["ops"] if len(json.dumps(c["ops"])) < 3000 else "(long)", "tpl": c["tpl"],
                       "src": c["src"], "allowed": c["allowed"], "first_seen_as": sig, "cases_with_this_signature_in_sweep": counts_by_sig[sig]}
                confirmed.setdefault(raw, rep)
                for _ in range(counts_by_sig[sig]):
                    chk.classify(raw, rep)
            else:
                work.append((sig, c, k2, d2))
    results = {}

    def job(w):
        sig, c, k, d = w
        try:
            results[sig] = minimise(c, k, d)
        except Exception as e:
            results[sig] = e
    ths = []
    for w in work:
        t = threading.Thread(target=job, args=(w,))
        ths.append(t)
    for i in range(0, len(ths), 5):
        for t in ths[i:i + 5]:
            t.start()
        for t in ths[i:i + 5]:
            t.join()
    for sig, c, k, d in work:
        r = results[sig]
        if isinstance(r, Exception):
            raise vlib.ToolError("minimisation failed for %s: %s" % (sig, r))
        small, k2, d2 = r
        sig2 = signature(small, k2, d2)
        rep = {"signature": sig2, "class": k2, "detail": d2, "ops": small["ops"], "tpl": small["tpl"], "fixture": "lib/checks/c22.py FIXTURE",
               "original_ops": c["ops"] if len(json.dumps(c["ops"])) < 3000 else "(long)", "src": c["src"], "allowed": c["allowed"],
               "first_seen_as": sig, "cases_with_this_signature_in_sweep": counts_by_sig[sig]}
        if len(json.dumps(rep["ops"])) > 6000:
            rep["ops_note"] = "long input; regenerate from the spec: DeepForm%s" % json.dumps(c.get("deep") or c.get("trail", [])[:6])
            rep["ops"] = [dict(o, sql=o["sql"][:300] + " ...(%d chars)" % len(o["sql"])) if len(o.get("sql", "")) > 300 else o for o in rep["ops"]]
            rep["deep"] = c.get("deep")
        confirmed.setdefault(sig2, rep)
        for _ in range(counts_by_sig[sig]):
            chk.classify(sig2, rep)
    return confirmed, unconfirmed


def run(chk):
    thorough = chk.tier == "thorough"
    rng = random.Random(chk.seed)
    chk.assumptions += [
        "harness build profile: release, panic=unwind, overflow-checks=off, debug-assertions=off (what a release user executes, except panic=abort)",
        "each case runs on a private copy of a fixture database (t: one column per type, 4 rows; u: 5 rows, PK + UNIQUE + index; e: vectors + HNSW index)",
        "child process per worker, main-thread stack 8 MiB, address space limited to 1 GiB; hang = no return within %d s (confirmed alone with %d s)" % (WATCHDOG_MS // 1000, CONFIRM_MS // 1000),
        "only derivations of Grammar.tla / ApiCalls.tla, <=2 token-level mutations of them and the lexemes of Lexical.tla cut at their piece boundaries are explored; arbitrary byte strings are not"]
    vlib.build_harness(); chk.mark("build")

    # ------------------------------------------------------------------ generation (TLC)
    w = 4
    all_types = '{"int", "text", "null", "float", "nan", "blob", "vec", "vec2", "bool", "huge", "uuid", "date", "ts"}'
    jobs = {
        # every sentence with <= 1 feature (thorough: <= 2 features, ~1.1 M sentences, sampled), all 26 frames, all nesting shapes
        "bfs": dict(module="MC_Grammar.tla", cfg=_cfg("Gen_Grammar_bfs.cfg", Budget=2 if thorough else 1, DeepN="{64, 1000, 5000, 20000}" if thorough else "{64, 1000, 5000}"),
                    timeout=3400 if thorough else 1500, workers=8 if thorough else w),
        # <= 1 feature + <= 1 boundary value: expression / PRAGMA / SET frames (quick), every frame (thorough)
        "val": dict(module="MC_Grammar.tla", cfg=_cfg("Gen_Grammar_val.cfg", Starts='{"<Stmt>"}') if thorough else os.path.join(vlib.SPEC, "Gen_Grammar_val.cfg"),
                    timeout=3000 if thorough else 900, workers=8 if thorough else w),
        # single mutations of the default sentences (thorough: with the whole junk alphabet)
        "mut": dict(module="MC_Grammar.tla", cfg=_cfg("Gen_Grammar_mut.cfg", JunkTokens="<- Junk") if thorough else os.path.join(vlib.SPEC, "Gen_Grammar_mut.cfg"),
                    timeout=3000 if thorough else 900, workers=w),
        "sim": dict(module="MC_Grammar.tla", cfg=os.path.join(vlib.SPEC, "Gen_Grammar_sim.cfg"), timeout=3000 if thorough else 900, workers=1,
                    simulate="num=%d" % (5000 if thorough else 500), seed=chk.seed, extra=["-depth", "200"]),
        "api": dict(module="MC_ApiCalls.tla", cfg=_cfg("Gen_ApiCalls.cfg", ParamTypes=all_types if thorough else '{"int", "text", "null", "vec", "huge"}'),
                    timeout=3000 if thorough else 900, workers=8 if thorough else w),
        # below the token level: every lexeme of Lexical.tla cut / damaged at every piece boundary, in every context
        "lex": dict(module="MC_Lexical.tla", cfg=os.path.join(vlib.SPEC, "Gen_Lexical.cfg"), timeout=900, workers=2),
        "apisim": dict(module="MC_ApiCalls.tla", cfg=_cfg("Gen_ApiCalls_sim.cfg", MaxCalls=10), timeout=900, workers=1,
                       simulate="num=%d" % (4000 if thorough else 400), seed=chk.seed, extra=["-depth", "14"]),
    }
    gen = _tlc_jobs(jobs); chk.mark("tlc")

    # ------------------------------------------------------------------ cases
    cases, seen = [], set()
    gen_counts = {}
    for src in ("bfs", "bfs2", "val", "mut", "sim"):
        if src not in gen:
            continue
        vals = gen[src]["emitted"]
        gen_counts[src] = len(vals)
        for v in vals:
            bad = [t for t in v["toks"] if NT_SHAPE.match(t)]
            if bad:
                raise vlib.ToolError("grammar emits an undeclared nonterminal %s as a token (typo in Grammar.tla)" % bad[0])
            c = sentence_case("%s%d" % (src[0], len(cases)), v, src)
            key = c["ops"][0]["sql"]
            if key in seen:
                continue
            seen.add(key)
            cases.append(c)
    gen_counts["lex"] = len(gen["lex"]["emitted"])
    for v in gen["lex"]["emitted"]:
        c = lexical_case("l%d" % len(cases), v)
        key = c["ops"][0]["sql"]
        if key in seen:
            continue
        seen.add(key)
        cases.append(c)
    api_all = []
    for src in ("api", "apisim"):
        vals = gen[src]["emitted"]
        gen_counts[src] = len(vals)
        for v in vals:
            c = api_case("a%d" % (len(api_all)), v, src)
            key = json.dumps(c["ops"], sort_keys=True)
            if key in seen:
                continue
            seen.add(key)
            api_all.append(c)
    total_generated = len(cases) + len(api_all)

    # sample (quick tier): everything from bfs, a stratified part of the rest
    def take(items, n, key):
        return vlib.stratified_sample(items, key, n, rng) if len(items) > n else items
    by = collections.defaultdict(list)
    for c in cases:
        by[c["src"]].append(c)
    lim = dict(bfs=80000, bfs2=0, val=40000, mut=30000, sim=10 ** 6) if thorough else dict(bfs=9000, bfs2=0, val=6000, mut=3500, sim=10 ** 6)
    chosen = []
    chosen += take(by["bfs"], lim["bfs"], lambda c: (c["frame"], c["trail"][-1][0] if c["trail"] else "-"))
    chosen += take(by["bfs2"], lim["bfs2"], lambda c: (c["frame"], c["trail"][-1][0] if c["trail"] else "-"))
    chosen += take(by["val"], lim["val"], lambda c: (c["frame"], c["trail"][-1][0] if c["trail"] else "-"))
    chosen += take(by["mut"], lim["mut"], lambda c: (c["frame"], tuple(c["mutkinds"])))
    chosen += by["sim"]
    chosen += by["lex"]          # all of them, in both tiers
    chosen_api = take(api_all, 40000 if thorough else 3000, lambda c: (tuple(c["last_sit"]), c["lastk"]))
    allc = chosen + chosen_api
    byid = {c["id"]: c for c in allc}

    # ------------------------------------------------------------------ execution
    res = robust.run_cases([harness_view(c) for c in allc], SETUP, watchdog_ms=WATCHDOG_MS, vmem_mb=VMEM_MB, tag="c22", timeout=6000)
    chk.mark("execute")

    stats = collections.Counter()
    per_kind = collections.defaultdict(collections.Counter)
    per_src = collections.defaultdict(collections.Counter)
    op_counts = collections.Counter()
    prod_used = collections.Counter()
    sits_seen = collections.Counter()
    parse_err = 0
    cands = collections.OrderedDict()   # signature -> (case, cls, det)
    counts_by_sig = collections.Counter()
    for c in allc:
        cls, det = robust.classify(res[c["id"]])
        if cls == "fatal":
            raise vlib.ToolError("fixture problem in the harness: %s" % det["msg"])
        stats[cls] += 1
        per_src[c["src"]][cls] += 1
        if c["src"].startswith("api"):
            for s in c["sits"]:
                sits_seen[s] += 1
            per_kind["api:" + c["lastk"]][cls] += 1
        else:
            sql = c["ops"][0]["sql"]
            per_kind[robust.first_keyword(sql) if robust.stmt_kind(sql) != "other" else "other"][cls] += 1
            if cls == "err" and ("failed to parse" in det.get("err", "") or "unexpected token" in det.get("err", "") or "expected" in det.get("err", "")[:60]):
                parse_err += 1
                per_src[c["src"]]["parse_err"] += 1
            for t in c["trail"]:
                if t[0] not in ("mut", "<Deep>"):
                    prod_used["%s.%s" % (t[0], t[1])] += 1
            if c["src"] == "bfs" or cls == "ok":
                for tok in set(re.findall(r"<->|<#>|<=>|->>|#>>|->|#>|@>|<@|&&|\|\||::|<<|>>|<=|>=|<>|!=|[-+*/%^&|~=<>]|\b(?:AND|OR|NOT|IS|IN|BETWEEN|LIKE|ILIKE|EXISTS|CASE|CAST|OVER|JOIN|UNION|INTERSECT|EXCEPT)\b", sql)):
                    op_counts[tok] += 1
        if cls not in c["allowed"]:
            sig = signature(c, cls, det)
            counts_by_sig[sig] += 1
            if sig not in cands:
                cands[sig] = (c, cls, det)

    # ------------------------------------------------------------------ triage of divergences
    confirmed, unconfirmed = triage(chk, cands, counts_by_sig)
    chk.mark("triage")
    if unconfirmed:
        chk.notes.append("not reproduced when re-run alone (load-dependent, not reported): " + "; ".join(unconfirmed[:8]))

    # ------------------------------------------------------------------ non-vacuity
    if len(by["lex"]) < 3000:
        raise vlib.ToolError("Lexical.tla produced only %d distinct inputs" % len(by["lex"]))
    plain = [c for c in chosen if c["muts"] == 0 and not c.get("deep") and c["src"] != "lex"]
    plain_ok = sum(1 for c in plain if robust.classify(res[c["id"]])[0] == "ok")
    ratio = plain_ok / max(1, len(plain))
    if ratio < 0.30:
        raise vlib.ToolError("vacuous generator: only %.0f%% of the unmutated sentences execute successfully (need >= 30%%)" % (100 * ratio))
    need_sits = {"use_after_close", "nested_begin", "rollback_without_txn", "commit_without_txn", "rollback_to_unknown_savepoint", "release_unknown_savepoint",
                 "duplicate_savepoint", "too_few_params", "too_many_params", "param_type_mismatch", "prepared_reuse", "ddl_in_txn", "close_in_txn",
                 "no_such_handle", "batch_api", "pragma", "dml_on_dropped_table", "read_of_marker_like_value", "rows_older_than_schema"}
    miss = sorted(need_sits - set(sits_seen))
    if miss:
        raise vlib.ToolError("API generator never reached the situations %s" % miss)
    frames = {c["frame"] for c in chosen if c["src"] == "bfs" and c["frame"].startswith("<Stmt>")}
    if len(frames) < 26:
        raise vlib.ToolError("only %d of 26 statement frames generated" % len(frames))
    mk = collections.Counter(k for c in chosen for k in c["mutkinds"])
    missk = {"drop", "dup", "swap", "replace", "paren", "trunc", "glue"} - set(mk)
    if missk:
        raise vlib.ToolError("mutation kinds never generated: %s" % sorted(missk))
    deep_seen = sorted({c["deep"][0] for c in chosen if c.get("deep")})
    if len(deep_seen) < 20:
        raise vlib.ToolError("only %d nesting shapes generated" % len(deep_seen))

    distinct_nontrivial = sum(1 for c in allc if len(c["ops"]) > 1 or len(c["ops"][0].get("sql", "").split()) >= 4)
    samples = []
    for c in (plain[:1] + [x for x in chosen if x["muts"]][:1] + chosen_api[:1]):
        k, d = robust.classify(res[c["id"]])
        samples.append({"src": c["src"], "ops": [o if len(json.dumps(o)) < 300 else {"k": o["k"], "sql": o.get("sql", "")[:280]} for o in c["ops"]],
                        "allowed": c["allowed"], "observed": k, "detail": {x: (str(y)[:160]) for x, y in d.items()}})
    chk.cov = {
        "evaluations": len(allc), "distinct_nontrivial": distinct_nontrivial,
        "rule": "a case is non-trivial when it is a call sequence of >= 2 calls or a sentence of >= 4 tokens; cases are distinct by SQL text / call list",
        "generated_by_tlc": gen_counts, "distinct_generated": total_generated, "executed": {"sentences": len(chosen), "api_sequences": len(chosen_api)},
        "outcomes": dict(stats), "outcomes_by_source": {k: dict(v) for k, v in per_src.items()},
        "unmutated_sentences": len(plain), "unmutated_executed_ok": plain_ok, "unmutated_ok_ratio": round(ratio, 3), "parse_errors": parse_err,
        "per_statement_keyword": {k: dict(v) for k, v in sorted(per_kind.items())},
        "per_operator_sentences": dict(op_counts.most_common()),
        "productions_used": len(prod_used), "mutation_kinds": dict(mk), "nesting_shapes": deep_seen,
        "api_situations": dict(sits_seen),
        "tlc": {k: {"states": g["stats"].get("distinct"), "generated": g["stats"].get("generated")} for k, g in gen.items()},
        "divergence_signatures": {s: counts_by_sig[s] for s in cands}, "confirmed_signatures": sorted(confirmed),
        "exhaustive": False, "samples": samples,
    }
    if os.environ.get("VERIF_SELFTEST") == "1":
        # binding test: pretend the spec admits only "ok" for one executed error case -> must be reported
        c = next(x for x in allc if robust.classify(res[x["id"]])[0] == "err")
        chk.violation("selftest|err-not-allowed|" + robust.stmt_kind(c["ops"][-1].get("sql", "")), {"ops": c["ops"], "allowed": ["ok"], "observed": "err"})


def replay(chk, path):
    rep = json.load(open(path))["replay"]
    vlib.build_harness()
    ops = rep["ops"]
    if rep.get("deep") and rep.get("ops_note"):
        # the stored text was abbreviated: regenerate the sentence from the specification
        shape, n = rep["deep"]
        g = vlib.tlc_emit("MC_Grammar.tla", _cfg("Gen_Grammar_bfs.cfg", Budget=0, Starts='{"<Deep>"}', DeepN="{%d}" % n), timeout=600, workers=1)
        v = next(x for x in g["emitted"] if x["trail"][0][1] == shape)
        ops = [{"k": "exec", "sql": robust.render(v["toks"])}]
    res = robust.run_cases([{"id": "r", "tpl": rep.get("tpl", "std"), "ops": ops}], SETUP, jobs=1, watchdog_ms=CONFIRM_MS, vmem_mb=VMEM_MB, tag="replay")
    cls, det = robust.classify(res["r"])
    print("ops:", json.dumps(ops)[:2000])
    print("allowed:", rep.get("allowed", ["ok", "err"]), "observed:", cls, json.dumps(det)[:600])
    if cls in rep.get("allowed", ["ok", "err"]):
        print("OK property=C22 replayed case now returns %s" % cls)
        vlib.cleanup()
        return 0
    print("VIOLATION property=C22 replay=%s" % path)
    print("  signature: %s" % rep.get("signature"))
    vlib.cleanup()
    return 1

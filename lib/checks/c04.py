"""C04 - close, reopen and checkpoint preserve the logical database: Reopen / Checkpoint are stuttering steps of
Relational.tla placed anywhere in a history; the full observation afterwards must equal the model's, and statements
after a reopen must behave as the model says. Run with the WAL off and on."""
import relrun, relational as R, vlib
LEVEL = "model_checking"


def relevant(d, hist):
    last = hist[-1]["op"]["k"]
    ops = [h["op"]["k"] for h in hist]
    if last in ("reopen", "checkpoint"):
        return d["kind"] in ("state", "rejects_valid", "panic", "index_vs_scan")
    # a statement after a reopen/checkpoint that misbehaves although the same statement class is fine otherwise
    return ("reopen" in ops or "checkpoint" in ops) and d["kind"] in ("rejects_valid", "accepts_invalid", "affected_count", "panic")


def signature(d, hist):
    op = hist[-1]["op"]
    return "%s:%s:%s" % (d["kind"], op["k"], ",".join(R.features(hist)) or "-")


def focus(c):
    return any(h["op"]["k"] in ("reopen", "checkpoint") for h in c["hist"])


def run(chk):
    wal = [{"k": "exec", "sql": "PRAGMA wal=ON"}]
    # WAL off
    relrun.standard(chk, relevant, signature, focus=focus, quick=(3, 1800), thorough=(4, 30000), walks_quick=(120, 12), walks_thorough=(1200, 20), weighted_walks=True)
    cov_off = chk.cov
    # WAL on (the mode is not persisted: it is switched on again after every reopen)
    relrun.standard(chk, relevant, signature, focus=focus, config_ops=wal, reopen_ops=wal, quick=(3, 1800), thorough=(4, 30000), walks_quick=(120, 12), walks_thorough=(1200, 20), weighted_walks=True)
    cov_on = chk.cov
    # WAL on, checkpoints issued as the statement PRAGMA wal_checkpoint, and automatic checkpoints at practically every
    # commit (threshold 1): the three ways a checkpoint comes about
    auto = wal + [{"k": "exec", "sql": "PRAGMA wal_checkpoint_threshold=1"}]
    R.CHECKPOINT_OPS = [{"k": "exec", "sql": "PRAGMA wal_checkpoint"}]
    try:
        relrun.standard(chk, relevant, signature, focus=focus, config_ops=auto, reopen_ops=auto, quick=(3, 900), thorough=(4, 15000), walks_quick=(60, 12), walks_thorough=(600, 20), weighted_walks=True)
    finally:
        R.CHECKPOINT_OPS = [{"k": "checkpoint"}]
    cov_auto = chk.cov
    chk.cov = dict(cov_on)
    for k in ("traces_validated_against_impl", "behaviours_replayed", "random_walk_steps_replayed", "conforming", "abandoned_prefix_diverged"):
        chk.cov[k] = cov_off[k] + cov_on[k] + cov_auto[k]
    chk.cov["configurations"] = ["wal off, checkpoint() call", "wal on, checkpoint() call", "wal on, PRAGMA wal_checkpoint + automatic checkpoints (threshold 1)"]


def replay(chk, path):
    return relrun.replay_file(chk, path, relevant, signature)

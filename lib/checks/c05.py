"""C05 - DML results match a relational reference model (Relational.tla, per-transition replay + random walks)."""
import relrun, relational as R
LEVEL = "model_checking"


def relevant(d, hist):
    last = hist[-1]
    if last["op"]["k"] not in ("insert", "update", "delete", "truncate"):
        return False
    if d["kind"] == "state" and d.get("basis") == "model_post" and not last["ok"] and set(d.get("queries", [])) == {"count"}:
        return True
    if d["kind"] in ("affected_count", "panic"):
        return True
    # COUNT(*) always equals the number of visible rows (judged on the same database, no model involved)
    if d["kind"] == "index_vs_scan" and "count" in d.get("queries", []):
        return True
    # the statement did what the model says (ok/ok): the visible rows and COUNT(*) must be the model's
    return d["kind"] == "state" and d.get("basis") == "model_post" and last["ok"]


def signature(d, hist):
    op = hist[-1]["op"]
    if d["kind"] == "index_vs_scan":
        if op["k"] == "insert" and len(op["rows"]) > 1 and not hist[-1]["ok"]:
            return "count_differs_from_visible_rows_after_failed_multi_row_insert"
        return "count_differs_from_visible_rows:%s:%s" % (op["k"], ",".join(R.features(hist)) or "-")
    return "%s:%s:%s" % (d["kind"], op["k"] + ("(" + op.get("c", "") + ")" if op["k"] == "update" else ""), ",".join(R.features(hist)) or "-")


def run(chk):
    relrun.standard(chk, relevant, signature)


def replay(chk, path):
    return relrun.replay_file(chk, path, relevant, signature)

"""C05 - DML results match a relational reference model (Relational.tla, per-transition replay + random walks)."""
import relrun, relational as R
LEVEL = "model_checking"


def relevant(d, hist):
    last = hist[-1]
    if last["op"]["k"] not in R.DML:
        return False
    if d["kind"] == "state" and d.get("basis") == "model_post" and not last["ok"] and set(d.get("queries", [])) == {"count"}:
        return True
    if d["kind"] in ("affected_count", "panic", "returning"):
        return True
    # COUNT(*) always equals the number of visible rows (judged on the same database, no model involved)
    if d["kind"] == "index_vs_scan" and "count" in d.get("queries", []):
        return True
    # the statement did what the model says (ok/ok): the visible rows and COUNT(*) must be the model's
    return d["kind"] == "state" and d.get("basis") == "model_post" and last["ok"]


def signature(d, hist):
    op = hist[-1]["op"]
    uc = R.upsert_class(hist)
    if uc:
        return "%s:upsert:%s" % ("count_differs_from_visible_rows" if d["kind"] == "index_vs_scan" else d["kind"], uc)
    if d["kind"] == "index_vs_scan":
        if op["k"] == "insert" and len(op["rows"]) > 1 and not hist[-1]["ok"]:
            return "count_differs_from_visible_rows_after_failed_multi_row_insert"
        return "count_differs_from_visible_rows:%s:%s" % (op["k"], ",".join(R.features(hist)) or "-")
    return "%s:%s:%s" % (d["kind"], R.opname(op), ",".join(R.features(hist)) or "-")


def wide_phase(chk):
    """WideTable.tla: hundreds of rows (several leaves, interior pages), statements on runs of ids; probes through the
    primary-key index, the secondary index and the scan after every step (TLC -simulate walks)."""
    import widetable
    thorough = chk.tier == "thorough"
    hists = widetable.walks(chk, 120 if thorough else 24, 20 if thorough else 12, cap=1500 if thorough else 150)
    outs = widetable.execute(hists)
    probs, st = widetable.judge(hists, outs)
    sigs = {}
    for h, kind, d in probs:
        if kind != "model":
            continue
        sig = "wide:%s:%s" % (d["what"], h[-1]["op"]["k"])
        if d["what"] == "predicate_over_out_of_line_value":
            sig = "wide:predicate_over_out_of_line_value"          # a probe of the state, whatever statement came last
        sigs[sig] = sigs.get(sig, 0) + 1
        chk.classify(sig, {"behaviour": widetable.describe(h), "wide_hist": h, "detail": d})
    if st["steps"] and st["abandoned"] > 0.5 * st["steps"] and not chk.violations:       # (an unlisted divergence explains the loss itself)
        raise vlib.ToolError("more than half of the WideTable steps were abandoned")
    if st["rows_max"] < 150:
        raise vlib.ToolError("WideTable walks never built a table of 150 rows: the phase is vacuous")
    if not st.get("big_pad_rows_max"):
        raise vlib.ToolError("WideTable walks never moved a pad out of line (PadGrow): the large-value part is vacuous")
    chk.cov["wide_table"] = dict(st, walks=len(hists), signatures=sigs, sample=widetable.describe(hists[0]))
    chk.mark("wide_table")


def run(chk):
    import vlib
    globals()["vlib"] = vlib
    _run_small(chk)
    cov = chk.cov
    st = relrun.returning_phase(chk, relevant, signature, max_ops=4 if chk.tier == "thorough" else 3, sample=30000 if chk.tier == "thorough" else 2500)
    chk.cov = cov
    chk.cov["returning"] = st
    chk.mark("returning")
    chk.cov["upsert"] = relrun.upsert_phase(chk, relevant, signature, schema="pk")
    chk.mark("upsert")
    wide_phase(chk)


def _run_small(chk):
    relrun.standard(chk, relevant, signature)


def replay(chk, path):
    import json, widetable
    rep = json.load(open(path))["replay"]
    if "wide_hist" in rep:
        return widetable.replay(chk, rep, "model")
    return relrun.replay_file(chk, path, relevant, signature)

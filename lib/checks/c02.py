"""C02 - crash recovery yields a prefix-consistent database (crash-point enumeration; lib/crashrun.py).
After a crash at any hook event, reopening succeeds and ALL views (table scan, COUNT(*), every index path) equal ONE
Relational state: the acknowledged units, plus the in-flight unit completely or not at all."""
import crashrun
LEVEL = "fault_enumeration"
MANIFEST = dict(cat=LEVEL, ref="DESIGN.md 3.2, 6 (C02)",
    tech="TLA+ reference spec Relational.tla generates workloads (TLC -simulate) and the admissible recovered states; every hook event of the real execution is a crash point materialised in two crash models, reopened and compared with the model",
    text="same crash-point enumeration as C01; each reopened snapshot must open, be readable through every access path, and all views must equal one state S in {acknowledged units, acknowledged units + the in-flight unit} of Relational.tla (a transaction in flight before its COMMIT must vanish completely); the automatic and the streaming (PRAGMA recover_wal) recovery of the same snapshot must agree",
    note="every third snapshot (quick; every snapshot in thorough) is also recovered through the second path - opened in degraded mode by a cfg-only switch, then PRAGMA recover_wal - and both paths must give identical views; assumptions A-FS / A-KILL; crash points only where hooks are; open findings by signature")


def run(chk):
    crashrun.evaluate(chk, "C02")


def replay(chk, path):
    return crashrun.replay_file(chk, path, "C02")

"""C37 - group commit completes every commit exactly once.

(A) TLC on GroupCommit.tla (queue + caller protocol): AckAfterWrite, AtMostOnce, FailureReachesAll, NoStuckFlag and
    NoLostWakeup under weak fairness, with injected write failures; witness run of the pinned caller protocol must still
    produce the early acknowledgement.
(B) every explored transition is a schedule forced on the real GroupCommitQueue; the caller protocol is enacted step by
    step and C37 is evaluated on what is OBSERVED (tags written to the harness-side log vs acknowledgements).
"""
import os, random, json
import vlib

LEVEL = "model_checking"


def run(chk):
    thorough = chk.tier == "thorough"
    chk.assumptions += ["the caller protocol of execute_small_commit is re-enacted by the harness on the bare queue (submit_and_wait_leader, take_pending only as leader, write, complete_batch|fail_batch)",
                        "the WAL write is a harness-side vector; failures are injected where the model's WriteFail fires",
                        "the 30 s wait timeout never fires within a replay"]
    vlib.build_harness(); chk.mark("build")
    mc = vlib.run_tlc("MC_GroupCommit.tla", os.path.join(vlib.SPEC, "MC_GroupCommit.cfg"), coverage=True, timeout=900)
    vlib.tlc_ok(mc, "MC_GroupCommit")
    if mc["violated"]:
        raise vlib.ToolError("GroupCommit model violates %s" % mc["violated"])
    mc3 = None
    if thorough:
        c3 = vlib.scratch() + "/mc3.cfg"
        open(c3, "w").write(open(os.path.join(vlib.SPEC, "MC_GroupCommit.cfg")).read().replace("Threads = {1, 2}", "Threads = {1, 2, 3}"))
        mc3 = vlib.run_tlc("MC_GroupCommit.tla", c3, timeout=1800)
        vlib.tlc_ok(mc3, "MC_GroupCommit 3 threads")
        if mc3["violated"]:
            raise vlib.ToolError("GroupCommit model (3 threads) violates %s" % mc3["violated"])
    pin = vlib.run_tlc("MC_GroupCommit.tla", os.path.join(vlib.SPEC, "MC_GroupCommit_pinned.cfg"), timeout=300)
    vlib.tlc_ok(pin, "MC_GroupCommit_pinned")
    if "AckAfterWrite" not in pin["violated"]:
        raise vlib.ToolError("model of the pinned caller protocol no longer exhibits the early acknowledgement")
    chk.mark("tlc_mc")
    gens = [os.path.join(vlib.SPEC, "Gen_GroupCommit.cfg")]
    if thorough:
        g3 = vlib.scratch() + "/Gen3.cfg"
        open(g3, "w").write(open(gens[0]).read().replace("Threads = {1, 2}", "Threads = {1, 2, 3}").replace("MaxCommitsPerThread = 2", "MaxCommitsPerThread = 1"))
        gens.append(g3)
    cases = []
    for g in gens:
        cases += vlib.tlc_emit("MC_GroupCommit.tla", g, timeout=1500)["emitted"]
    chk.mark("tlc_gen")
    total = len(cases)
    rng = random.Random(chk.seed)
    if not thorough:
        cases = vlib.stratified_sample(cases, lambda c: (c["hist"][-1]["a"], c["hist"][-1]["res"], sum(1 for s in c["hist"] if s["res"] == "wait"), len(c["hist"]) // 4), 1500, rng)
    inp, outp = vlib.scratch() + "/gc_cases.ndjson", vlib.scratch() + "/gc_res.ndjson"
    vlib.write_ndjson(inp, cases)
    vlib.run_vh(["gc-replay", "--in", inp, "--out", outp, "--jobs", vlib.NCPU], timeout=3000)
    res = vlib.read_ndjson(outp); chk.mark("replay")
    ok, kinds = 0, {}
    for r in res:
        if r["kind"] == "ok":
            ok += 1
            continue
        for pr in r["problems"]:
            kinds[pr["kind"]] = kinds.get(pr["kind"], 0) + 1
            sched = [(s["t"], s["a"], s["res"]) for s in r["hist"]]
            rep = {"schedule": r["hist"], "problem": pr}
            if pr["kind"] in ("ack_before_write", "failure_not_reported", "written_twice"):
                chk.violation(pr["kind"], rep)
            elif pr["kind"] in ("committer_never_returns", "stuck_in_take", "stuck_in_complete"):
                chk.violation("committer_waits_forever", rep)
            else:
                chk.stale.append("%s at step %s of %s: %s" % (pr["kind"], pr.get("step"), json.dumps(sched), json.dumps(pr)))
    chk.cov = {
        "states": mc["stats"]["distinct"] + (mc3["stats"]["distinct"] if mc3 else 0),
        "transitions": mc["stats"]["generated"] + (mc3["stats"]["generated"] if mc3 else 0),
        "traces_validated_against_impl": len(res), "schedules_generated_by_tlc": total, "schedules_replayed": len(cases),
        "schedules_followed_exactly": ok, "problem_kinds": kinds,
        "actions_covered": {a: t for a, (d, t) in mc["coverage"].items()},
        "liveness_checked": "NoLostWakeup under WF (2 threads x 2 commits" + ("; 3 threads x 2 commits)" if thorough else ")"),
        "pinned_protocol_counterexample_in_model": True, "exhaustive": thorough,
        "samples": [{"schedule": [(s["t"], s["a"], s["res"]) for s in c["hist"]]} for c in cases[:: max(1, len(cases) // 3)][:3]],
    }

"""C31 - row records round-trip through the record format.

RecordGen.tla is an abstract record store (null set + offset table + fixed slots + payload geometry) with the laws
Read(Build(s,r),i) = r[i] and BuildAfterReset = BuildFresh, and a generator of record SHAPES: every {fixed,variable} x
{NULL,value} pattern up to 6 columns, sampled shapes at the null-bitmap byte boundaries up to 64 columns, every
DataType x every value class x five neighbourhoods, and rows whose payload exceeds the 16-bit offset table.  TLC checks
the laws on every shape it emits (so the enumeration is validated) and the harness (record-run) builds the concrete
record with the real RecordBuilder (typed setters, build / build_into, reset, RecordBuilderState, OwnedValue glue) and
reads it back with the real RecordView (plain getters, *_opt getters, OwnedValue::extract_row_from_record).  The
expected read-back is the identity with the per-type equality stated in the spec.
"""
import json, os, random
import vlib, formats as F

LEVEL = "exploration"
MANIFEST = dict(cat=LEVEL, ref="DESIGN.md 6 (C31 C32 C33)",
    tech="TLA+ generator + abstract record store RecordGen.tla (laws Read(Build)=id, reset=fresh, u16 offset domain checked by TLC "
         "on every emitted shape); every shape built and read back on the real RecordBuilder / RecordView / OwnedValue glue",
    text="identity of build -> read-back (NULLs included) and byte-equality of reset-then-build vs fresh build for all {F,V}x{NULL} "
         "patterns <= 6 columns, bitmap-boundary shapes up to 64 columns, every DataType x value class (sizes 0,1,127/128,16383/16384,40000)",
    note="identity oracle over a finite class set: the TLA+ content is the generator and the algebraic laws, not the byte format; "
         "values between the classes and byte-level layout invariants are not decided")

VIA = {"get": "getters", "opt": "null_or_missing_getters", "glue_read": "null_or_missing_getters", "glue_build_read": "null_or_missing_getters"}
GLUE = {"glue_read", "glue_build_read"}
BAD_READ = ("wrong_value", "read_panic", "read_error", "reads_null", "reads_value", "view_panic", "view_error")


def gen_cfg(salts, max_exh, edge_n, name):
    return F.write_cfg(name, "CONSTANTS Salts = {%s}  MaxExh = %d  EdgeN = {%s}\nSPECIFICATION Spec\nINVARIANT Laws\nINVARIANT MetaSmall\nINVARIANT Emit\nCHECK_DEADLOCK FALSE\n"
                       % (", ".join(map(str, salts)), max_exh, ", ".join(map(str, edge_n))))


def generate(chk):
    thorough = chk.tier == "thorough"
    rng = random.Random(chk.seed)
    salts = sorted(rng.sample(range(0, 23 * 9), 6 if thorough else 1))
    edge_n = [7, 8, 9, 15, 16, 17, 31, 32, 33, 63, 64]
    jobs = [dict(name="exh", module="MC_RecordGen.tla", cfg=gen_cfg(salts, 6, [], "rg_exh.cfg"), timeout=1500),
            dict(name="edge", module="MC_RecordGen.tla", cfg=gen_cfg(salts, 0, edge_n, "rg_edge.cfg"), timeout=1500)]
    res = F.tlc_many(jobs, workers=6 if thorough else 4)
    cases, seen = [], set()
    stats = {}
    for name in ("exh", "edge"):
        stats[name] = res[name]["stats"]
        for c in res[name]["emitted"]:
            key = json.dumps(c, sort_keys=True)
            if key in seen:          # the type / overflow blocks are emitted by both runs
                continue
            seen.add(key)
            c["id"] = len(cases)
            cases.append(c)
    return cases, salts, stats


def shape_of(c):
    return c["shape"]


def judge_case(c, r):
    """-> list of (signature, detail dict)."""
    out = []
    cols = c["cols"]
    fits = c["fits"]
    b = r["builds"]

    def sig(shape, col, val, diff, via):
        return "shape=%s;col=%s;val=%s;diff=%s;via=%s" % (shape, col, val, diff, via)

    # ---- builds
    fresh = b.get("fresh")
    if fresh != "ok":
        if not fits:
            return out                                   # a refusal of a row that does not fit the format is admissible
        kind = "build_panic" if "panic" in fresh else "build_error"
        out.append((sig(shape_of(c), "-", "-", kind, "typed_setters"), {"build": fresh}))
        return out
    for name in ("into", "reset", "state_reset", "desc_order", "glue_reset", "glue_into"):
        v = b.get(name)
        if v in (None, "same", "skipped"):
            continue
        if v == "differs":
            out.append((sig(shape_of(c), "-", "-", "bytes_differ_from_fresh_build", name), {"build": name}))
        elif name.startswith("glue") and c["float4_overrun"] and "panic" in v:
            out.append((sig("float4_slot_at_end_of_fixed_area", "F/Float4", "any", "build_panic", "glue_build"), {"build": v}))
        else:
            out.append((sig(shape_of(c), "-", "-", "build_panic" if "panic" in v else "build_error", name), {"build": v}))
    gf = b.get("glue_fresh")
    if isinstance(gf, dict):
        if c["float4_overrun"] and "panic" in gf:
            out.append((sig("float4_slot_at_end_of_fixed_area", "F/Float4", "any", "build_panic", "glue_build"), {"build": gf}))
        elif fits:
            out.append((sig(shape_of(c), "-", "-", "build_panic" if "panic" in gf else "build_error", "glue_build"), {"build": gf}))
    # ---- read-back
    for d in r["diffs"]:
        i, path, what = d["col"], d["path"], d["what"]
        col = cols[i] if i >= 0 else None
        if not fits:
            # the spec predicts which column a reader of 16-bit offsets gets wrong first
            if i < 0 or i + 1 >= c["first_bad_u16"]:
                out.append((sig("var_payload_over_64KiB", "V", "any", "silent_wrap_of_16bit_offsets", "any"), d))
            else:
                out.append((sig("var_payload_over_64KiB", "%s/%s" % (col["k"], col["ty"]) if col else "-", col["cls"] if col else "-", what + "_before_predicted_column", VIA.get(path, path)), d))
            continue
        if col is None:
            out.append((sig(shape_of(c), "-", "-", what, VIA.get(path, path)), d))
            continue
        zero_img = c["zero_payload_glue"] if path == "glue_build_read" else c["zero_payload"]
        zero_len = col["len"] == 0 or (path == "glue_build_read" and col["cls"] == "cempty")
        if what == "reads_null" and zero_img and zero_len and path in VIA and path != "get":
            out.append((sig("zero_payload", "V", "empty", "reads_null", "null_or_missing_getters"), d))
        elif what == "type_changed:ToastPointer" and col["ty"] == "Blob" and col["cls"] == "toast17" and path in GLUE:
            out.append((sig("any", "V/Blob", "toast17", "type_changed:ToastPointer", "glue"), d))
        elif what == "wrong_value" and col["ty"] == "Float4" and path == "glue_build_read":
            out.append((sig("any", "F/Float4", "nonzero", "wrong_value", "glue_build"), d))
        else:
            out.append((sig(shape_of(c), "%s/%s" % (col["k"], col["ty"]), col["cls"], what, "glue" if path in GLUE else VIA.get(path, path)), d))
    return out


def run(chk):
    thorough = chk.tier == "thorough"
    chk.assumptions += ["per-type equality of RecordGen.tla: floats by bits (any NaN = any NaN), CHAR(n) modulo blank padding, Float4 through the glue widened to f64",
                        "the harness owns the concrete constant of every value class (harness/src/formats.rs `concrete`); their byte lengths are cross-checked with the spec",
                        "rows whose variable payload exceeds 65535 bytes are outside the documented domain of the format (u16 offsets): identity or a refusal is accepted"]
    vlib.build_harness(); chk.mark("build")
    cases, salts, stats = generate(chk); chk.mark("tlc")
    if not cases:
        raise vlib.ToolError("RecordGen emitted no case")
    env = {"VERIF_SELFTEST": "1"} if os.environ.get("VERIF_SELFTEST") == "1" else None
    res = F.run_harness("record-run", cases, "rec", env=env); chk.mark("harness")
    # ---- the generator and the harness must talk about the same values and the same type table
    for c in cases:
        r = res[c["id"]]
        if r["table_mismatch"]:
            raise vlib.ToolError("RecordGen type table disagrees with DataType::fixed_size(): %s" % r["table_mismatch"][:3])
        for col, l in zip(c["cols"], r["lens"]):
            if col["k"] == "V" and not col["null"] and l != col["len"]:
                raise vlib.ToolError("value class %s/%s: spec length %s, harness length %s" % (col["ty"], col["cls"], col["len"], l))
        if c["fits"] and r["len"] is not None and (r["hdr"] != c["hdr"] or r["len"] != c["hdr"] + c["fixed_bytes"] + c["var_bytes"]):
            chk.stale.append("record image of case %d has header %s / size %s, the documented layout gives %s / %s" %
                             (c["id"], r["hdr"], r["len"], c["hdr"], c["hdr"] + c["fixed_bytes"] + c["var_bytes"]))
    # ---- judge
    n_ok = 0
    abandoned = 0
    per_sig = {}
    for c in cases:
        r = res[c["id"]]
        js = judge_case(c, r)
        if not js:
            n_ok += 1
        if any("build_panic" in s for s, _ in js):
            abandoned += 1
        seen = set()
        for s, d in js:
            per_sig[s] = per_sig.get(s, 0) + 1
            if s in seen:
                continue
            seen.add(s)
            chk.classify(s, {"case": c, "observed": {"builds": r["builds"], "diffs": r["diffs"][:8]}, "detail": d})
    chk.mark("judge")
    # ---- non-vacuity: the classes the property names must have been generated
    tycls = {(col["ty"], col["cls"]) for c in cases for col in c["cols"]}
    types = {t for t, _ in tycls}
    ns = {c["n"] for c in cases}
    need_types = 32
    if len(types) != need_types:
        raise vlib.ToolError("only %d of %d DataTypes generated" % (len(types), need_types))
    for n in (1, 2, 3, 4, 5, 6, 7, 8, 9, 15, 16, 17, 31, 32, 33, 63, 64):
        if n not in ns:
            raise vlib.ToolError("no schema with %d columns generated" % n)
    for cls in ("e0", "e1", "e127", "e128", "e16383", "e16384", "large", "NULL"):
        if not any(c2 == cls for _, c2 in tycls):
            raise vlib.ToolError("value class %s never generated" % cls)
    exh = [c for c in cases if c["grp"] == "exh"]
    per_n = {}
    for c in exh:
        per_n.setdefault((c["n"], c["salt"]), set()).add(tuple((col["k"], col["null"]) for col in c["cols"]))
    for (n, sa), pats in per_n.items():
        if len(pats) != 4 ** n:
            raise vlib.ToolError("exhaustive block n=%d salt=%d has %d of %d patterns" % (n, sa, len(pats), 4 ** n))
    nontrivial = sum(1 for c in cases if c["n"] >= 2 and any(col["null"] for col in c["cols"]) and any(not col["null"] for col in c["cols"])
                     and len({col["k"] for col in c["cols"]}) == 2)
    chk.cov = {
        "evaluations": len(cases), "distinct_nontrivial": nontrivial,
        "rule": "a shape is non-trivial when it has >= 2 columns, mixes fixed and variable columns and mixes NULL and non-NULL values",
        "identity_on_every_path": n_ok, "cases_with_a_build_panic(read-back not judged)": abandoned,
        "groups": {g: sum(1 for c in cases if c["grp"] == g) for g in ("exh", "edge", "type", "overflow")},
        "column_counts": sorted(ns), "salts": salts, "datatypes": len(types), "type_x_class_pairs": len(tycls),
        "zero_payload_shapes": sum(1 for c in cases if c["zero_payload"]), "rows_beyond_u16_offsets": sum(1 for c in cases if not c["fits"]),
        "tlc": stats, "per_signature": per_sig, "exhaustive": False,
        "laws_checked_by_tlc": ["LawRead", "LawReset", "LawU16 (fits <=> 16-bit offsets read back)", "MetaSmall (all row pairs, <= 2 columns; reuse without reset differs)"],
        "build_paths": ["typed setters+build", "build_into", "reset", "RecordBuilderState::reset", "descending setter order", "OwnedValue::build_record_from_values",
                        "build_record_with_builder", "build_record_into_buffer"],
        "read_paths": ["is_null+plain getters", "*_opt getters", "OwnedValue::extract_row_from_record"],
        "samples": [{"n": c["n"], "cols": [(col["ty"], col["cls"]) for col in c["cols"]][:8]} for c in cases[:: max(1, len(cases) // 3)][:3]],
    }
    if os.environ.get("VERIF_SELFTEST") == "1" and not chk.violations:
        raise vlib.ToolError("selftest: a deliberately wrong expectation did not produce a violation")


def replay(chk, path):
    rep = json.load(open(path))["replay"]
    vlib.build_harness()
    c = dict(rep["case"]); c["id"] = 0
    r = F.run_harness("record-run", [c], "replay")[0]
    print("case: n=%d grp=%s cols=%s" % (c["n"], c["grp"], [(col["ty"], col["cls"]) for col in c["cols"]]))
    print("builds:", json.dumps(r["builds"]))
    for d in r["diffs"]:
        print("diff:", json.dumps(d))
    js = judge_case(c, r)
    for s in sorted({s for s, _ in js}):
        print("signature:", s)
    vlib.cleanup()
    return 1 if js else 0

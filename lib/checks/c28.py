"""C28 - the B-tree behaves as an ordered map.

(A) TLC checks the reference model BTreeMap.tla against itself (cursors vs lookups, laws of a map, byte order of the
    key universes, RLE order = plain lexicographic order).
(B) behaviours of the model replayed on the real BTree (MmapStorage / memory pages): every transition TLC explores over
    a 6-key universe from seven preloaded trees, every sequence of three inserts into a tree whose root interior page is full (U36: interior splits at every child position) (history hidden by VIEW), every transition over cells that fit a page
    but cannot be split in two, and motif-driven random walks (-simulate) of 240 steps over 40 keys / 120 steps over
    twenty ~3 KB keys, each under the three rightmost-hint modes.  After every step the result and the full content
    (get of every key, cursor first->end, seek(k)->end for every k, last->begin, BTreeReader::get) are compared with
    the model's result and post-state.
Divergences are attributed to the first failing step; what a cursor did wrong is read off the projected tree (blame
localisation: landed past the end of a leaf / stopped at an empty leaf / ...), which gives the signature.
"""
import json, collections, os
import vlib, btree

LEVEL = "model_checking"
MANIFEST = dict(cat=LEVEL, ref="DESIGN.md 3.8, 6 (C28)",
    tech="TLA+ reference model BTreeMap.tla (ordered partial map; Insert/InsertIfAbsent/Append/Update/Delete/Get/ScanFwd/ScanBack with results; key order derived from byte strings) model-checked against its own laws by TLC and explored by TLC (per-transition emission with VIEW, -simulate walks with motifs); every behaviour executed step by step on the real BTree and the result plus the full content compared with the model",
    text="every transition TLC explores to depth 2 (quick) / 3 (thorough) over a 6-key universe (short keys, a shared 4-byte prefix, 1 KB and 3 KB keys; values of 0..6000 bytes so that three cells fill a page) from seven preloaded trees (two/three leaves, emptied left/middle/right leaf, a leaf full of dead cells), every transition over cells that cannot be split in two, and random walks (sorted / reverse / random / equal-prefix / deep motifs; fill, churn, drain-in-key-order phases; insert_append only when its precondition holds) of 240 steps over 40 keys and 120 steps over twenty 3 KB keys (interior splits, three levels), under the hint modes none / fresh / stale: result of every operation, get of every key, cursor from first, from every seek position and backwards from last equal the model",
    note="single tree per file, root page 1; values are runs of one byte; the model's update may be refused for lack of room (the caller's delete+insert fallback is then executed and checked); quick replays a stratified sample of the enumerated transitions; after a divergence that the model can express the tree is brought back to the model's map with ordinary operations (counted), otherwise the behaviour is abandoned (counted)")

MUTATING = ("ins", "ifabs", "app", "upd", "del")
EMPTY_LEAF = {"landed_in_empty_leaf", "next_leaf_empty", "first_leaf_empty", "last_leaf_empty", "prev_leaf_empty", "error_on_empty_leaf"}
SELFTEST = os.environ.get("VERIF_SELFTEST") == "1"


def view_of(d):
    if d["view"] == "result":
        o = d["op"]["o"]
        return {"fwd": "seek" if d["op"]["k"] else "fwd", "back": "back", "get": "get"}.get(o, "result")
    return d["view"]


def step_signatures(case, res, step, divs, shp):
    """signatures of one diverging step -> list of (signature, primary divergence)"""
    prim = next((d for d in divs if d["view"] == "result" and d["op"]["o"] in MUTATING), None)
    state = [d for d in divs if d["view"] in ("get", "reader_get")]
    if prim or shp or state:
        src = prim or shp or state[0]
        o = src["op"]["o"]
        cls = prim["class"] if prim else ("shape" if shp else "get_" + state[0]["class"])
        obs = prim["obs"] if prim else None
        if cls == "fallback_failed":
            obs = obs[1]
        if src.get("fallback") and o == "upd":
            o = "ins"          # the failing call is the insert of the caller's delete+insert fallback
        err = btree.errnorm(obs)
        failed = ",".join(shp["failed"]) if shp else ""
        fp = (prim or shp or {}).get("fastpath") and (prim or shp or {}).get("fastpath_leaf_empty")
        if not fp and state and not prim and not shp:
            fp = state[0].get("fastpath") and state[0].get("fastpath_leaf_empty")
        mstep = case["steps"][step]
        errored = bool(err) or cls in ("panic", "failed_but_changed")
        if err == "separator_key_already_exists":
            # split_leaf is shared by insert / insert_if_not_exists / insert_append: one root cause, one signature
            sig = "split_separator_already_in_parent"
        elif cls == "failed_but_changed" and mstep.get("mayfail"):
            sig = "unsplittable_leaf_split_loses_entries"
        elif fp and not errored and o in ("ins", "app") and case["hint"] != "none":
            # the fast path answers Ok; two code sites (try_fastpath_insert / try_append_fastpath)
            sig = "hint_fastpath_insert_into_empty_rightmost_leaf:%s" % o
        elif o == "upd" and cls == "error" and err.startswith("not_enough_free_space") and any(d["view"] == "get" and d.get("touched") and d["class"] == "missing" for d in divs):
            sig = "update_grow_error_loses_key"
        else:
            sig = "state:%s:%s:%s:%s" % (o, cls, err, failed)
        return [(sig, src)]
    out = []
    for d in divs:
        v, cls, why = view_of(d), d["class"], d.get("why")
        if v == "seek" and cls == "truncated" and why == "landed_past_leaf_end":
            sig = "cursor_seek_landing_past_leaf_end_is_exhausted"
        elif why in EMPTY_LEAF and cls in ("truncated", "error_after_prefix"):
            sig = "cursor_stops_at_empty_leaf:%s" % v
        else:
            sig = "view:%s:%s:%s" % (v, cls, why)
        out.append((sig, d))
    return out


def judge(chk, P):
    res, cases = P["results"], P["cases"]
    per_sig = collections.Counter()
    secondary = 0
    diverged_cases = 0
    for cid in sorted(res):
        r, c = res[cid], cases[cid]
        bystep = collections.defaultdict(list)
        for d in r["div"]:
            bystep[d["step"]].append(d)
        shp = {s["step"]: s for s in r["shape"]}
        if bystep or shp:
            diverged_cases += 1
        for st in sorted(set(bystep) | set(shp)):
            sigs = step_signatures(c, r, st, bystep.get(st, []), shp.get(st))
            secondary += max(0, len(bystep.get(st, [])) - len(sigs))
            seen = set()
            for sig, d in sigs:
                if sig in seen:
                    continue
                seen.add(sig)
                per_sig[sig] += 1
                rep = {"case": dict(btree.case_brief(c, st), id=cid), "step": st, "universe": c["grp"],
                       "divergence": {k: d.get(k) for k in ("view", "key", "class", "why", "exp", "obs", "failed") if k in d},
                       "full_case": {"steps": c["steps"][:st + 1], "hint": c["hint"], "store": c.get("store", "mmap"), "grp": c["grp"]}}
                chk.classify(sig, rep)
    return per_sig, secondary, diverged_cases


def run(chk):
    thorough = chk.tier == "thorough"
    chk.assumptions += ["one tree per scratch file, root at page 1, page 0 never a B-tree page; BFS cases mostly on in-memory pages (same Storage trait), walks and 1 in 12 BFS cases on MmapStorage",
                        "update(k, longer value) may answer false (no room in place) when the key is present; the harness then does what the callers in dml/update.rs do (delete + insert)",
                        "an insert of a cell that fits a page but cannot be split in two may fail cleanly (map unchanged)",
                        "key order, expected results and post-states are printed by TLC; the comparer only takes suffixes / the reverse of the model's entry list"]
    box = {}
    vlib.scratch()

    def mcjob():
        try:
            box["mc"] = btree.model_check(thorough)
        except Exception as e:  # noqa
            box["mc"] = e
    import threading
    th = threading.Thread(target=mcjob); th.start()      # (A) runs while (B) generates and replays
    P = btree.pipeline(chk, want_shape_tlc=False)
    th.join(); chk.mark("tlc_mc_wait")
    if isinstance(box["mc"], Exception):
        raise box["mc"]
    mc = box["mc"]
    if SELFTEST:
        # the check must bind: flip one expected result
        cid = next(i for i, c in P["cases"].items() if c["grp"] == "u6" and c["steps"][-1]["o"] == "del")
        r = P["results"][cid]
        r["div"].append({"step": len(P["cases"][cid]["steps"]) - 1, "op": {"o": "del", "k": 1, "v": 0}, "view": "result", "class": "selftest_flipped_expectation", "exp": True, "obs": False})
    nv = btree.nonvacuity(P)
    per_sig, secondary, diverged = judge(chk, P)
    chk.mark("judge")
    cases = P["cases"]
    distinct = len({json.dumps([c["grp"], c["hint"], [[s["o"], s["k"], s["v"]] for s in c["steps"]]]) for c in cases.values()})
    sample = [btree.case_brief(c) for c in list(cases.values())[:1]] + [dict(btree.case_brief(c), ops=btree.case_brief(c)["ops"][:25]) for c in cases.values() if c["grp"] == "u40"][:1]
    chk.cov = {
        "states": mc["u6"]["distinct"], "transitions": mc["u6"]["generated"],
        "traces_validated_against_impl": len(cases), "distinct_behaviours": distinct,
        "bfs_transitions_generated_by_tlc": P["gstats"]["bfs"]["emitted"], "big_cell_transitions_generated_by_tlc": P["gstats"]["big"]["emitted"],
        "walks": {k: P["gstats"][k] for k in ("u40", "u20")},
        "steps_executed_and_fully_observed": nv["steps_executed"], "classes": nv,
        "behaviours_with_a_divergence": diverged, "signatures": dict(per_sig), "secondary_divergences_attributed_to_a_primary": secondary,
        "model_order_checks": {k: mc[k] for k in ("u40", "u20")},
        "exhaustive": False, "samples": sample,
    }


def replay(chk, path):
    rep = json.load(open(path))["replay"]
    fc = rep["full_case"]
    vlib.build_harness()
    cfgs = {"u6": "Gen_BTreeMap_bfs.cfg", "ubig": "Gen_BTreeMap_big.cfg", "u40": "Gen_BTreeMap_walk40.cfg", "u20": "Gen_BTreeMap_walk20.cfg"}
    # the universe comes from TLC (a depth-0 run prints it)
    if fc["grp"] in ("u6", "ubig"):
        uni, _, _ = btree.gen_bfs(cfgs[fc["grp"]], 0, workers=1)
    else:
        uni, _ = btree.gen_walks(cfgs[fc["grp"]], 1, 1)
    case = {"id": 0, "steps": fc["steps"], "hint": fc["hint"], "store": fc.get("store", "mmap"), "dump": "last", "grp": fc["grp"]}
    res, trees = btree.replay([case], uni, "replay", procs=1, jobs=1)
    r = res[0]
    print("operations:", json.dumps([[s["o"], s["k"], s["v"]] for s in fc["steps"]]))
    print("hint mode:", fc["hint"], " universe:", fc["grp"], " status:", r["status"])
    bystep = collections.defaultdict(list)
    for d in r["div"]:
        bystep[d["step"]].append(d)
    shp = {s["step"]: s for s in r["shape"]}
    found = False
    for st in sorted(set(bystep) | set(shp)):
        for sig, d in step_signatures(case, r, st, bystep.get(st, []), shp.get(st)):
            print("DIVERGENCE step %d  %s" % (st, sig))
            print("   expected:", json.dumps(d.get("exp"))[:300])
            print("   observed:", json.dumps(d.get("obs", d.get("failed")))[:300])
            found = True
    print("reproduced" if found else "not reproduced")
    return 1 if found else 0

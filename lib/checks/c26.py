"""C26 - index key encoding preserves order and is invertible.

spec/KeyOrder.tla defines the order of VALUES (documented type rank of key.rs, per-type value order, column-by-column
order of composite keys, the documented shared key of integer 0 / +0.0 / -0.0, what decoding must return).  TLC
evaluates it on the ~200 representative points of MC_KeyOrder.tla (all pairs), on all 2-tuples over 20 points and all
3-tuples over 8 points, after checking the oracle against the hand-written documented order of the points
(ChainOK), as a total preorder (RankOK) and for equality only in the documented cases (EqualOK).
spec/KeyBits.tla model-checks the bit tricks themselves (two's complement + sign prefix, sign-bit flip, NOT for
negative floats) on an 8-bit instance for all 65 536 pairs.
The harness (harness/src/codec.rs) encodes the same points with turdb::encoding::key (and the Value front ends),
decodes them again, probes every truncated prefix and every first byte; this module compares memcmp of the keys
with TLC's comparison.  The OwnedValue -> key glue of database.rs is private; it is exercised through SQL: for
every SQL-expressible type a table with an index on the column is filled with the points (seeded order) and
`SELECT .. ORDER BY v` (an index scan, verified by EXPLAIN) must return them in TLC's order; the same for a
two-column index."""
import os, json, random, struct, threading
import vlib

LEVEL = "exploration"
MANIFEST = dict(cat=LEVEL, ref="DESIGN.md 3.10, 6 (C26)",
    tech="TLA+ oracle KeyOrder.tla (documented type rank, value order per type, lexicographic composite keys, canonical "
         "decode form) evaluated by TLC over representative points with meta-invariants on the oracle; the bit tricks "
         "model-checked on an 8-bit instance (KeyBits.tla, all pairs); every point / tuple encoded and decoded by "
         "turdb::encoding::key and memcmp compared with the oracle; index order observed through SQL for the private glue",
    text="for ~200 points covering every value kind key.rs encodes (ints at the sign / 2^32 / i64 borders, floats incl. "
         "+-0, +-inf, NaNs, subnormals, text and blobs with 0x00/0x01/0xFF bytes and prefixes of one another, dates, times, "
         "timestamps, timestamptz, intervals, uuids, inet, macaddr, JSON, arrays, tuples, enums, vectors) all pairs, all "
         "2-tuples over 20 points and all 3-tuples over 8 points: bytewise key order = value order, equal keys only for "
         "the documented zero, decode(encode(x)) = x, no panic or over-read on any truncated key or first byte; index "
         "order through SQL (ORDER BY over an indexed column, 9 column types, one composite index) follows the same order",
    note="representative points, not all values (the transforms themselves are model-checked for all pairs at 8 bits); "
         "order between an integer and a float of the same sign is taken from the public prefix constants; INET order "
         "and vectors of different dimension / with NaN are left open; the private glue is observed through SQL only")

SQL_TYPES = {"int": "BIGINT", "float": "DOUBLE", "text": "TEXT", "blob": "BLOB", "bool": "BOOLEAN", "date": "DATE",
             "time": "TIME", "timestamp": "TIMESTAMP", "uuid": "UUID", "vector": None}


# ----------------------------------------------------------------------------------------------- value helpers
def i64_of(p):
    mag = (p[1] << 48) | (p[2] << 32) | (p[3] << 16) | p[4]
    return -mag if p[0] == 1 else mag


def f64_of(p):
    bits = (p[1] << 63) | (p[2] << 52) | (p[3] << 48) | (p[4] << 32) | (p[5] << 16) | p[6]
    return struct.unpack(">d", struct.pack(">Q", bits))[0]


def f32_of(p):
    bits = (p[1] << 31) | (p[2] << 23) | (p[3] << 16) | p[4]
    return struct.unpack(">f", struct.pack(">I", bits))[0]


def fclass(p):
    """spec-level class of an IEEE value <<cls, neg, e, m..>>"""
    if p[0] == 0:
        return "neginf"
    if p[0] == 2:
        return "posinf"
    if p[0] == 3:
        return "nan" if p[1] == 0 else "negnan"
    if all(x == 0 for x in p[2:]):
        return "negzero" if p[1] == 1 else "poszero"
    return "neg" if p[1] == 1 else "pos"


def vclass(v):
    """value class used in signatures: defined on the specification's value, never on bytes"""
    t, p, c = v["t"], v["p"], v["c"]
    if t in ("float", "jnum", "f32"):
        return "%s.%s" % (t, fclass(p))
    if t in ("int", "time", "timestamp"):
        return "%s.%s" % (t, "zero" if i64_of(p) == 0 else "neg" if p[0] == 1 else "pos")
    if t in ("text", "blob", "jstr"):
        feats = [n for n, b in (("00", 0), ("ff", 255)) if b in p]
        return "%s.%s" % (t, "empty" if not p else "+".join(feats) if feats else "plain")
    if t == "vector":
        inner = sorted({fclass(e["p"]) for e in c})
        special = [x for x in inner if x in ("negzero", "nan", "negnan", "neginf", "posinf")]
        return "vector[%s]" % ("+".join(special) if special else "finite")
    if t == "jobj":
        feats = []
        if any(len(kv["p"]) == 0 for kv in c):
            feats.append("emptykey")
        if any(len(kv["p"]) > 0 and kv["p"][0] == 0 for kv in c):
            feats.append("key00")
        inner = {vclass(kv["c"][0]) for kv in c}
        if "jnum.negzero" in inner:
            feats.append("negzero")
        return "jobj[%s]" % ("+".join(feats) if feats else "plain")
    if t in ("jarr", "array", "tuple"):
        inner = {vclass(e) for e in c}
        feats = sorted(x for x in inner if x.endswith("negzero"))
        return "%s[%s]" % (t, "+".join(feats) if feats else "plain")
    return t


def show(v):
    t, p, c = v["t"], v["p"], v["c"]
    if t in ("int", "time", "timestamp"):
        return "%s %d" % (t, i64_of(p))
    if t in ("float", "jnum"):
        return "%s %r" % (t, f64_of(p)) + ("(payload %s)" % p[3:] if p[0] == 3 else "")
    if t == "f32":
        return "%r" % f32_of(p)
    if t in ("text", "jstr"):
        return "%s %r" % (t, bytes(p).decode("utf-8", "replace"))
    if t in ("blob", "uuid", "macaddr"):
        return "%s x'%s'" % (t, bytes(p).hex())
    if t == "jkv":
        return "%r: %s" % (bytes(p).decode("utf-8", "replace"), show(c[0]))
    if c or t in ("vector", "array", "tuple", "jarr", "jobj"):
        return "%s[%s]" % (t, ", ".join(show(e) for e in c))
    return "%s %s" % (t, p)


def blame(x, y):
    """innermost pair of sub-values at the first position where x and y differ (same-shaped containers only)"""
    while x["t"] == y["t"] and x["t"] in ("vector", "array", "tuple", "jarr", "jobj", "jkv") and x["c"] and y["c"]:
        if x["t"] == "jkv" and x["p"] != y["p"]:
            break
        n = next((i for i in range(min(len(x["c"]), len(y["c"]))) if x["c"][i] != y["c"][i]), None)
        if n is None:
            break
        x, y = x["c"][n], y["c"][n]
    return x, y


def diffleaf(exp, got):
    """the innermost expected sub-value that did not come back from decode_key"""
    if not isinstance(got, dict) or got.get("t") != exp["t"]:
        return exp
    if exp["c"] or got.get("c"):
        if len(exp["c"]) != len(got.get("c", [])) or exp["p"] != got.get("p"):
            return exp
        for a, b in zip(exp["c"], got["c"]):
            if a != b:
                return diffleaf(a, b)
    return exp


def raw_bits_cmp(x, y):
    """how two f32 values compare as unsigned big-endian IEEE bit patterns (a named deviation, not an oracle)"""
    bx = (x["p"][1] << 31) | (x["p"][2] << 23) | (x["p"][3] << 16) | x["p"][4]
    by = (y["p"][1] << 31) | (y["p"][2] << 23) | (y["p"][3] << 16) | y["p"][4]
    return -1 if bx < by else 1 if bx > by else 0


def order_sig(prefix, x, y, expected):
    bx, by = blame(x, y)
    if expected == 0:
        return "%s:%s=%s" % ((prefix,) + tuple(sorted((vclass(bx), vclass(by)))))
    lo, hi = (bx, by) if expected < 0 else (by, bx)
    return "%s:%s<%s" % (prefix, vclass(lo), vclass(hi))


def sgn(n):
    return -1 if n < 0 else 1 if n > 0 else 0


def bcmp(a, b):
    return -1 if a < b else 1 if a > b else 0


# ----------------------------------------------------------------------------------------------- SQL rendering
def sql_param(v):
    """sql-run parameter for a specification value, or None when the runner cannot express it"""
    t, p = v["t"], v["p"]
    if t == "null":
        return ("any", None)
    if t == "int":
        return ("int", i64_of(p))
    if t == "float":
        if p[0] == 3 and not (p[1] == 0 and p[3:] == [8, 0, 0, 0]):
            return None                       # NaN payloads cannot be written as text
        return ("float", {"f": repr(f64_of(p))})
    if t == "text":
        return ("text", bytes(p).decode("utf-8"))
    if t == "blob":
        return ("blob", {"b": bytes(p).hex()})
    if t == "bool":
        return ("bool", {"bool": p[0] == 1})
    if t == "date":
        return ("date", {"date": p[0]})
    if t == "time":
        return ("time", {"time": i64_of(p)}) if i64_of(p) >= 0 else None
    if t == "timestamp":
        return ("timestamp", {"ts": i64_of(p)})
    if t == "uuid":
        return ("uuid", {"uuid": bytes(p).hex()})
    return None


def sql_literal(v):
    """SQL literal of the column's own type, or None"""
    t, p = v["t"], v["p"]
    if t == "int" and i64_of(p) > -2 ** 63:
        return str(i64_of(p))
    if t == "float" and p[0] == 1:
        r = repr(f64_of(p))
        return r if ("." in r or "e" in r) else r + ".0"
    if t == "text" and 0 not in p and 39 not in p and 92 not in p:
        return "'" + bytes(p).decode("utf-8") + "'"
    return None


def tlc_jobs(chk, thorough):
    """KeyOrder emission, KeyBits model checking and the KeyBits witness run side by side"""
    out = {}
    errs = []

    def job(name, fn):
        try:
            out[name] = fn()
        except Exception as e:           # re-raised in the main thread
            errs.append((name, e))
    cfg = os.path.join(vlib.scratch(), "Gen_KeyOrder.cfg")
    open(cfg, "w").write("CONSTANTS Sel = {0,1,2,3,4,5,6,7,8,9,10,11}  Seed = %d  RandN = %d\nSPECIFICATION Spec\nCHECK_DEADLOCK FALSE\n"
                         % (chk.seed % 997, 100 if thorough else 12))
    ths = [threading.Thread(target=job, args=("order", lambda: vlib.tlc_emit("MC_KeyOrder.tla", cfg, timeout=1500, workers=8))),
           threading.Thread(target=job, args=("bits", lambda: vlib.run_tlc("KeyBits.tla", os.path.join(vlib.SPEC, "MC_KeyBits.cfg"), workers=4, timeout=1500))),
           threading.Thread(target=job, args=("bits_kf", lambda: vlib.run_tlc("KeyBits.tla", os.path.join(vlib.SPEC, "MC_KeyBits_kf.cfg"), workers=2, timeout=900,
                                                                               extra=["-continue"] if thorough else None)))]
    for t in ths:
        t.start()
    for t in ths:
        t.join()
    if errs:
        raise errs[0][1]
    return out


def run(chk):
    thorough = chk.tier == "thorough"
    selftest = int(os.environ.get("VERIF_SELFTEST", "0") or 0)
    rng = random.Random(chk.seed)
    chk.assumptions += ["points are representative, not exhaustive; the transforms themselves are model-checked for all pairs on an 8-bit instance",
                        "an integer and a float of the same sign are ordered by the public prefix constants (NEG_INT < NEG_FLOAT, POS_FLOAT < POS_INT): the header of key.rs fixes only the sign classes",
                        "interval order is (months, days, micros), timestamptz order is (instant, offset): field order, the header gives no other",
                        "order among INET values, between vectors of different dimension and of vectors containing NaN is not judged",
                        "inside JSON numbers and vectors -0.0 may be kept distinct from +0.0 (directly below it) or share its key",
                        "Database::encode_value_as_key is private: it is observed through index scans (ORDER BY over an indexed column)"]
    vlib.build_harness(); chk.mark("build")
    t = tlc_jobs(chk, thorough); chk.mark("tlc")
    bits, kf, gen = t["bits"], t["bits_kf"], t["order"]
    vlib.tlc_ok(bits, "KeyBits")
    if bits["violated"]:
        raise vlib.ToolError("the 8-bit model of the key transforms violates %s: the transform design itself is not order preserving" % bits["violated"])
    kf_witness = sorted(set(kf["violated"]))
    vals = gen["emitted"]
    pts = sorted([v for v in vals if v["k"] == "pt"], key=lambda v: v["i"])
    t2 = [v for v in vals if v["k"] == "t2"]
    t3 = [v for v in vals if v["k"] == "t3"]
    tc = [v for v in vals if v["k"] == "tc"]
    rps = sorted([v for v in vals if v["k"] == "rp"], key=lambda v: v["i"])
    decodable = set(next(v for v in vals if v["k"] == "prefixes")["decodable"])
    N = len(pts)
    if N < 150 or len(t2) < 300 or len(t3) < 300 or len(tc) < 100 or len(rps) < 50:
        raise vlib.ToolError("TLC emitted too little: %d points, %d 2-tuples, %d 3-tuples" % (N, len(t2), len(t3)))
    if selftest == 1:                                   # flip one oracle clause: text "a" now sorts after "b"
        ia = next(i for i, q in enumerate(pts) if q["v"]["t"] == "text" and q["v"]["p"] == [97])
        ib = next(i for i, q in enumerate(pts) if q["v"]["t"] == "text" and q["v"]["p"] == [98])
        for a, b, c in ((ia, ib, 1), (ib, ia, -1)):
            pts[a]["cmp"][b] = c; pts[a]["cmpt"][b] = c
    # ------------------------------------------------------------------ harness
    cases = [{"id": "p%d" % q["i"], "k": "pt", "v": q["v"]} for q in pts]
    cases += [{"id": "r%d" % q["i"], "k": "pt", "v": q["v"]} for q in rps]
    cases += [{"id": "t2:%d:%d" % tuple(x["ix"]), "k": "row", "cols": x["cols"]} for x in t2]
    cases += [{"id": "t3:%d:%d:%d" % tuple(x["ix"]), "k": "row", "cols": x["cols"]} for x in t3]
    cases += [{"id": "tc:%d:%d" % tuple(x["ix"]), "k": "row", "cols": x["cols"]} for x in tc]
    cases += [{"id": "f%d" % f, "k": "prefix", "b": f} for f in range(256)]
    inp, outp = os.path.join(vlib.scratch(), "k_in.ndjson"), os.path.join(vlib.scratch(), "k_out.ndjson")
    vlib.write_ndjson(inp, cases)
    vlib.run_vh(["key-run", "--in", inp, "--out", outp, "--jobs", min(vlib.NCPU, 8)], timeout=900)
    res = {r["id"]: r for r in vlib.read_ndjson(outp)}; chk.mark("encode")
    if len(res) != len(cases):
        raise vlib.ToolError("harness returned %d results for %d cases" % (len(res), len(cases)))
    stats = {"pairs_judged": 0, "pairs_open": 0, "pairs_equal_expected": 0, "order_divergences": 0, "collisions": 0, "decode_divergences": 0,
             "tuple_pairs_judged": 0, "truncated_prefixes_probed": 0, "first_bytes_probed": 0, "value_rs_pairs_judged": 0,
             "int_float_same_sign_pairs": 0}
    sig_counts = {}

    def report(sig, rep):
        sig_counts[sig] = sig_counts.get(sig, 0) + 1
        chk.classify(sig, rep)

    single_decode_failed = set()
    for pfx, fam in (("p", pts), ("r", rps)):
        # ---- single values: encode / decode
        for q in fam:
            r, v = res[pfx + "%d" % q["i"]], q["v"]
            if "panic" in r and "enc" not in r:
                report("encode:panic:" + vclass(v), {"value": v, "shown": show(v), "panic": r["panic"]})
                continue
            n = len(r["enc"]) // 2
            if not r["appended"]:
                report("encode:not_append_only:" + vclass(v), {"value": v, "shown": show(v)})
            if r["enc_value"] is not None and r["enc_value"] != r["enc"]:
                report("encode_value:differs_from_encode_fn:" + vclass(v), {"value": v, "shown": show(v), "encode_fn": r["enc"], "encode_value": r["enc_value"]})
            for which, cons in (("dec", "consumed"), ("dec_tail", "consumed_tail")):
                d = r[which]
                what = None
                if "panic" in d:
                    what = "panic"
                elif "err" in d:
                    what = "error"
                elif d not in (q["canon"], q["canonz"]):
                    what = "value"
                elif r[cons] != n:
                    what = "consumed"
                if what:
                    stats["decode_divergences"] += 1
                    single_decode_failed.add(json.dumps(v, sort_keys=True))
                    leaf = diffleaf(q["canon"], d) if what == "value" else v
                    report("decode:%s:%s" % (what, vclass(leaf)), {"value": v, "shown": show(v), "key": r["enc"], "decoded": d, "consumed": r[cons], "key_len": n,
                                                                "expected": q["canon"], "with_tail": which == "dec_tail"})
                    break
            pp = r["prefix_probe"]
            stats["truncated_prefixes_probed"] += pp["ok"] + pp["err"] + pp["panic"] + pp["overread"]
            if pp["panic"] or pp["overread"]:
                report("decode:%s_on_truncated_key:%s" % ("panic" if pp["panic"] else "overread", v["t"]), {"value": v, "shown": show(v), "key": r["enc"], "probe": pp})
        # ---- all pairs
        for a in range(len(fam)):
            ra, qa = res[pfx + "%d" % fam[a]["i"]], fam[a]
            if "enc" not in ra:
                continue
            ka = bytes.fromhex(ra["enc"])
            for b in range(len(fam)):
                if a == b:
                    continue
                rb, qb = res[pfx + "%d" % fam[b]["i"]], fam[b]
                if "enc" not in rb:
                    continue
                kb = bytes.fromhex(rb["enc"])
                c = bcmp(ka, kb)
                if qa["v"]["t"] != qb["v"]["t"] and {qa["v"]["t"], qb["v"]["t"]} == {"int", "float"} and qa["cmp"][b] != 0 \
                        and vclass(qa["v"]).split(".")[1][:3] == vclass(qb["v"]).split(".")[1][:3]:
                    stats["int_float_same_sign_pairs"] += 1
                if c == 0 and not qa["same"][b]:
                    stats["collisions"] += 1
                    if a < b:
                        report("distinct:same_key:%s~%s" % tuple(sorted((vclass(qa["v"]), vclass(qb["v"])))),
                               {"x": qa["v"], "y": qb["v"], "shown": [show(qa["v"]), show(qb["v"])], "key": ra["enc"]})
                    continue
                if qa["open"][b]:
                    stats["pairs_open"] += 1
                    continue
                stats["pairs_judged"] += 1
                if qa["cmp"][b] == 0:
                    stats["pairs_equal_expected"] += 1
                if c not in (qa["cmp"][b], qa["cmpt"][b]):
                    stats["order_divergences"] += 1
                    if a < b:
                        report(order_sig("order", qa["v"], qb["v"], qa["cmp"][b]),
                               {"x": qa["v"], "y": qb["v"], "shown": [show(qa["v"]), show(qb["v"])], "expected_cmp": qa["cmp"][b], "key_cmp": c,
                                "key_x": ra["enc"], "key_y": rb["enc"]})
    # ---- the Value::encode_to_key front end (types/value.rs), judged by the same oracle where it applies
    tv = [(i, bytes.fromhex(res["p%d" % q["i"]]["enc_tv"])) for i, q in enumerate(pts) if res["p%d" % q["i"]].get("enc_tv") is not None]
    tv_differs = sorted({pts[i]["v"]["t"] for i, k in tv if k.hex() != res["p%d" % pts[i]["i"]]["enc"]})
    for i, ki in tv:
        for j, kj in tv:
            if i >= j or pts[i]["open"][j]:
                continue
            stats["value_rs_pairs_judged"] += 1
            c = bcmp(ki, kj)
            qa, qb = pts[i], pts[j]
            if c == 0 and not qa["same"][j]:
                report("value_rs:same_key:%s~%s" % tuple(sorted((vclass(qa["v"]), vclass(qb["v"])))), {"shown": [show(qa["v"]), show(qb["v"])], "key": ki.hex()})
            elif c not in (qa["cmp"][j], qa["cmpt"][j]):
                bx, by = blame(qa["v"], qb["v"])
                sig = order_sig("value_rs:order", qa["v"], qb["v"], qa["cmp"][j])
                if bx["t"] == "f32" and by["t"] == "f32" and c == raw_bits_cmp(bx, by):
                    sig = "value_rs:vector:elements_ordered_as_raw_ieee_bits"      # named deviation: no sign transform at all
                report(sig,
                       {"shown": [show(qa["v"]), show(qb["v"])], "expected_cmp": qa["cmp"][j], "key_cmp": c, "key_x": ki.hex(), "key_y": kj.hex()})
    # ---- composite keys: order by rank, column-by-column decode
    canon_of = {json.dumps(q["v"], sort_keys=True): q["canon"] for q in pts}
    for name, tups in (("t2", t2), ("t3", t3), ("tc", tc)):
        keyed = []
        for x in tups:
            r = res[name + ":" + ":".join(map(str, x["ix"]))]
            if "enc" not in r:
                report("encode:panic:composite", {"cols": x["cols"], "panic": r.get("panic")})
                continue
            keyed.append((x, bytes.fromhex(r["enc"]), r))
            exp = [canon_of.get(json.dumps(c, sort_keys=True), c) for c in x["cols"]]
            if r["dec_cols"] != exp or r["consumed"] != len(r["enc"]) // 2:
                # a column that already fails to decode on its own is reported there, with its own signature
                if any(json.dumps(c, sort_keys=True) in single_decode_failed for c in x["cols"]):
                    stats["composite_decodes_skipped_behind_single_value_finding"] = stats.get("composite_decodes_skipped_behind_single_value_finding", 0) + 1
                    continue
                kbad = next((n for n in range(len(exp)) if n >= len(r["dec_cols"]) or r["dec_cols"][n] != exp[n]), len(exp) - 1)
                report("decode:composite:col%d:%s" % (kbad + 1, vclass(x["cols"][kbad])), {"cols": [show(c) for c in x["cols"]], "key": r["enc"], "decoded": r["dec_cols"], "expected": exp})
        for i, (x, kx, _) in enumerate(keyed):
            for y, ky, _ in keyed[i + 1:]:
                stats["tuple_pairs_judged"] += 1
                c, e = bcmp(kx, ky), sgn(x["rank"] - y["rank"])
                if c != e:
                    # blame the first column in which the two rows differ
                    k = next((n for n in range(len(x["cols"])) if x["cols"][n] != y["cols"][n]), 0)
                    report(order_sig("composite:order:col%d" % (k + 1), x["cols"][k], y["cols"][k], e if k < len(x["cols"]) else 0),
                           {"x": [show(c) for c in x["cols"]], "y": [show(c) for c in y["cols"]], "expected_cmp": e, "key_cmp": c, "key_x": kx.hex(), "key_y": ky.hex()})
    # ---- every first byte
    for f in range(256):
        for pr in res["f%d" % f]["probes"]:
            stats["first_bytes_probed"] += 1
            if pr["kind"] == "panic":
                report("decode:panic_on_first_byte:%s" % ("decodable" if f in decodable else "unknown"), {"first_byte": f, "probe": pr})
            elif pr["kind"] == "ok" and (f not in decodable or not (1 <= pr["consumed"] <= pr["len"])):
                report("decode:accepts_undocumented_prefix" if f not in decodable else "decode:overread_on_first_byte", {"first_byte": f, "probe": pr})
    chk.mark("judge")
    # ------------------------------------------------------------------ SQL: index order through the private glue
    sql_stats = sql_part(chk, pts, t2, rng, report, thorough)
    chk.mark("sql")
    tags = sorted({q["v"]["t"] for q in pts})
    nontrivial = sum(1 for q in pts if q["v"]["t"] != "null")
    chk.cov = {
        "evaluations": stats["pairs_judged"] + stats["tuple_pairs_judged"] + N + stats["truncated_prefixes_probed"] + stats["first_bytes_probed"] + sql_stats["rows_checked"],
        "distinct_nontrivial": nontrivial + len({json.dumps(q["v"], sort_keys=True) for q in rps}) + len(t2) + len(t3) + len(tc),
        "rule": "a case is a point or a composite row of MC_KeyOrder.tla (all distinct by construction, counted once each; NULL alone is trivial); "
                "every ordered pair of points and every pair of equal-arity rows is compared",
        "points": N, "seeded_points": len(rps), "value_kinds": tags, "tuples2": len(t2), "tuples3": len(t3), "container_rows": len(tc), **stats,
        "oracle_meta_checks": ["AllWF", "NonVacuous", "ChainOK", "EqualOK", "RankOK", "RefineOK", "TupRankOK"],
        "bit_trick_model": {"states": bits["stats"].get("distinct"), "invariants": ["MasksAreXor", "IntOrderOK", "IntRoundTrip", "FlipOrderOK", "FlipRoundTrip", "FloatOrderOK",
                            "FloatRoundTrip", "IntFloatOK", "VecOrderOKExceptNegZero", "VecRoundTripExcept"], "violated": bits["violated"]},
        "negzero_witness_in_model": kf_witness,
        "value_rs_tags_encoded_differently_from_key_rs": tv_differs,
        "sql": sql_stats, "signatures": sig_counts, "selftest": selftest, "exhaustive": False,
        "samples": [{"x": show(pts[a]["v"]), "y": show(pts[b]["v"]), "expected_cmp": pts[a]["cmp"][b], "key_x": res["p%d" % pts[a]["i"]].get("enc"), "key_y": res["p%d" % pts[b]["i"]].get("enc")}
                    for a, b in ((5, 20), (25, 26), (60, 61), (N - 30, N - 3))]
                   + [{"row": [show(c) for c in t2[7]["cols"]], "rank": t2[7]["rank"], "key": res["t2:%d:%d" % tuple(t2[7]["ix"])].get("enc")}],
    }
    if not kf_witness:
        chk.notes.append("the 8-bit model no longer exhibits the negative-zero defect of the vector / JSON-number transform: %s" % kf_witness)


def sql_part(chk, pts, t2, rng, report, thorough):
    """index order through Database (encode_value_as_key): ORDER BY over an indexed column"""
    by_type = {}
    for i, q in enumerate(pts):
        sp = sql_param(q["v"])
        if sp and sp[0] != "any":
            by_type.setdefault(sp[0], []).append((i, sp[1]))
    cases = []
    meta = {}
    for typ, items in sorted(by_type.items()):
        items = list(items)
        rng.shuffle(items)
        ops = [{"k": "exec", "sql": "CREATE TABLE t (id INT PRIMARY KEY, v %s)" % SQL_TYPES[typ]}, {"k": "exec", "sql": "CREATE INDEX t_v ON t (v)"}]
        ids = {}
        for n, (i, val) in enumerate(items + [(None, None)]):          # one NULL row as well
            ids[n + 1] = i
            ops.append({"k": "params", "sql": "INSERT INTO t VALUES (?, ?)", "params": [n + 1, val]})
        ops += [{"k": "exec", "sql": "EXPLAIN SELECT id FROM t ORDER BY v"}, {"k": "query", "sql": "SELECT id FROM t ORDER BY v"}]
        if thorough:
            ops += [{"k": "reopen"}, {"k": "query", "sql": "SELECT id FROM t ORDER BY v"}]
        cid = "col:" + typ
        cases.append({"id": cid, "ops": ops})
        meta[cid] = ("single", ids)
        # point lookups through the index with a literal of the column's type: the planner's literal -> key encoder
        # (sql/planner/encoding.rs) must produce the key the glue stored
        lits = [(i, sql_literal(pts[i]["v"])) for i, _ in items if sql_literal(pts[i]["v"]) is not None]
        if lits:
            lops = list(ops[:2 + len(ids)]) + [{"k": "exec", "sql": "EXPLAIN SELECT id FROM t ORDER BY v"}]
            for _, lit in lits:
                lops += [{"k": "exec", "sql": "EXPLAIN SELECT id FROM t WHERE v = %s" % lit}, {"k": "query", "sql": "SELECT id FROM t WHERE v = %s" % lit}]
            cases.append({"id": "lookup:" + typ, "ops": lops})
            meta["lookup:" + typ] = ("lookup", (ids, lits))
    # composite (TEXT, DOUBLE) index: the 2-tuples whose columns are text/NULL and float/NULL
    rows = [x for x in t2 if x["cols"][0]["t"] in ("text", "null") and x["cols"][1]["t"] in ("float", "null") and sql_param(x["cols"][1])]
    rng.shuffle(rows)
    ops = [{"k": "exec", "sql": "CREATE TABLE t (id INT PRIMARY KEY, a TEXT, b DOUBLE)"}, {"k": "exec", "sql": "CREATE INDEX t_ab ON t (a, b)"}]
    ids = {}
    for n, x in enumerate(rows):
        ids[n + 1] = x
        ops.append({"k": "params", "sql": "INSERT INTO t VALUES (?, ?, ?)", "params": [n + 1, sql_param(x["cols"][0])[1], sql_param(x["cols"][1])[1]]})
    ops += [{"k": "exec", "sql": "EXPLAIN SELECT id FROM t ORDER BY a"}, {"k": "query", "sql": "SELECT id FROM t ORDER BY a"}]
    cases.append({"id": "composite:text,float", "ops": ops})
    meta["composite:text,float"] = ("composite", ids)
    inp, outp = os.path.join(vlib.scratch(), "s_in.ndjson"), os.path.join(vlib.scratch(), "s_out.ndjson")
    vlib.write_ndjson(inp, cases)
    vlib.run_vh(["sql-run", "--in", inp, "--out", outp, "--jobs", min(vlib.NCPU, 8)], timeout=900)
    st = {"tables": len(cases), "rows_checked": 0, "via_index": [], "not_via_index": [], "insert_errors": {}}
    for r in vlib.read_ndjson(outp):
        kind, ids = meta[r["id"]]
        lits = None
        if kind == "lookup":
            ids, lits = ids
        rs = r["res"]
        bad = [x for x in rs[2:2 + len(ids)] if "ok" not in x]
        if "ok" not in rs[0] or "ok" not in rs[1]:
            st["not_via_index"].append(r["id"] + ":ddl_failed")
            continue
        if bad:
            st["insert_errors"][r["id"]] = len(bad)
        explain = next((x for x in rs if isinstance(x.get("ok"), dict) and x["ok"].get("type") == "explain"), None)
        if not explain or "IndexScan" not in explain["ok"]["plan"] or "Sort" in explain["ok"]["plan"]:
            st["not_via_index"].append(r["id"])
            continue
        st["via_index"].append(r["id"])
        if kind == "lookup":
            inserted = {n: ids[n] for n, x in zip(sorted(ids), rs[2:2 + len(ids)]) if "ok" in x and ids[n] is not None}
            tail = rs[3 + len(ids):]
            for (i, lit), ex, qres in zip(lits, tail[0::2], tail[1::2]):
                if not (isinstance(ex.get("ok"), dict) and "IndexScan" in ex["ok"].get("plan", "")):
                    st["lookups_not_via_index"] = st.get("lookups_not_via_index", 0) + 1
                    continue
                if "rows" not in qres:
                    st["literals_rejected"] = st.get("literals_rejected", 0) + 1
                    if "panic" in qres:
                        report("sql:panic:" + r["id"], {"table": r["id"], "literal": lit, "panic": qres["panic"]})
                    continue
                st["lookups_checked"] = st.get("lookups_checked", 0) + 1
                got = sorted(row[0] for row in qres["rows"])
                exp = sorted(n for n, j in inserted.items() if pts[i]["cmp"][j] == 0)
                if got != exp:
                    report("sql:index_lookup:%s:%s" % ("misses_row" if set(exp) - set(got) else "extra_row", vclass(pts[i]["v"])),
                           {"table": r["id"], "sql": "SELECT id FROM t WHERE v = %s" % lit, "returned": got, "expected": exp,
                            "stored": {n: show(pts[j]["v"]) for n, j in inserted.items() if n in set(got) | set(exp)}})
            continue
        for qres in [x for x in rs if "rows" in x or "panic" in x]:
            if "panic" in qres:
                report("sql:panic:" + r["id"], {"table": r["id"], "panic": qres["panic"]})
                continue
            got = [row[0] for row in qres["rows"]]
            inserted = [n for n, x in zip(sorted(ids), rs[2:2 + len(ids)]) if "ok" in x]
            st["rows_checked"] += len(got)
            if sorted(got) != inserted:
                report("sql:index_scan_loses_or_repeats_rows:" + r["id"], {"table": r["id"], "returned": got, "inserted": inserted})
                continue
            for g1, g2 in zip(got, got[1:]):
                if kind == "single":
                    a, b = ids[g1], ids[g2]
                    if a is None or b is None:
                        c = 0 if a is b else (-1 if a is None else 1)      # NULL is the lowest type rank
                        va, vb = (pts[a]["v"] if a is not None else {"t": "null", "p": [], "c": []}), (pts[b]["v"] if b is not None else {"t": "null", "p": [], "c": []})
                    else:
                        c, va, vb = pts[a]["cmp"][b], pts[a]["v"], pts[b]["v"]
                    if c > 0:
                        report("sql:index_order:%s<%s" % (vclass(vb), vclass(va)), {"table": r["id"], "earlier": show(va), "later": show(vb), "expected": "later row sorts before earlier row"})
                else:
                    x, y = ids[g1], ids[g2]
                    if x["rank"] > y["rank"]:
                        k = next((n for n in range(2) if x["cols"][n] != y["cols"][n]), 0)
                        report("sql:composite_index_order:col%d:%s<%s" % (k + 1, vclass(y["cols"][k]), vclass(x["cols"][k])),
                               {"table": r["id"], "earlier": [show(c) for c in x["cols"]], "later": [show(c) for c in y["cols"]]})
    if len(st["via_index"]) < 5:
        raise vlib.ToolError("ORDER BY over an indexed column is no longer planned as an index scan (%s): the glue is not observed" % st)
    return st


def replay(chk, path):
    """re-encode the values of a stored divergence on the current tree and print the comparison"""
    rep = json.load(open(path))["replay"]
    vlib.build_harness()
    vs = [rep[k] for k in ("x", "y", "value") if isinstance(rep.get(k), dict)]
    if not vs:
        print("replay data holds no single values (SQL / composite case):", json.dumps(rep)[:2000])
        vlib.cleanup()
        return 2
    inp, outp = os.path.join(vlib.scratch(), "r_in.ndjson"), os.path.join(vlib.scratch(), "r_out.ndjson")
    vlib.write_ndjson(inp, [{"id": "p%d" % i, "k": "pt", "v": v} for i, v in enumerate(vs)])
    vlib.run_vh(["key-run", "--in", inp, "--out", outp, "--jobs", 1])
    res = {r["id"]: r for r in vlib.read_ndjson(outp)}
    for i, v in enumerate(vs):
        r = res["p%d" % i]
        print("%-40s key=%s decoded=%s" % (show(v), r.get("enc"), json.dumps(r.get("dec"))[:200]))
    rc = 0
    if len(vs) == 2 and "expected_cmp" in rep:
        c = bcmp(bytes.fromhex(res["p0"]["enc"]), bytes.fromhex(res["p1"]["enc"]))
        print("expected cmp %s, key cmp %s" % (rep["expected_cmp"], c))
        rc = 1 if c != rep["expected_cmp"] else 0
    elif "expected" in rep:
        rc = 1 if res["p0"].get("dec") != rep["expected"] else 0
    print("VIOLATION-REPRODUCED" if rc else "not reproduced on this tree")
    vlib.cleanup()
    return rc

"""C35 - the page cache never evicts pinned pages or mixes contents.

(A) TLC on PageCache.tla (one SIEVE shard of capacity 2 with keys k1..k3, optionally a second shard, budget counter):
    the REPAIRED design is model-checked exhaustively at both granularities - whole calls of 2 and of 3 logical threads,
    and the real windows (get_or_insert = fast;slow, clear = len;shard*;release) for 2 threads - against PinnedStays,
    PinAccounting, DataIsLastWrite, WithinCapacity, BudgetMatches, BudgetZeroWhenEmpty (and the two proposed budget repairs
    alone against the budget properties); three witness runs of the design AS THE CODE HAS IT must still find the recorded
    counterexamples; the as-is design satisfies the "unless" invariants
    that attribute every violation to a named deviation (checked while generating).
(B) every transition TLC explores of the as-is design is a call sequence / schedule with expected results and an expected
    final observation; the harness executes it on a real PageCache::with_budget (call level: one OS thread, logical threads
    own PageRefs; fine-grained: puppeteer at the proposed hook points, skipped when they are not compiled in), judges the
    property on the real observations after every step and compares the final state with the model.
(C) free-running 3-thread stress and a clear()-vs-get_or_insert race, judged on schedule-independent facts only.
"""
import os, re, json, subprocess, tempfile, shutil, concurrent.futures
import vlib

LEVEL = "model_checking"
MANIFEST = dict(cat=LEVEL, ref="DESIGN.md 3.6, 6 (C35)",
    tech="TLA+ spec PageCache.tla (SIEVE shard, pins, budget counter; call-level and fine-grained actions; repaired and as-is "
         "designs) model-checked exhaustively by TLC; every transition TLC explores of the as-is design is replayed on the real "
         "PageCache/MemoryBudget (single-threaded for whole calls, puppeteer at hook points for the windows) with the property "
         "judged on real observations after every step and the final state compared with the model; seeded free-running stress",
    text="for one shard of capacity 2 with 3 keys (+1 key on a second shard), 2-3 logical threads and 2-4 calls per thread: a page "
         "pinned by a live PageRef stays cached, every cached key shows the last stamp written for it, no shard exceeds its "
         "capacity, the Cache pool equals pages cached at quiescent points and returns to the ballast when the cache is emptied - "
         "up to the recorded findings, each of which is a named deviation of the model reproduced on the code",
    note="len() and evict_all_unpinned() are single steps in the model; the fine-grained schedules need "
         "proposed/C35-cache-hooks.diff (otherwise fine_grained_replayed is false and only the free-running race exercises the "
         "windows); pin counts are observed only through behaviour; x86-64 memory model")

MC_CFGS = ["MC_PageCache_call2", "MC_PageCache_call3", "MC_PageCache_fine2", "MC_PageCache_fine2_budgetfix"]
WITNESS = {"MC_PageCache_witness_pinned": "PinnedStays", "MC_PageCache_witness_initleak": "BudgetMatches",
           "MC_PageCache_witness_clearlen": "BudgetZeroWhenEmpty"}
GEN_CFGS = ["Gen_PageCache_call2", "Gen_PageCache_call2_b1", "Gen_PageCache_call3", "Gen_PageCache_fine2"]
# thorough tier: deeper bounds (text substitutions on the committed configs)
THOROUGH = {"MC_PageCache_call2": ("MaxCalls = 3", "MaxCalls = 4"), "MC_PageCache_call3": ("MaxCalls = 2", "MaxCalls = 3"),
            "MC_PageCache_fine2": ("MaxCalls = 2", "MaxCalls = 3"), "MC_PageCache_fine2_budgetfix": ("MaxCalls = 2", "MaxCalls = 3"),
            "Gen_PageCache_call2": ("MaxCalls = 3", "MaxCalls = 4"), "Gen_PageCache_fine2": ("MaxCalls = 2", "MaxCalls = 3")}
# classes the property names and the model must generate (non-vacuity); fine: only meaningful when generated at all
NEED = ["get/hit", "get/miss", "goi/hit", "goi/inserted", "goi/err_full", "goi/err_budget", "goi/err_init", "write/ok", "write/panic",
        "unpin/ok", "clear/ok", "evict_all/ok", "removes:goi", "removes:clear", "removes:evict_all",
        "fine:goi/-", "fine:goi_slow/hit", "fine:goi_slow/inserted", "fine:goi_slow/err_full", "fine:clear_len/-", "fine:clear_shard/-",
        "fine:clear_release/ok", "fine:removes:goi_slow", "fine:removes:clear_shard",
        "dev:clear_dropped_pinned", "dev:evicted_live_ref", "dev:stale_unpin_hit_other_entry"]
# (dev:init_error_leak and dev:clear_stale_len were repaired in /repo - a0d35e6, 0678969 - and the generating configs now
#  run with ReleaseOnInitError / ClearCountsUnderLock = TRUE, so those deviations are no longer generated)


def tlc_to_file(cfg_path, outfile, workers=3, timeout=1500, coverage=False):
    """TLC with stdout in a file (the emitted lines go straight to the harness); returns stats parsed from the other lines."""
    md = tempfile.mkdtemp(prefix="tlc.", dir=vlib.scratch())
    cmd = ["tlc", "-metadir", md, "-cleanup", "-noGenerateSpecTE", "-workers", str(workers)]
    if coverage:
        cmd += ["-coverage", "1"]
    cmd += ["-config", cfg_path, "MC_PageCache.tla"]
    env = dict(os.environ, JAVA_TOOL_OPTIONS="-Xss512m")
    try:
        with open(outfile, "w") as f:
            p = subprocess.run(cmd, stdout=f, stderr=subprocess.STDOUT, cwd=vlib.SPEC, env=env, timeout=timeout)
    except subprocess.TimeoutExpired:
        raise vlib.ToolError("TLC timed out after %ss on %s" % (timeout, cfg_path))
    finally:
        shutil.rmtree(md, ignore_errors=True)
    other, emitted = [], 0
    with open(outfile, errors="replace") as f:
        for line in f:
            if line.startswith('<<"T"'):
                emitted += 1
            else:
                other.append(line)
    out = "".join(other)
    res = {"rc": p.returncode, "out": out, "stats": vlib.parse_tlc_stats(out), "coverage": vlib.parse_coverage(out) if coverage else {},
           "violated": re.findall(r"Error: Invariant (\w+) is violated", out) + re.findall(r"Error: Action property (\w+) is violated", out),
           "emitted": emitted, "cmd": " ".join(cmd)}
    if p.returncode != 0 and not res["violated"]:
        res["error"] = out[-3000:]
    return res


def cfg_for(name, thorough):
    path = os.path.join(vlib.SPEC, name + ".cfg")
    if thorough and name in THOROUGH:
        a, b = THOROUGH[name]
        txt = open(path).read()
        if a not in txt:
            raise vlib.ToolError("config %s no longer contains %r" % (name, a))
        path = os.path.join(vlib.scratch(), name + "_thorough.cfg")
        open(path, "w").write(txt.replace(a, b))
    return path


def run_models(thorough):
    jobs = {}
    sc = vlib.scratch()
    with concurrent.futures.ThreadPoolExecutor(max_workers=6) as ex:
        for n in MC_CFGS + list(WITNESS) + GEN_CFGS:
            jobs[n] = ex.submit(tlc_to_file, cfg_for(n, thorough), os.path.join(sc, n + ".out"), 3, 1750 if thorough else 1500)
    res = {}
    for n, j in jobs.items():
        r = j.result()
        vlib.tlc_ok(r, n)
        res[n] = r
    return res


def sig_of(problem, case, agree):
    """spec-defined signature of a property-level problem observed on the real cache at the last step of a case"""
    kind = problem["kind"]
    obs = case["obs"]
    dev = set(obs.get("dev", []))
    if kind == "pinned_lost":
        held = obs["held"].get("t%d" % problem["t"], [])
        mlost = held[problem["i"] - 1]["lost"] if problem["i"] - 1 < len(held) else None
        if problem["by"] in ("clear", "clear_shard"):
            return "PinnedStays:clear_drops_pinned" if agree and mlost == "clear" else "PinnedStays:removed_by_clear:not_as_modelled"
        if agree and mlost in ("evict", "evict_all") and "clear_dropped_pinned" in dev:
            return "PinnedStays:evicted_live_ref:after_clear_dropped_pinned"
        return "PinnedStays:evicted_live_ref:%s:unpredicted" % problem["by"]
    if kind == "budget_drift":
        which = "BudgetZeroWhenEmpty" if problem.get("empty") else "BudgetMatches"
        if agree and problem["a"] in ("goi", "goi_slow") and problem["res"] == "err_init" and problem["after"] - problem["before"] == 1 \
                and "clear_stale_len" not in dev:
            return "BudgetMatches:init_error_leak"
        if agree and "clear_stale_len" in dev and obs.get("leaked", 0) == 0:
            return "BudgetMatches:clear_stale_len"
        return "%s:drift_%+d_at_%s/%s:unpredicted" % (which, problem["after"] - problem["before"], problem["a"], problem["res"])
    if kind == "data_mismatch":
        return "DataIsLastWrite:key_shows_other_data"
    if kind == "capacity":
        return "WithinCapacity:shard_over_capacity"
    if kind in ("len_mismatch", "budget_not_page_multiple"):
        return "Accounting:" + kind
    return None


CONFORMANCE = ("result", "state", "path", "blocked")


def classify(chk, res_path):
    summary, counts, sig_counts = None, {}, {}
    examples = {}
    for line in open(res_path):
        if not line.strip():
            continue
        r = json.loads(line)
        if r["kind"] == "summary":
            summary = r
            continue
        if r["kind"] != "problems":
            continue
        last = len(r["hist"]) - 1
        probs = r["problems"]
        for p in probs:
            if p["kind"] in ("harness_error",):
                raise vlib.ToolError("harness: %s" % json.dumps(p))
        # the code left the model's path (earlier steps are reported by the shorter cases that end there)
        agree = not any(p["kind"] in CONFORMANCE + ("stuck",) for p in probs)
        sched = [(s["t"], s["a"], s["k"], s["i"], s["f"], s["res"]) for s in r["hist"]]
        for p in probs:
            if p.get("step", last) != last and p["kind"] != "stuck":
                continue
            counts[p["kind"]] = counts.get(p["kind"], 0) + 1
            rep = {"cfg": r["cfg"], "hist": r["hist"], "obs": r["obs"], "problem": p, "schedule": sched}
            sig = sig_of(p, r, agree)
            if sig:
                sig_counts[sig] = sig_counts.get(sig, 0) + 1
                if sig not in examples or len(r["hist"]) < len(examples[sig]["hist"]):
                    examples[sig] = rep
                chk.classify(sig, rep)
            elif p["kind"] == "stuck":
                chk.violation("call_never_returns", rep)
            elif p["kind"] == "result" and isinstance(p.get("observed"), str) and p["observed"].startswith("panic"):
                chk.violation("panic:%s:unpredicted" % p.get("a"), rep)
            else:
                chk.stale.append("%s at step %s of %s: %s" % (p["kind"], p.get("step"), json.dumps(sched), json.dumps(p)[:600]))
    if summary is None:
        raise vlib.ToolError("harness wrote no summary")
    return summary, counts, sig_counts, examples


def judge_stress(chk, path):
    st, race = None, None
    for r in vlib.read_ndjson(path):
        if r["kind"] == "stress":
            st = r
        elif r["kind"] == "race":
            race = r
    if st is None:
        raise vlib.ToolError("stress produced no result")
    calls = 0
    for t in st["threads"]:
        calls += t.get("calls", 0)
        for p in t.get("problems", []):
            chk.violation("stress:%s" % p["kind"], {"stress": {"seed": st["seed"], "secs": st["secs"]}, "problem": p, "first_calls": t.get("first_calls")})
    rep = {"stress": {k: v for k, v in st.items() if k != "threads"}}
    if st["max_len_seen"] > st["len_bound"]:
        chk.violation("stress:WithinCapacity:len_over_capacity", rep)
    if st["len_after_clear"] != 0:
        chk.violation("stress:clear_leaves_entries", rep)
    # (the init-error leak was repaired in /repo, a0d35e6: failed inits must not leave anything behind any more)
    leak = st["used_bytes_after_clear"]
    if leak != 0:
        what = "init_error_leak_is_back" if leak == st["failed_inits"] * st["page"] else "unexplained_%+d_bytes" % leak
        chk.violation("stress:BudgetZeroWhenEmpty:" + what, rep)
    if calls < 1000:
        raise vlib.ToolError("stress made only %d calls" % calls)
    out = {"stress_calls": calls, "stress_failed_inits": st["failed_inits"], "stress_max_len": st["max_len_seen"]}
    if race and race.get("ran"):
        rrep = {"race": race}
        for p in race["panics"]:
            chk.violation("stress:race_panic", dict(rrep, panic=p))
        if race["len_after_final_clear"] != 0:
            chk.violation("stress:clear_leaves_entries", rrep)
        if race["drift_bytes_after_final_clear"] != 0:
            # schedule-dependent: a get_or_insert fell between clear()'s len() and its release
            chk.classify("BudgetMatches:clear_stale_len", rrep)
        out.update(race_clears=race["clears"], race_inserts=race["inserts"], race_drift_pages=race["drift_bytes_after_final_clear"] // race["page"])
    return out


def run(chk):
    thorough = chk.tier == "thorough"
    chk.assumptions += ["one shard of capacity 2 with keys k1..k3 (+ one key on a second shard); other shards stay empty",
                        "len() and evict_all_unpinned() are one step each; schedule points only where the proposed hooks are",
                        "budget: 4 MiB limit arranged (ballast in the Cache pool + filled shared pool) so that exactly BudgetPages cache pages are allocatable; the arrangement is probed by the harness in every case",
                        "exhaustive up to renaming of threads and of the keys of one shard (TLC symmetry); the cache does not distinguish them"]
    vlib.build_harness(); chk.mark("build")
    models = run_models(thorough); chk.mark("tlc")
    for n in MC_CFGS + GEN_CFGS:
        if models[n]["violated"]:
            raise vlib.ToolError("PageCache model %s violates %s" % (n, models[n]["violated"]))
    for n, inv in WITNESS.items():
        if inv not in models[n]["violated"]:
            raise vlib.ToolError("as-is model no longer exhibits the %s counterexample (%s)" % (inv, n))
    for n in GEN_CFGS:
        if models[n]["emitted"] != models[n]["stats"].get("generated", 0) - 1:
            raise vlib.ToolError("%s: %d lines emitted for %s generated states" % (n, models[n]["emitted"], models[n]["stats"].get("generated")))
    sc = vlib.scratch()
    outp = os.path.join(sc, "cache_res.ndjson")
    args = ["cache-replay", "--in", ",".join(os.path.join(sc, n + ".out") for n in GEN_CFGS), "--out", outp, "--jobs", vlib.NCPU]
    selftest = os.environ.get("VERIF_SELFTEST", "")
    if selftest:
        args += ["--selftest", {"1": "unpin"}.get(selftest, selftest)]
        chk.notes.append("SELFTEST %s: the harness misuses the cache on purpose; a VIOLATION is the expected outcome" % selftest)
    vlib.run_vh(args, timeout=3000); chk.mark("replay")
    summary, counts, sig_counts, examples = classify(chk, outp)
    classes = summary["last_step_classes"]
    fine_generated = sum(v for k, v in classes.items() if k.startswith("fine:") and "/" in k)
    missing = [c for c in NEED if classes.get(c, 0) == 0]
    if missing:
        raise vlib.ToolError("vacuous generation: no emitted behaviour ends in %s" % missing)
    if summary["cases"] != sum(models[n]["emitted"] for n in GEN_CFGS):
        raise vlib.ToolError("harness read %d cases, TLC emitted %d" % (summary["cases"], sum(models[n]["emitted"] for n in GEN_CFGS)))
    sp = os.path.join(sc, "stress.ndjson")
    vlib.run_vh(["cache-stress", "--secs", 10 if thorough else 2, "--race-ms", 3000 if thorough else 600, "--seed", chk.seed, "--out", sp], timeout=600)
    stress = judge_stress(chk, sp); chk.mark("stress")
    if not summary["hooks_present"]:
        chk.notes.append("hook points cache.goi.* / cache.clear.* are not compiled in: %d fine-grained schedules generated by TLC were NOT replayed (proposed/C35-cache-hooks.diff); the clear()/get_or_insert window is exercised only by the free-running race" % summary["fine_skipped_no_hooks"])
    mc = {n: models[n] for n in MC_CFGS}
    chk.cov = {
        "states": sum(m["stats"]["distinct"] for m in mc.values()), "transitions": sum(m["stats"]["generated"] for m in mc.values()),
        "per_config": {n: {"distinct": m["stats"].get("distinct"), "generated": m["stats"].get("generated"), "depth": m["stats"].get("depth"),
                           "emitted": m["emitted"], "violated": m["violated"]} for n, m in models.items()},
        "traces_validated_against_impl": summary["cases"] - summary["fine_skipped_no_hooks"],
        "behaviours_generated_by_tlc": summary["cases"], "steps_executed": summary["steps"],
        "followed_without_any_problem": summary["followed_without_problem"],
        "fine_grained_generated": fine_generated, "fine_grained_replayed": bool(summary["hooks_present"] and summary["fine_replayed"] > 0),
        "fine_schedules_replayed": summary["fine_replayed"], "fine_schedules_skipped_no_hooks": summary["fine_skipped_no_hooks"],
        "predicted_panics_observed": summary["predicted_panics_observed"],
        "last_step_classes": classes, "problem_kinds_at_last_step": counts, "signatures": sig_counts,
        "conformance_divergences": len(chk.stale),
        "witnesses_in_model": {n: inv for n, inv in WITNESS.items()},
        "stress": stress, "exhaustive": True,
        "samples": [{"signature": s, "schedule": e["schedule"], "problem": e["problem"]} for s, e in sorted(examples.items())][:6]
                   or [{"note": "no property-level problem observed"}],
    }


def replay(chk, path):
    """re-run one stored case and print what the real cache did"""
    vlib.build_harness()
    d = json.load(open(path))
    rep = d["replay"]
    if "hist" not in rep:
        print("the stored case is a free-running stress result (schedule-dependent), not a replayable schedule:")
        print(json.dumps(rep, indent=1)[:3000])
        return 2
    inp, outp = os.path.join(vlib.scratch(), "one.ndjson"), os.path.join(vlib.scratch(), "one_res.ndjson")
    vlib.write_ndjson(inp, [{"cfg": rep["cfg"], "hist": rep["hist"], "obs": rep["obs"], "removed": []}])
    st = os.environ.get("VERIF_SELFTEST", "")
    vlib.run_vh(["cache-replay", "--in", inp, "--out", outp, "--jobs", 1, "--verbose", 1] + (["--selftest", {"1": "unpin"}.get(st, st)] if st else []))
    rc = 0
    print("signature: %s" % d.get("signature"))
    for i, s in enumerate(rep["hist"]):
        print("  step %d: %s %s k=%s i=%s fail_init=%s -> expected %s" % (i, s["t"], s["a"], s["k"], s["i"], s["f"], s["res"]))
    for r in vlib.read_ndjson(outp):
        if r["kind"] == "problems":
            rc = 1
            for p in r["problems"]:
                print("OBSERVED: " + json.dumps(p))
        elif r["kind"] == "summary" and r["fine_skipped_no_hooks"]:
            print("fine-grained schedule: hooks not compiled in, not replayed")
            rc = 2
    if rc == 0:
        print("the real cache followed the model and no property-level problem was observed")
    vlib.cleanup()
    return rc

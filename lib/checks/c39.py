"""C39 - the memory budget is a hard limit.

(A) TLC on MemBudget.tla: same-pool contention (HardLimit, Accounting, ZeroWhenReleased, termination under
    fairness), mixed pools (limit exceeded only after overlapping cross-pool allocations = recorded finding),
    and a witness run that must still find the cross-pool counterexample.
(B) every transition TLC explores is a schedule; the puppeteer drives the real MemoryBudget through it at the
    hook points budget.alloc.* / budget.release.* and compares path, results and counters after every step.
"""
import os, random, json
import vlib

LEVEL = "model_checking"


def run(chk):
    thorough = chk.tier == "thorough"
    chk.assumptions += ["units of 128 KiB, limit 32 units (4 MiB floor), 20 units prefilled in the shared pool",
                        "total_used() (five loads) is one step: schedule points exist only where hooks are",
                        "compare_exchange_weak does not fail spuriously on this target (x86-64)"]
    vlib.build_harness(); chk.mark("build")
    mcs = {}
    for name in ("same", "cross"):
        r = vlib.run_tlc("MC_MemBudget.tla", os.path.join(vlib.SPEC, "MC_MemBudget_%s.cfg" % name), coverage=True, timeout=900)
        vlib.tlc_ok(r, "MC_MemBudget_" + name)
        if r["violated"]:
            raise vlib.ToolError("MemBudget model violates %s in config %s" % (r["violated"], name))
        mcs[name] = r
    kf = vlib.run_tlc("MC_MemBudget.tla", os.path.join(vlib.SPEC, "MC_MemBudget_kf.cfg"), timeout=600)
    vlib.tlc_ok(kf, "MC_MemBudget_kf")
    kf_in_model = "HardLimit" in kf["violated"]
    chk.mark("tlc_mc")
    cfgs = [("Gen_MemBudget.cfg", None)]
    if thorough:
        g3 = vlib.scratch() + "/Gen3.cfg"
        open(g3, "w").write(open(os.path.join(vlib.SPEC, "Gen_MemBudget.cfg")).read()
                            .replace("Threads = {1, 2}", "Threads = {1, 2, 3}").replace("MaxOpsPerThread = 2", "MaxOpsPerThread = 1")
                            .replace("PoolsMixed", "PoolsCross"))
        cfgs.append((g3, None))
    cases = []
    for cfg, _ in cfgs:
        gen = vlib.tlc_emit("MC_MemBudget.tla", cfg if os.path.isabs(cfg) else os.path.join(vlib.SPEC, cfg), timeout=1500)
        cases += gen["emitted"]
    chk.mark("tlc_gen")
    total = len(cases)
    rng = random.Random(chk.seed)
    if not thorough:
        cases = vlib.stratified_sample(cases, lambda c: (c["hist"][-1]["a"], c["hist"][-1]["res"], c["overlap"], c["hard"], len(c["hist"]) // 4), 8000, rng)
    inp, outp = vlib.scratch() + "/b_cases.ndjson", vlib.scratch() + "/b_res.ndjson"
    vlib.write_ndjson(inp, cases)
    vlib.run_vh(["budget-replay", "--in", inp, "--out", outp, "--jobs", vlib.NCPU], timeout=3000)
    res = vlib.read_ndjson(outp); chk.mark("replay")
    ok = 0
    kinds = {}
    for r in res:
        if r["kind"] == "ok":
            ok += 1
            continue
        last = len(r["hist"]) - 1
        for pr in r["problems"]:
            if pr.get("step", last) not in (last, "final") and pr["kind"] not in ("path", "blocked", "stuck"):
                continue
            kinds[pr["kind"]] = kinds.get(pr["kind"], 0) + 1
            rep = {"schedule": r["hist"], "problem": pr}
            if pr["kind"] == "hard_limit_exceeded":
                if r["overlap"] and not r["model_hard"] and pr.get("step") != "final":
                    chk.classify("cross_pool_race", rep)
                else:
                    chk.violation("hard_limit_exceeded:not_predicted_by_model", rep)
            elif pr["kind"] == "accounting_broken":
                chk.violation("accounting_broken:" + pr["pool"], rep)
            elif pr["kind"] == "stuck":
                chk.violation("call_never_returns", rep)
            else:
                chk.stale.append("%s at step %s of schedule %s: %s" % (pr["kind"], pr.get("step"), json.dumps([(s["t"], s["a"]) for s in r["hist"]]), json.dumps(pr)))
    if not kf_in_model:
        chk.notes.append("cross-pool counterexample no longer exists in the model")
    if kf_in_model and "cross_pool_race" not in chk.findings.hit and not chk.violations:
        chk.notes.append("model predicts the cross-pool race but no replayed schedule exceeded the limit")
    chk.cov = {
        "states": sum(m["stats"]["distinct"] for m in mcs.values()), "transitions": sum(m["stats"]["generated"] for m in mcs.values()),
        "traces_validated_against_impl": len(res), "schedules_generated_by_tlc": total, "schedules_replayed": len(cases),
        "schedules_followed_exactly": ok, "problem_kinds": kinds,
        "actions_covered": {a: t for a, (d, t) in mcs["cross"]["coverage"].items()},
        "liveness_checked": "Terminates under WF (same-pool config)",
        "finding_witness_in_model": kf_in_model, "exhaustive": thorough,
        "samples": [{"schedule": [(s["t"], s["a"], s["op"]["kind"] if s["a"] == "start" else "", s["res"]) for s in c["hist"]], "final_used": c["hist"][-1]["used"]}
                    for c in cases[:: max(1, len(cases) // 3)][:3]],
    }

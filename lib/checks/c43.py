"""C43 - the bulk-load APIs leave the database in the state row-at-a-time INSERT leaves it in.

RelBulk.tla is the reference: BulkLoad(api, batch) = fold of single-row INSERT over the rows of a compactly described
batch (start, count, step, order, duplicate position/kind, NULL position); tables with / without PRIMARY KEY, UNIQUE,
secondary index, NOT NULL, AUTO_INCREMENT. For a batch with a row that cannot be inserted the spec lists the admissible
outcomes (stop at that row with an error / skip it and report a count or an error); a stored refused row, a wrong count,
a lookup that misses a loaded row, a constraint that is no longer enforced, a table that takes no more rows are not.
 (1) TLC checks the compact model against a naive row-by-row fold over explicit row sets (small batches).
 (2) TLC enumerates every first step for batch sizes 0,1,2,3, leaf capacity -1/0/+1 (calibrated on the running build,
     for records with and without MVCC header) and 5000; all two-step behaviours over small sizes; random walks that
     interleave batches with INSERT/DELETE/UPDATE, BEGIN/COMMIT/ROLLBACK and reopen.
 (3) every behaviour is executed on TurDB (rel-run): the prefix must follow the model, the last step is compared with
     every admissible outcome: result, full scan, COUNT(*), lookups through every index path, constraint probes, the
     next AUTO_INCREMENT value. The same rows are also loaded one by one with INSERT (`insert_each`): that run must
     equal the model exactly (it validates the reference against TurDB's own INSERT).
"""
import json, os, random
import vlib, reldl, relbulk

LEVEL = "model_checking"
MANIFEST = dict(cat=LEVEL, ref="DESIGN.md 6 (C43), notes/C43.md",
    tech="TLA+ reference RelBulk.tla (BulkLoad = fold of Insert over a compactly described batch; admissible outcomes stated "
         "as a set) checked by TLC against a naive fold; TLC-generated behaviours replayed on TurDB through insert_batch, "
         "insert_batch_into_schema, the cached prepared-INSERT path (insert_cached) and bulk_insert, and through "
         "row-at-a-time INSERT as the reference rendering; full observation compared with the model",
    text="for batch sizes 0,1,2,3, leaf capacity +-1 and 5000, ascending/descending ids, duplicates of primary key / UNIQUE "
         "values inside the batch and against stored rows, NULL into NOT NULL, 7 table declarations, interleaved DML, "
         "transactions and reopen: the observable state after a bulk call is one the reference admits, except for the "
         "listed findings",
    note="ids and values are small integers (no TEXT, no TOAST); one handle; rows are functions of their id; the renderer "
         "lib/relbulk.py and harness rel-run are trusted; all-or-nothing rejection of a batch is deliberately not admitted")

APIS = ["insert_batch", "insert_batch_into_schema", "insert_cached", "bulk_insert"]
PER_ROW = ("insert_cached", "insert_each")


def calibrate():
    """first batch size at which the table file grows (= one leaf no longer holds the rows), per record format"""
    caps = {}
    for api in ("insert_each", "insert_batch"):
        def grows(n):
            rows = [[i, 1000000 + i, i % 3] for i in range(1, n + 1)]
            ops = [{"k": "exec", "sql": relbulk.DDL["pk"][0]}, {"k": "files"},
                   {"k": "bulk", "api": api, "table": "t", "sql": relbulk.INS3, "rows": rows}, {"k": "files"}]
            r = reldl.run_cases([{"id": 0, "ops": ops}])[0]
            if len(r) < 4 or "files" not in r[1] or "files" not in r[3]:
                raise vlib.ToolError("calibration case failed: %s" % json.dumps(r)[:300])
            a, b = dict(map(tuple, r[1]["files"])), dict(map(tuple, r[3]["files"]))
            return b.get("root/t.tbd", 0) > a.get("root/t.tbd", 0)
        lo, hi = 2, 4096
        if not grows(hi):
            raise vlib.ToolError("calibration: the table file does not grow with %d rows" % hi)
        while lo < hi:
            mid = (lo + hi) // 2
            if grows(mid):
                hi = mid
            else:
                lo = mid + 1
        caps[api] = lo - 1          # rows one leaf holds
    return caps


def tset(xs):
    return "{" + ",".join(str(x) if isinstance(x, int) else '"%s"' % x for x in sorted(set(xs), key=lambda x: (str(type(x)), x))) + "}"


def step_features(hist):
    st = hist[-1]
    op = st["op"]
    f = []
    prev = [h["op"] for h in hist[:-1]]
    if st.get("intxn") or any(p["k"] == "begin" for p in prev) and not any(p["k"] in ("commit", "rollback") for p in prev):
        f.append("in_txn")
    used = sorted({p.get("api") for p in prev if p["k"] in ("bulk", "bulk_ai")})
    if used:
        f.append("after:" + "+".join(used))
    if any(p["k"] == "reopen" for p in prev):
        f.append("after_reopen")
    return f


def size_class(n, caps):
    if n <= 3:
        return str(n)
    for k, c in caps.items():
        if abs(n - c) <= 1:
            return "leaf(%s)%+d" % ("mvcc" if k == "insert_each" else "raw", n - c)
    return "big" if n >= 1000 else "mid"


def signatures(hist, divs, api):
    """spec-defined signatures of the divergences of the last step: <kind>:<api or statement>:<detail>[:after:<apis>].
    A bulk step is blamed by itself; another statement that fails after a bulk call that looked fine is blamed on the
    APIs used before it."""
    st = hist[-1]
    op = st["op"]
    tv = hist[0]["tv"]
    indexed = {"id": tv != "plain", "a": tv in ("uniq", "all"), "b": tv in ("idx", "all")}
    bulk = op["k"] in ("bulk", "bulk_ai")
    what = api if bulk else op["k"]
    # the cached prepared-INSERT path has a recorded defect for descending / repeating / generated keys; a plain
    # ascending batch of distinct keys is outside it and keeps its own signatures
    clean_asc = (op["k"] == "bulk" and op["d"]["ord"] == "asc" and not op["d"]["dupAt"] and not op["d"]["nullAt"] and len(hist) == 1)
    what_pk = what        # used for what goes through the PRIMARY KEY index only (its keys ARE ascending and distinct in such a batch)
    if bulk and api == "insert_cached" and clean_asc:
        what_pk = "insert_cached[ascending_distinct_keys_into_empty_table]"
    used = [p["op"].get("api") for p in hist[:-1] if p["op"]["k"] in ("bulk", "bulk_ai")]
    ctx = "" if bulk else ":after:" + (used[-1] if used else "-")          # the bulk call made last before this statement
    out = []
    for d in divs:
        k = d["kind"]
        if k == "panic":
            out.append("panic:%s%s" % (what, ctx))
        elif k == "result":
            e, o = d["expected"], d["observed"]
            if e[0] != o[0]:
                out.append("result:%s:%s%s" % (what, "reports_success_for_batch_with_refused_row" if o[0] else "refuses_valid_call", ctx))
            else:
                out.append("result:%s:wrong_count%s" % (what, ctx))
        elif k == "scan":
            for c in d["refused"]:
                out.append("stores_refused_row:%s:%s%s" % (what, c, ctx))
            rest_unexpected = d["n_unexpected"] > len(d["refused"])
            missing = d["n_missing"]
            if d.get("null_id") and tv == "ai":
                out.append("stores_null_id_instead_of_generating:%s%s" % (what, ctx))
                if d.get("same_but_for_null_ids"):
                    rest_unexpected, missing = False, 0
            if missing or rest_unexpected or (d["duplicates_of_same_row"] and not d["refused"] and not d.get("same_but_for_null_ids")):
                out.append("scan:%s:%s%s%s" % (what, "rows_missing" if missing else "", "+rows_unexpected" if rest_unexpected or d["duplicates_of_same_row"] else "", ctx))
        elif k == "scan_error":
            out.append("scan_error:%s%s" % (what, ctx))
        elif k == "count":
            out.append("count_differs_from_visible_rows:%s%s" % (what, ctx))
        elif k == "lookup":
            no, ne = d.get("n_observed"), d.get("n_expected")
            how = "error" if no is None else ("misses_rows" if no < ne else "returns_rows_the_scan_does_not_show" if no > ne else "returns_other_rows")
            out.append("lookup:%s:by_%s:%s:%s%s" % (what_pk if d["by"] == "id" else what, d["by"], "index_path" if indexed[d["by"]] else "scan_path", how, ctx))
        elif k == "probe":
            if d["name"] == "next_ai":
                out.append("next_auto_increment_value:%s%s" % (what, ctx))
            elif d.get("expected_ok") is False:
                out.append("constraint_not_enforced_after:%s:%s%s" % (what_pk if d["name"] == "dup_pk" else what, d["name"], ctx))
            else:
                out.append("later_insert_rejected_after:%s%s" % (what, ctx))
        else:
            out.append("%s:%s%s" % (k, what, ctx))
    seen, res = set(), []
    for s in out:
        if s not in seen:
            seen.add(s)
            res.append(s)
    return res


def hkey(h):
    return json.dumps([h[0]["tv"]] + [s["op"] for s in h], sort_keys=True)


def selftest(meta):
    """binding test (VERIF_SELFTEST=1): ONE expectation is falsified - every admissible outcome of the first plain 3-row
    insert_cached batch claims one row more than TLC said - and the comparison must report result:insert_cached:wrong_count."""
    import copy
    for cid, (h, lay, api, is_ref) in meta.items():
        op = h[-1]["op"]
        if not is_ref and len(h) == 1 and op["k"] == "bulk" and api == "insert_cached" and op["d"]["n"] == 3 and not op["d"]["dupAt"] and not op["d"]["nullAt"] and op["d"]["ord"] == "asc" and h[0]["tv"] == "plain":
            h2 = copy.deepcopy(h)
            for o in h2[-1]["outs"]:
                o["n"] += 1
            meta[cid] = (h2, lay, api, is_ref)
            print("SELFTEST: expecting n+1 rows reported for: %s" % relbulk.describe(h))
            return
    raise vlib.ToolError("selftest: no suitable behaviour")


def evaluate(chk, hists, caps, with_reference=True):
    cases, meta = [], {}
    for h in hists:
        api = h[-1]["op"].get("api") if h[-1]["op"]["k"] in ("bulk", "bulk_ai") else None
        c, lay = relbulk.render(len(cases), h)
        meta[len(cases)] = (h, lay, api, False)
        cases.append(c)
    # the row-at-a-time reference rendering of every distinct (declaration, prefix, batch)
    if with_reference:
        seen = set()
        for h in hists:
            op = h[-1]["op"]
            if op["k"] not in ("bulk", "bulk_ai"):
                continue
            key = json.dumps([h[0]["tv"], [s["op"] for s in h[:-1]], {k: v for k, v in op.items() if k != "api"}], sort_keys=True)
            if key in seen:
                continue
            seen.add(key)
            c, lay = relbulk.render(len(cases), h, api_override="insert_each")
            meta[len(cases)] = (h, lay, "insert_each", True)
            cases.append(c)
    res = reldl.run_cases(cases, watchdog=300)
    chk.mark("replay")
    if os.environ.get("VERIF_SELFTEST") == "1":
        selftest(meta)
    st = {"behaviours": 0, "judged": 0, "conforming": 0, "abandoned_prefix_diverged": 0, "reference_runs": 0, "reference_conforming": 0,
          "reference_prefix_diverged": 0, "divergences": {}, "reference_divergences": {}, "classes": {}, "fatal": 0, "prefix_not_judged_separately": 0}
    # pass 1: which behaviours conform completely (result, rows, every lookup, probes)? A behaviour is only judged when
    # every proper prefix of it is such a behaviour: a prefix that merely LOOKS right in a scan (insert_batch leaves the
    # indexes behind) must not pass for a prefix that follows the model.
    verdict = {}
    for cid, (h, lay, api, is_ref) in meta.items():
        if not is_ref:
            dv = relbulk.compare(h, lay, res.get(cid, []), per_row_last=(api in PER_ROW))
            k = hkey(h)
            verdict[k] = verdict.get(k, True) and not dv
    def prefix_state(h):
        for k in range(1, len(h)):
            v = verdict.get(hkey(h[:k]))
            if v is False:
                return "diverged"
            if v is None:
                return "unknown"
        return "ok"
    for cid, (h, lay, api, is_ref) in meta.items():
        hh = h
        ps = prefix_state(h)
        if ps == "diverged":
            if is_ref:
                st["reference_runs"] += 1; st["reference_prefix_diverged"] += 1
            else:
                st["behaviours"] += 1; st["abandoned_prefix_diverged"] += 1
            continue
        if ps == "unknown":
            st["prefix_not_judged_separately"] += 1
        if is_ref:
            # the reference run has exactly one outcome: every insertable row stored, one error per refused row
            last = dict(h[-1]); last["outs"] = [o for o in h[-1]["outs"] if o["kind"] == h[-1]["cont"]]
            hh = h[:-1] + [last]
        divs = relbulk.compare(hh, lay, res.get(cid, []), per_row_last=(api in PER_ROW))
        if is_ref:
            st["reference_runs"] += 1
            if any(d["kind"] in ("prefix_diverged", "fatal") for d in divs):
                st["reference_prefix_diverged"] += 1
            elif not divs:
                st["reference_conforming"] += 1
            else:
                for s in signatures(hh, divs, "insert_each"):
                    st["reference_divergences"][s] = st["reference_divergences"].get(s, 0) + 1
                    chk.ref_examples.setdefault(s, {"sql": relbulk.describe(h, "insert_each"), "divergence": divs[:3]})
            continue
        st["behaviours"] += 1
        if any(d["kind"] == "fatal" for d in divs):
            st["fatal"] += 1
            continue
        if any(d["kind"] == "prefix_diverged" for d in divs):
            st["abandoned_prefix_diverged"] += 1
            continue
        st["judged"] += 1
        op = h[-1]["op"]
        if op["k"] == "bulk":
            d = op["d"]
            key = "%s|%s|n=%s|%s%s%s" % (api, h[0]["tv"], size_class(d["n"], caps), d["ord"], "|dup:" + d["dupKind"] if d["dupAt"] else "", "|null" if d["nullAt"] else "")
        elif op["k"] == "bulk_ai":
            key = "%s|ai|n=%s%s" % (api, size_class(op["n"], caps), "|explicit" if op["far"] else "")
        else:
            key = "%s|%s" % (op["k"], h[0]["tv"])
        if step_features(h):
            key += "|" + ",".join(step_features(h))
        st["classes"][key] = st["classes"].get(key, 0) + 1
        if not divs:
            st["conforming"] += 1
            continue
        for s in signatures(h, divs, api):
            st["divergences"][s] = st["divergences"].get(s, 0) + 1
            chk.classify(s, {"sql": relbulk.describe(h), "hist": h, "divergences": divs[:8]})
    return st


def merge(a, b):
    for k, v in b.items():
        if isinstance(v, dict):
            d = a.setdefault(k, {})
            for kk, vv in v.items():
                d[kk] = d.get(kk, 0) + vv
        else:
            a[k] = a.get(k, 0) + v
    return a


def run(chk):
    thorough = chk.tier == "thorough"
    rng = random.Random(chk.seed)
    chk.ref_examples = {}
    chk.assumptions += ["rows are functions of their id (a = id + 10^6 or NULL when id mod 10 = 5, b = id mod 3); every batch gets a fresh block of ids",
                        "duplicates are single rows placed at a chosen position of the batch (of position 1 of the batch or of a stored row)",
                        "admissible outcomes for a batch with a refused row: stop-at-first / skip-and-count / skip-and-error; not all-or-nothing",
                        "the same rows inserted one by one with INSERT must equal the model exactly (reference rendering); a mismatch there is a model/INSERT disagreement, reported as a conformance divergence, never as C43"]
    vlib.build_harness(); chk.mark("build")
    caps = calibrate(); chk.mark("calibrate")
    sizes_first = [0, 1, 2, 3, 5000] + [c + d for c in caps.values() for d in (-1, 0, 1)]
    mc = vlib.run_tlc("MC_RelBulk.tla", reldl.cfg_with("MC_RelBulk.cfg", {"MaxOps": 2 if thorough else 1}, "mc"), workers=8, timeout=2400)
    vlib.tlc_ok(mc, "MC_RelBulk")
    if mc["violated"]:
        raise vlib.ToolError("RelBulk.tla: the compact model disagrees with the naive fold: %s" % mc["violated"])
    chk.mark("tlc_mc")
    # G1: every first step, all sizes
    g1, s1 = reldl.bfs("MC_RelBulk.tla", "Gen_RelBulk.cfg", {"MaxOps": 1, "SizesFirst": tset(sizes_first), "SizesLater": "{0}"})
    # G2: all two-step behaviours over small sizes (DML before / after a batch, batch after batch)
    later = ([0, 2, 3, caps["insert_each"] + 1] if thorough else [0, 3])
    g2, s2 = reldl.bfs("MC_RelBulk.tla", "Gen_RelBulk.cfg", {"MaxOps": 2, "SizesFirst": "{0,1,3}" if thorough else "{1,3}", "SizesLater": tset(later), "WithTxn": thorough}, timeout=2400)
    g2 = [e for e in g2 if len(e["hist"]) == 2]
    def cls(e):
        h = e["hist"]
        return tuple((s["op"]["k"], s["op"].get("api"), json.dumps(s["op"].get("d", {}), sort_keys=True), s["tv"]) for s in h)
    # always there: duplicates of STORED rows (need a first INSERT) and every DML statement right after a plain batch
    def must(e):
        a, b = e["hist"][0]["op"], e["hist"][1]["op"]
        if a["k"] == "ins1" and b["k"] == "bulk" and b["d"]["dupKind"] in ("pk_exist", "uq_exist") and b["d"]["n"] == 3:
            return True
        return a["k"] in ("bulk", "bulk_ai") and a.get("d", {}).get("n", a.get("n")) == 3 and (a["k"] == "bulk_ai" and a["far"] == 0 or a["k"] == "bulk" and a["d"]["dupAt"] == 0 and a["d"]["nullAt"] == 0 and a["d"]["ord"] == "asc") \
            and b["k"] in ("ins1", "insdup", "del1", "deltail", "upd1", "reopen")
    g2m = [e for e in g2 if must(e)]
    g2 = g2m + vlib.stratified_sample([e for e in g2 if not must(e)], cls, 6000 if thorough else 700, rng)
    # G3: random walks with transactions, reopen and DML; every prefix of a walk is a behaviour
    wn, wd = (300, 7) if thorough else (40, 5)
    ws = reldl.walks("MC_RelBulk.tla", "Gen_RelBulk.cfg", {"MaxOps": wd, "SizesFirst": "{0,2,3}", "SizesLater": tset([0, 2, 3] + ([caps["insert_each"] + 1] if thorough else []))}, wn, wd, chk.seed)
    g3 = []
    for w in ws:
        for k in range(1, len(w["hist"]) + 1):
            g3.append(w["hist"][:k])
    chk.mark("tlc_gen")
    hists = [e["hist"] for e in g1] + [e["hist"] for e in g2] + g3
    st = evaluate(chk, hists, caps)
    # non-vacuity: every API met every size class and every duplicate kind as a judged first step
    want = []
    for api in APIS:
        for n in sizes_first:
            want.append("%s|pk|n=%s|asc" % (api, size_class(n, caps)))
        for kind in ("pk_batch", "uq_batch"):
            want.append("%s|all|n=3|asc|dup:%s" % (api, kind))
        want.append("%s|ai|n=3" % api)
    missing = [w for w in want if not st["classes"].get(w)]
    if missing:
        raise vlib.ToolError("classes never judged (vacuous): %s" % missing[:8])
    if st["judged"] < 0.2 * st["behaviours"]:
        raise vlib.ToolError("only %d of %d behaviours could be judged (prefix diverged in the rest)" % (st["judged"], st["behaviours"]))
    for s, n in st["reference_divergences"].items():
        chk.stale.append("row-at-a-time INSERT disagrees with RelBulk.tla (%d runs): %s e.g. %s" % (n, s, json.dumps(chk.ref_examples.get(s))[:400]))
    chk.cov = {"states": mc["stats"].get("distinct", 0), "transitions": mc["stats"].get("generated", 0),
               "traces_validated_against_impl": st["judged"], "behaviours_generated": {"first_steps_all_sizes": len(g1), "two_steps_small_sizes": len(g2), "walk_prefixes": len(g3)},
               "behaviours_replayed": st["behaviours"], "judged": st["judged"], "conforming": st["conforming"],
               "abandoned_prefix_diverged": st["abandoned_prefix_diverged"], "fatal": st["fatal"],
               "reference_runs_insert_each": st["reference_runs"], "reference_conforming": st["reference_conforming"],
               "reference_prefix_diverged": st["reference_prefix_diverged"], "reference_divergences": st["reference_divergences"],
               "leaf_capacity_rows": caps, "batch_sizes_first_step": sorted(set(sizes_first)),
               "divergence_signatures": st["divergences"], "classes_judged": len(st["classes"]), "classes": st["classes"] if len(st["classes"]) < 400 else "%d classes" % len(st["classes"]),
               "gen_tlc": {"g1": s1, "g2": s2}, "exhaustive": False,
               "samples": [relbulk.describe(h) for h in hists[:: max(1, len(hists) // 3)][:3]]}


def replay(chk, path):
    rep = json.load(open(path))["replay"]
    vlib.build_harness()
    chk.ref_examples = {}
    caps = calibrate()
    st = evaluate(chk, [rep["hist"]], caps)
    print("replayed: %s" % rep["sql"])
    print("  divergences: %s" % json.dumps(st["divergences"]))
    print("  row-at-a-time reference: %d run(s), %d conforming, divergences %s" % (st["reference_runs"], st["reference_conforming"], json.dumps(st["reference_divergences"])))
    chk.cov = {"states": 1, "transitions": len(rep["hist"]), "traces_validated_against_impl": 1, "samples": [rep["sql"]], "replay_of": path}
    return chk.finish()

"""C19 - semantically equivalent formulations of a query return the same bag of rows.

TLC (MC_ThreeVL, Mode "rw") takes a seeded choice of predicates p and emits every rewrite of C19 with the expected
answer of every variant computed by the ThreeVL oracle: the TLP triple (WHERE p / NOT p / p IS NULL), commuted and
reassociated AND/OR, De Morgan, double negation, added always-true conjuncts / always-false disjuncts, IN as OR of =,
BETWEEN as two comparisons, and two-table predicates for FROM reordering.  TLC checks as invariants that the
variants of a rewrite ARE equal in the oracle and that the TLP triple partitions the table.  Each variant is run on
TurDB and must (a) equal TLC's answer and (b) equal the other variants / partition the table.  Query-shape rewrites
(permuted select list, reordered FROM items, comma vs CROSS JOIN vs JOIN ON) are generated around the same predicates.
Dialect atoms without semantics in the spec (vector distance, JSON operators, window functions) are OPAQUE: their
value per row is observed (`SELECT id, atom FROM d`) and compounds over them are judged with TLC's truth tables
(Mode "opq": Eval over all 27 valuations of three opaque atoms).
Signature: rewrite kind | relation (variants_disagree, same_wrong_answer, not_a_partition, ...) | blamed operator."""
import os, random, json, collections, itertools
import vlib, oracle
import threevl as T

LEVEL = "exploration"
MANIFEST = dict(cat=LEVEL, ref="DESIGN.md 3.10, 6 (C19)",
    tech="TLA+ oracle ThreeVL.tla + MC_ThreeVL.tla: TLC generates predicates and their rewrites (TLP, commute, reassociate, De Morgan, double negation, always-true conjunct, always-false disjunct, IN as OR, BETWEEN as comparisons, two-table predicates), checks their equivalence in the oracle as invariants and prints the expected answer of every variant; for opaque dialect atoms TLC prints the truth table of every compound over all valuations; every variant is run on TurDB, compared with TLC's answer and with the other variants; blame localisation names the operator",
    text="for every generated predicate (quick ~200, thorough ~1 700, over the 100-row all-combinations table of C14) and every rewrite, all formulations return TLC's answer and hence the same rows; WHERE p / NOT p / p IS NULL partition the table; permuting the select list, reordering FROM items (t,u / u,t / CROSS JOIN / JOIN ON) changes nothing; compounds over vector-distance, JSON and window-function atoms behave as three-valued logic prescribes for the observed atom values",
    note="opaque atoms: their own values are taken from TurDB's select list (not judged), only the logic above them is; two tables at most; rewrites are the fixed catalogue of MC_ThreeVL!Rewrites")

NU = 3


def params(chk):
    if chk.tier == "thorough":
        return dict(rw=dict(Partners=2, Stride=1, CheckLaws="none"), perms=3, triples=40)
    return dict(rw=dict(Partners=1, Stride=6, CheckLaws="none"), perms=2, triples=8)


# ----------------------------------------------------------------------------- opaque atoms (dialect features)
D_SETUP = [
    "CREATE TABLE d (id INT PRIMARY KEY, g INT, v VECTOR(2), j JSONB)",
    "INSERT INTO d VALUES (1, 1, '[1.0, 0.0]', '{\"k\": \"x\", \"n\": 1}'), (2, 1, '[0.0, 2.0]', '{\"k\": \"y\", \"n\": 2}'), "
    "(3, 2, NULL, NULL), (4, NULL, '[3.0, 0.0]', '{\"n\": 3}'), (5, 2, '[1.0, 1.0]', '{\"k\": null, \"n\": 2}'), "
    "(6, 3, '[0.5, 0.5]', '{\"k\": \"x\"}'), (7, NULL, NULL, '{\"k\": \"y\", \"n\": 0}'), (8, 0, '[0.0, 0.0]', NULL), "
    "(9, 1, '[2.0, 2.0]', '{\"k\": \"x\", \"n\": 5}')",
]
D_ROWS = 9
W_FROM = "(SELECT id, g, ROW_NUMBER() OVER (ORDER BY id) AS rn, RANK() OVER (ORDER BY g) AS rk FROM d) AS w"
# name -> (class, SQL over d); class is the dialect feature
ATOMS_D = {
    "vec_l2": ("vector", "v <-> '[1,0]' < 1.5"),
    "vec_cos": ("vector", "v <=> '[1,0]' < 0.5"),
    "vec_ip": ("vector", "v <#> '[1,0]' >= 1.0"),
    "json_text": ("json", "j->>'k' = 'x'"),
    "json_num": ("json", "j->'n' > 1"),
    "json_contains": ("json", "j @> '{\"n\": 2}'"),
    "json_isnull": ("json", "j->>'k' IS NULL"),
    "plain_g": ("plain", "g = 1"),
    "plain_gnull": ("plain", "g IS NULL"),
    "window_in_subquery": ("window", "id IN (SELECT id FROM (SELECT id, ROW_NUMBER() OVER (PARTITION BY g ORDER BY id) AS rn FROM d) AS z WHERE rn = 1)"),
}
ATOMS_W = {   # atoms over the derived table w (window function in a FROM subquery)
    "win_rn": ("window", "rn <= 4"),
    "win_rk": ("window", "rk > 3"),
    "win_rn_g": ("window", "rn > g"),
    "plain_g": ("plain", "g = 1"),
}


# ----------------------------------------------------------------------------- judging one rewrite record
def operator_of(sig):
    """node signature ctx:family:[classes]:exp->obs  ->  ctx:family (C19 names the rewrite kind plus the blamed operator)"""
    parts = sig.split(":")
    return ":".join(parts[:2])


def with_ctx(sig, ctx):
    return ctx + sig[sig.index(":"):]


class Judge:
    """What C19 reports are DISAGREEMENTS between formulations and broken TLP partitions, named by the rewrite kind
    and the operator at the blamed node.  The blamed nodes come from the blame localisation of C14 (innermost nodes
    whose value is not the oracle's for the observed values of their operands).
      * A blamed node whose full node signature (context:family:[classes]:expected->observed) is a KNOWN FINDING OF
        C14 (known_findings.d/C14.json) is that defect showing through a rewrite; it is counted in the evidence
        (explained_by_C14) and not reported again - except for the TLP partition, which the property names
        explicitly: a broken partition is always reported as tlp|<relation>|<operator introduced by the rewrite>.
      * A blamed node with any other signature is reported: kind|relation|operator when the node was introduced by
        the rewrite, any_rewrite|same_wrong_answer|<node signature> when every formulation contains it."""

    def __init__(self, chk, gen):
        self.chk, self.gen = chk, gen
        self.c14 = vlib.Findings("C14")
        self.stats = collections.Counter()
        self.per_sig = collections.Counter()
        self.explained = collections.Counter()

    def report(self, full, rep):
        self.per_sig[full] += 1
        self.chk.classify(full, rep)

    def node(self, kind, relation, sig, label_ctx, introduced, rep):
        """sig: node signature in its own context; label_ctx: the context to show in a C19 signature"""
        sw = with_ctx(sig, "where")
        tlp_break = kind == "tlp" and relation in ("not_a_partition", "a_part_fails_with_an_error") and introduced
        if tlp_break:
            self.report("%s|%s|%s" % (kind, relation, operator_of(with_ctx(sig, label_ctx))), rep)
        elif self.c14.known(sw):
            self.explained["%s: %s" % (kind if introduced else "(shared sub-expression)", sw)] += 1
        elif introduced:
            self.report("%s|%s|%s" % (kind, relation, operator_of(with_ctx(sig, label_ctx))), rep)
        else:
            self.report("any_rewrite|same_wrong_answer|" + sw, rep)

    def settle(self, kind, relation, blames, rep, shared_keys, shared_only):
        """blames: one OrderedDict(node signature -> details) per variant (empty for a variant that equals the model).
        A blamed node that is a sub-expression of EVERY variant (shared_keys) is evaluated by every formulation;
        a blamed node that only some formulations contain was introduced by the rewrite."""
        union = collections.OrderedDict()
        for b in blames:
            for s, d in b.items():
                u = union.setdefault(s, {"node": d.get("node"), "variant": d.get("variant"), "keys": set()})
                u["keys"] |= d.get("keys", set())
        for s, d in union.items():
            r = dict(rep, blamed_node=d["node"], blamed_variant=d["variant"], all_blamed=list(union))
            intro = (not shared_only) and any(k not in shared_keys for k in d["keys"])
            self.node(kind, relation, s, "where", intro, r)


def judge_record(J, rec, ob, ctx, expected_of_variant, row_of, label=None):
    """(a) every variant equals TLC's answer, (b) the variants agree / partition the table"""
    kind = label or rec["kind"]
    stats = J.stats
    obs = [ob.get(ctx, v) for v in rec["variants"]]
    dev = [j for j, v in enumerate(rec["variants"]) if not T.agrees(ctx, rec["vals"][j], obs[j], False)]
    stats["records"] += 1
    stats["variants"] += len(rec["variants"])
    relation = None
    if rec["kind"] == "tlp":
        part = None
        if all(not isinstance(o, dict) for o in obs):
            cnt = [sum(1 for o in obs if o[j] == "T") for j in range(len(obs[0]))]
            part = all(c == 1 for c in cnt)
        if part is False:
            relation = "not_a_partition"
        elif part is None:
            relation = "a_part_fails_with_an_error"
        elif dev:
            relation = "partition_of_wrong_parts"
    elif rec["same"] and len(rec["variants"]) > 1:
        canon = [o["err"] if isinstance(o, dict) else o for o in obs]
        if len(set(canon)) > 1:
            relation = "variants_disagree"
        elif dev:
            relation = "same_wrong_answer"
    if relation is None:
        if dev:
            raise vlib.ToolError("inconsistent judgement for %s" % kind)
        return
    stats["failing_records"] += 1
    stats["rel:" + relation] += 1
    if not dev:
        raise vlib.ToolError("variants of %s disagree although each equals the model: the model's variants differ" % kind)
    blames = []
    for j, v in enumerate(rec["variants"]):
        if j not in dev:
            blames.append(collections.OrderedDict())
            continue
        bl = T.Blamer(J.gen, ob, expected_of_variant(j), row_of)
        ob.ensure(bl.need(ctx, v))
        blames.append(collections.OrderedDict((s, dict(d, variant=j)) for s, d in bl.blame(ctx, v).items()))
    node_keys = [{T.key(n) for n in T.nodes(v)} for v in rec["variants"]]
    shared = set.intersection(*node_keys)
    rep = {"kind": rec["kind"], "relation": relation,
           "variants": [{"sql": ob.sql(ctx, v), "expected": rec["vals"][j],
                         "observed": (obs[j] if not isinstance(obs[j], dict) else {k2: v2 for k2, v2 in obs[j].items() if k2 != "raw"}),
                         "equals_model": j not in dev} for j, v in enumerate(rec["variants"])],
           "trees": rec["variants"], "context": ctx}
    J.settle(kind, relation, blames, rep, shared, shared_only=relation in ("same_wrong_answer", "partition_of_wrong_parts"))


# ----------------------------------------------------------------------------- the parts of the check
def part_rewrites(J, setup):
    chk, gen = J.chk, J.gen
    recs = [r for r in gen.rewrites if r["on"] == "t"]
    if os.environ.get("VERIF_SELFTEST") == "1":
        # feed one deliberately wrong expectation (second variant of a commuted AND: first TRUE row becomes FALSE):
        # the run must end in a VIOLATION, which shows that the comparison binds
        for r in recs:
            if r["kind"] == "commute_and" and "T" in r["vals"][1] and r["vals"][0] == r["vals"][1]:
                # consistently with the truth tables: the first operand of `b AND a` and the conjunction become FALSE
                j = r["vals"][1].index("T")
                flip = lambda v: v[:j] + "F" + v[j + 1:]
                root, first = r["variants"][1], r["variants"][1][1]
                r["vals"][1] = flip(r["vals"][1])
                r["nodes"][1][T.key(root)] = r["vals"][1]
                r["nodes"][1][T.key(first)] = flip(r["nodes"][1][T.key(first)])
                chk.notes.append("SELFTEST: expectation of %s falsified at id %d" % (T.render(root), j + 1))
                break
    ob = T.Observer(setup, len(gen.table))
    ob.ensure(("where", v) for r in recs for v in r["variants"])
    row_of = lambda j: gen.table[j]
    for r in recs:
        judge_record(J, r, ob, "where", lambda j, r=r: (lambda t: r["nodes"][j][T.key(t)]), row_of)
    J.stats["queries"] += ob.queries
    return recs, ob


def part_select_permutations(J, setup, recs, nperm, rng):
    """SELECT <permutation of id,i,f,s> FROM t WHERE p: same rows up to the column permutation"""
    gen, stats = J.gen, J.stats
    cols = ["id", "i", "f", "s"]
    bases = [(r["variants"][0], r["vals"][0]) for r in recs if r["kind"] == "tlp"]
    perms = [tuple(cols)] + rng.sample([p for p in itertools.permutations(cols) if p != tuple(cols)], nperm)
    queries, index = [], []
    for tree, exp in bases:
        w = T.top(T.render(tree))
        for p in perms:
            queries.append("SELECT %s FROM t WHERE %s" % (", ".join(p), w))
            index.append((tree, exp, p))
    res = oracle.run_sql(setup, queries, batch=200)
    stats["queries"] += len(queries)
    model_rows = {r["id"]: {"id": r["id"], "i": T.model_cell(r["i"]), "f": T.model_cell(r["f"]), "s": T.model_cell(r["s"])} for r in gen.table}
    by_tree = collections.OrderedDict()
    for (tree, exp, p), q, r in zip(index, queries, res):
        by_tree.setdefault(T.key(tree), []).append((tree, exp, p, q, r))
    for k, items in by_tree.items():
        stats["records"] += 1
        stats["variants"] += len(items)
        canon, wrong = [], []
        for tree, exp, p, q, r in items:
            want = [[model_rows[j + 1][c] for c in cols] for j, x in enumerate(exp) if x == "T"]
            if "rows" in r:
                got = oracle.norm_rows(r["rows"])
                back = [[row[p.index(c)] for c in cols] if len(row) == 4 else row for row in got]
                back.sort(key=lambda row: (row[0] if isinstance(row[0], int) and not isinstance(row[0], bool) else -1, json.dumps(row, default=str)))
                canon.append(json.dumps(back, default=str))
                if back != want:
                    ids_ok = [row[0] for row in back] == [w_[0] for w_ in want]
                    wrong.append((p, "wrong_column_values" if ids_ok else "wrong_rows"))
            else:
                canon.append(T.short_err(r))
                wrong.append((p, "wrong_rows"))
        if not wrong:
            continue
        disagree = len(set(canon)) > 1
        if not disagree and all(w_[1] == "wrong_rows" for w_ in wrong):
            stats["select_permutations_all_wrong_alike"] += 1
            continue        # the predicate is answered wrongly whatever the select list: judged in part_rewrites / C14
        stats["failing_records"] += 1
        rel = "variants_disagree" if disagree else "same_wrong_answer"
        stats["rel:" + rel] += 1
        tree, exp = items[0][0], items[0][1]
        rep = {"kind": "permute_select", "relation": rel, "tree": tree,
               "variants": [{"sql": q, "observed": (r["rows"][:6] if "rows" in r else r)} for _, _, _, q, r in items],
               "expected_true_ids": [j + 1 for j, x in enumerate(exp) if x == "T"]}
        for what in sorted({w_[1] for w_ in wrong}):
            sig = "permute_select|%s|%s" % (rel, what)
            J.per_sig[sig] += 1
            J.chk.classify(sig, rep)


FROM_FORMS = collections.OrderedDict([
    ("from t,u", "SELECT id, uid FROM t, u WHERE %s"), ("from u,t", "SELECT id, uid FROM u, t WHERE %s"),
    ("t cross join u", "SELECT id, uid FROM t CROSS JOIN u WHERE %s"), ("u cross join t", "SELECT id, uid FROM u CROSS JOIN t WHERE %s"),
    ("t join u on", "SELECT id, uid FROM t JOIN u ON %s"), ("u join t on", "SELECT id, uid FROM u JOIN t ON %s"),
    ("qualified columns", "SELECT t.id, u.uid FROM t, u WHERE %s")])


FORM_CLASS = {"from t,u": "comma join", "from u,t": "comma join", "t cross join u": "cross join", "u cross join t": "cross join",
              "t join u on": "join on", "u join t on": "join on", "qualified columns": "qualified columns"}


def part_from_reordering(J, setup):
    gen, stats = J.gen, J.stats
    recs = [r for r in gen.rewrites if r["on"] == "tu"]
    n = len(gen.table) * NU
    plain = [c for c in FROM_FORMS if c != "qualified columns"]
    ob = T.Observer(setup, n, contexts={c: FROM_FORMS[c] for c in plain}, kinds={c: "pairs" for c in plain}, pair_nu=NU)
    ob_q = T.Observer(setup, n, contexts={"qualified columns": FROM_FORMS["qualified columns"]}, kinds={"qualified columns": "pairs"}, pair_nu=NU,
                      qual={"id": "t.id", "i": "t.i", "f": "t.f", "s": "t.s", "uid": "u.uid", "k": "u.k"})
    ob.ensure((c, r["variants"][0]) for r in recs for c in plain)
    ob_q.ensure(("qualified columns", r["variants"][0]) for r in recs)
    obof = lambda c: ob_q if c == "qualified columns" else ob

    def row_of(j):
        t, u = gen.table[j // NU], gen.utable[j % NU]
        return dict(t, uid=["int", 2 * u["uid"], []], k=u["k"], id=["int", 2 * t["id"], []])
    for r in recs:
        q, exp = r["variants"][0], r["vals"][0]
        stats["records"] += 1
        stats["variants"] += len(FROM_FORMS)
        obs = {c: obof(c).get(c, q) for c in FROM_FORMS}
        dev = [c for c in FROM_FORMS if not T.agrees(c, exp, obs[c], False)]
        if not dev:
            continue
        canon = {c: (obs[c]["err"] if isinstance(obs[c], dict) else obs[c]) for c in FROM_FORMS}
        stats["failing_records"] += 1
        disagree = len(set(canon.values())) > 1
        rel = "variants_disagree" if disagree else "same_wrong_answer"
        stats["rel:" + rel] += 1
        rep = {"kind": "reorder_from", "relation": rel, "tree": q,
               "variants": [{"from": c, "sql": obof(c).sql(c, q), "equals_model": c not in dev,
                             "observed_pairs": None if isinstance(obs[c], dict) else [[j // NU + 1, j % NU + 1] for j, x in enumerate(obs[c]) if x == "T"][:12],
                             "error": obs[c]["err"] if isinstance(obs[c], dict) else None} for c in FROM_FORMS],
               "expected_pairs": [[j // NU + 1, j % NU + 1] for j, x in enumerate(exp) if x == "T"][:12]}
        blames = []
        for c in FROM_FORMS:
            if c not in dev:
                blames.append(collections.OrderedDict())
                continue
            o = obof(c)
            bl = T.Blamer(gen, o, lambda t, r=r: r["nodes"][0][T.key(t)], row_of)
            o.ensure(bl.need(c, q))       # the sub-expressions are observed in the same FROM formulation
            # node signatures carry the formulation as their context; to compare formulations the context is
            # normalised, and put back for the ones that differ
            blames.append(collections.OrderedDict((with_ctx(s, "where"), {"node": d.get("node"), "formulation": c}) for s, d in bl.blame(c, q).items()))
        # the formulations that return the most common answer are the reference behaviour: what they get wrong is a
        # defect of the predicate (C14); a formulation that answers differently is named with what only it gets wrong
        groups = collections.Counter(canon.values())
        best = max(groups.values())
        major_answer = canon["from t,u"] if groups[canon["from t,u"]] == best else [a_ for a_, n_ in groups.items() if n_ == best][0]
        major = [c for c in FROM_FORMS if canon[c] == major_answer]
        bl_of = dict(zip(FROM_FORMS, blames))
        major_blame = bl_of[major[0]]
        for s, d in major_blame.items():
            J.node("reorder_from", rel, s, "where", False, dict(rep, blamed_node=d.get("node"), blamed_formulation=major[0]))
        done = set()
        for c in FROM_FORMS:
            if c in major:
                continue
            # what only this formulation gets wrong (a formulation that is right while the majority is wrong for
            # reasons already judged above needs no entry of its own). Both orders of the same join syntax count as
            # one formulation when both deviate.
            cls = FORM_CLASS[c]
            both = all(x not in major for x in FROM_FORMS if FORM_CLASS[x] == cls)
            label = cls if both or cls == "qualified columns" else cls + " (one table order only)"
            own = [s for s in bl_of[c] if s not in major_blame] or list(bl_of[c])
            for s in own:
                if (label, s) in done:
                    continue
                done.add((label, s))
                d = bl_of[c][s]
                J.node("reorder_from", rel, s, label, True, dict(rep, blamed_node=d.get("node"), blamed_formulation=c))
    stats["queries"] += ob.queries + ob_q.queries


def substitute(tree, m):
    if tree[0] == "opq":
        return ["opq", m[tree[1]]]
    if tree[0] in ("col", "lit", "tv"):
        return tree
    return [tree[0]] + [substitute(c, m) for c in tree[1:]]


def part_opaque(J, ntriples, rng, atoms, contexts, nrows, tag):
    """atoms: name -> (class, sql). Observe every atom, then judge every compound of TLC's opq records under
    seeded assignments of atoms to A, B, C."""
    chk, gen, stats = J.chk, J.gen, J.stats
    names = sorted(atoms)
    sqlmap = {n: atoms[n][1] for n in names}
    ob = T.Observer(D_SETUP, nrows, atoms=sqlmap, contexts=contexts)
    leaf = {n: ["opq", n] for n in names}
    ob.ensure([("select", leaf[n]) for n in names] + [("where", leaf[n]) for n in names])
    usable, val = [], {}
    for n in names:
        o = ob.get("select", leaf[n])
        stats["opaque_atoms"] += 1
        if isinstance(o, dict) or "?" in o:
            # the atom cannot be observed as a truth value: nothing can be judged above it
            sig = "opaque_atom|not_observable_in_select_list|%s:%s" % (atoms[n][0], o["err"] if isinstance(o, dict) else "non_boolean_value")
            J.per_sig[sig] += 1
            chk.classify(sig, {"atom": sqlmap[n], "sql": ob.sql("select", leaf[n]), "observed": o if not isinstance(o, dict) else o["err"]})
            continue
        w = ob.get("where", leaf[n])
        if not T.agrees("where", o, w):
            # the two evaluators disagree on the atom itself: reported once; no compound is built over it
            how = w["err"] if isinstance(w, dict) else "where_returns_rows_whose_select_value_is_%s" % "".join(sorted({o[j] for j in range(nrows) if (w[j] == "T") != (o[j] == "T")}))
            sig = "opaque_atom|where_differs_from_select_list|%s:%s" % (atoms[n][0], how)
            J.per_sig[sig] += 1
            chk.classify(sig, {"atom": sqlmap[n], "select_sql": ob.sql("select", leaf[n]), "select_values": o,
                               "where_sql": ob.sql("where", leaf[n]), "where_rows": w if isinstance(w, dict) else [j + 1 for j in range(nrows) if w[j] == "T"]})
            continue
        usable.append(n)
        val[n] = o
        stats["opaque_atoms_usable"] += 1
        stats["opaque_usable:" + atoms[n][0]] += 1
        for x in o:
            stats["atom_value:" + x] += 1
    if len(usable) < 3:
        raise vlib.ToolError("fewer than three observable opaque atoms (%s)" % tag)
    triples = [tuple(rng.sample(usable, 3)) for _ in range(ntriples)]
    for n in usable:       # every usable atom is used at least once
        if not any(n in t for t in triples):
            triples.append((n,) + tuple(rng.sample([x for x in usable if x != n], 2)))
    recs = [r for r in gen.rewrites if r["on"] == "v"]
    jobs = []
    for tr in triples:
        m = dict(zip("ABC", tr))
        idx = [("TFN".index(val[tr[0]][j]) * 9 + "TFN".index(val[tr[1]][j]) * 3 + "TFN".index(val[tr[2]][j])) for j in range(nrows)]
        for r in recs:
            variants = [substitute(v, m) for v in r["variants"]]
            vals = ["".join(tt[i] for i in idx) for tt in r["vals"]]
            nodes = []
            for v, nd in zip(r["variants"], r["nodes"]):
                nodes.append({T.key(substitute(n, m)): "".join(nd[T.key(n)][i] for i in idx) for n in T.nodes(v)})
            jobs.append({"kind": r["kind"], "same": r["same"], "on": "d", "variants": variants, "vals": vals, "nodes": nodes})
    ob.ensure(("where", v) for r in jobs for v in r["variants"])
    for r in jobs:
        judge_record(J, r, ob, "where", lambda j, r=r: (lambda t: r["nodes"][j][T.key(t)]), lambda j: None)
    stats["queries"] += ob.queries
    stats["opaque_compounds"] += len(jobs)


def run(chk):
    p = params(chk)
    chk.assumptions += ["rewrite catalogue of MC_ThreeVL!Rewrites; predicates from the C14 grammar",
                        "opaque atoms: the value per row is what TurDB's select list shows; only the logic above the atoms is judged",
                        "a wrong answer shared by ALL formulations of a query is C14's business: accepted iff its blamed node is a known finding of C14",
                        "tables t (100 rows, all combinations), u (3 rows), d (9 rows with vector / JSONB columns)"]
    vlib.build_harness(); chk.mark("build")
    gen = T.Generated()
    w = 12 if chk.tier == "thorough" else 8
    T.run_gen(gen, "rw", Mode="rw", Seed=chk.seed, EmitNodes=True, workers=w, timeout=3000, **p["rw"])
    T.run_gen(gen, "opq", Mode="opq", Seed=chk.seed, EmitNodes=True, workers=4, timeout=1200, Partners=1, CheckLaws="none")
    chk.mark("tlc")
    kinds = collections.Counter(r["kind"] for r in gen.rewrites if r["on"] != "v")
    need = ["tlp", "commute_and", "commute_or", "reassociate_and", "reassociate_or", "add_true_conjunct", "add_false_disjunct",
            "double_negation", "de_morgan_and", "de_morgan_or", "in_list_as_or", "between_as_two_comparisons", "reorder_from"]
    missing = [k for k in need if kinds[k] == 0]
    if missing:
        raise vlib.ToolError("vacuous generation: no rewrite of kind %s" % missing)
    with_unknown = sum(1 for r in gen.rewrites if r["on"] == "t" and r["kind"] == "tlp" and "N" in r["vals"][0])
    if with_unknown == 0:
        raise vlib.ToolError("vacuous generation: no predicate with an UNKNOWN row")
    setup = T.setup_sql(gen, with_u=True)
    T.check_tables(gen, setup, with_u=True)
    J = Judge(chk, gen)
    stats = J.stats
    rng = random.Random(chk.seed)
    recs, ob = part_rewrites(J, setup); chk.mark("rewrites")
    part_select_permutations(J, setup, recs, p["perms"], rng); chk.mark("select_permutations")
    part_from_reordering(J, setup); chk.mark("from_reordering")
    ctx_d = {"where": "SELECT id FROM d WHERE %s", "select": "SELECT id, %s FROM d"}
    part_opaque(J, p["triples"], rng, ATOMS_D, ctx_d, D_ROWS, "table")
    ctx_w = {"where": "SELECT id FROM " + W_FROM + " WHERE %s", "select": "SELECT id, %s FROM " + W_FROM}
    part_opaque(J, max(3, p["triples"] // 3), rng, ATOMS_W, ctx_w, D_ROWS, "window_subquery")
    chk.mark("opaque")
    for cls in ("T", "F", "N"):
        if stats["atom_value:" + cls] == 0:
            raise vlib.ToolError("vacuous: no usable opaque atom ever takes the value %s" % cls)
    for cls in ("vector", "json", "window"):
        if stats["opaque_usable:" + cls] == 0:
            raise vlib.ToolError("vacuous: no usable opaque atom of the dialect class %s" % cls)
    samples = []
    for r in rng.sample(recs, min(3, len(recs))):
        samples.append({"kind": r["kind"], "variants": [{"sql": ob.sql("where", v), "expected_true_ids": [j + 1 for j, x in enumerate(r["vals"][i]) if x == "T"][:15],
                                                        "observed_true_ids": ([j + 1 for j, x in enumerate(ob.get("where", v)) if x == "T"][:15] if not isinstance(ob.get("where", v), dict) else ob.get("where", v)["err"])}
                                                       for i, v in enumerate(r["variants"])]})
    npred = sum(1 for r in recs if r["kind"] == "tlp")
    nontrivial = sum(1 for r in recs if r["kind"] == "tlp" and len(set(r["vals"][0])) >= 2)
    chk.cov = {"evaluations": int(stats["variants"]), "distinct_nontrivial": nontrivial,
               "rule": "distinct base predicates whose value takes at least two of T/F/N over the 100 rows (each is rewritten in every applicable way)",
               "samples": samples, "predicates": npred, "predicates_with_unknown_rows": with_unknown,
               "rewrite_records": int(stats["records"]), "rewrite_kinds": dict(kinds), "queries_run": int(stats["queries"]),
               "failing_records": int(stats["failing_records"]), "relations": {k[4:]: v for k, v in stats.items() if k.startswith("rel:")},
               "opaque": {"atoms": int(stats["opaque_atoms"]), "usable": int(stats["opaque_atoms_usable"]), "compound_records": int(stats["opaque_compounds"]),
                          "usable_by_class": {k[14:]: v for k, v in stats.items() if k.startswith("opaque_usable:")},
                          "atom_values": {c: int(stats["atom_value:" + c]) for c in "TFN"}},
               "select_permutations_all_wrong_alike": int(stats["select_permutations_all_wrong_alike"]),
               "blamed_nodes_explained_by_C14_findings": dict(J.explained),
               "signatures": dict(J.per_sig), "tlc_runs": gen.stats, "exhaustive": False}


def replay(chk, path):
    d = json.load(open(path))
    r = d["replay"]
    vlib.build_harness()
    gen = T.Generated()
    T.run_gen(gen, "tables", Mode="opq", Seed=1, EmitNodes=False, workers=2, timeout=600, Partners=1, CheckLaws="none")
    setup = T.setup_sql(gen, with_u=True) + D_SETUP
    print("signature: %s" % d["signature"])
    qs = []
    for v in r.get("variants", []):
        q = v.get("sql") or v.get("select_sql")
        if q:
            qs.append((q, v))
    for k in ("sql", "select_sql", "where_sql"):
        if r.get(k):
            qs.append((r[k], {}))
    res = oracle.run_sql(setup, [q for q, _ in qs], batch=50)
    outs = []
    for (q, v), o in zip(qs, res):
        rows = o.get("rows")
        shown = sorted(rows, key=lambda x: json.dumps(x, default=str))[:30] if rows is not None else o
        outs.append(json.dumps(shown, default=str))
        print("query:    %s" % q)
        if "expected" in v:
            print("  expected (T/F/N per row, from TLC): %s" % v["expected"])
        print("  observed rows: %s" % json.dumps(shown, default=str)[:600])
    rel = r.get("relation", "")
    diverges = True
    if rel == "variants_disagree" and r.get("kind") != "permute_select":
        diverges = len(set(outs)) > 1
    elif r.get("variants") and all("expected" in v and "sql" in v for v in r["variants"]):
        diverges = False
        for (q, v), o in zip(qs, res):
            ids = sorted(x[0] for x in o.get("rows", [])) if "rows" in o else None
            want = [j + 1 for j, x in enumerate(v["expected"]) if x == "T"]
            if ids != want:
                diverges = True
    print("DIVERGENCE reproduced" if diverges else "no divergence on the current tree")
    vlib.cleanup()
    return 1 if diverges else 0

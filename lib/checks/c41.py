"""C41 - every DATE / TIME / TIMESTAMP text converts to the internal value the proleptic Gregorian calendar defines,
renders back to the same canonical text, invalid ones are rejected, and every converter of calendar dates agrees.

The calendar is spec/Calendar.tla: TLC checks the oracle's own meta-invariants for all 3 652 059 dates (round trip,
consecutive dates differ by one day, weekday advances by one, year lengths, 400-year cycle) and emits one row per
(year, month); the check expands the days of a month linearly and drives every converter TurDB has:
  literal   'yyyy-mm-dd' inserted into a DATE column (parsing/literal.rs), read back as the stored day number
  render    the stored value rendered by TurDB's own renderer (cli/table.rs format_date / jdn_to_ymd)
  default   CREATE TABLE .. DATE DEFAULT '..' + INSERT of the default (constraints/mod.rs days_from_ymd)
  cast      CAST('..' AS DATE) (sql/predicate.rs parse_date)
  fn        DATEDIFF / TO_DAYS differences, FROM_DAYS(TO_DAYS(s)), DATE_ADD/DATE_SUB by one day and by 400 days and
            back (sql/functions/datetime.rs date_to_days / days_to_date)
"""
import bisect, json, os, random
import vlib, caltab

LEVEL = "exploration"
MANIFEST = dict(cat=LEVEL, ref="DESIGN.md 3.10, 6 (C41)",
    tech="TLA+ calendar oracle Calendar.tla (IsLeap, DaysInMonth, DaysFromCivil, CivilFromDays, Dow) model-checked by TLC over every (year, month) of 1..9999 with meta-invariants over all 3 652 059 dates; TLC emits the per-month table (day number of the 1st, length, weekday, canonical yyyy-mm text), every second of a day, boundary instants, timestamp compositions and the invalid field combinations; the check expands days linearly and drives every date converter of TurDB through SQL in batches, comparing stored values and TurDB-rendered text",
    text="thorough: every calendar date of years 1..9999 (3 652 059) goes through the literal parser, the DEFAULT parser, CAST, the date-function helpers (as differences from 1970-01-01, as inverses, +-1 and +-400 days) and the text renderer and must give the day number / canonical text the calendar defines; all 86 400 seconds of a day, boundary instants with microseconds and timestamps at year ends / Feb 28-29 / Mar 1 of 24 years likewise; day = len+1 for every month of every year, month 0/13, day 0, year 0/10000 and 24:00:00-style times must be rejected by every converter. quick: the same on a stratified subset (first and last day of every month, every Feb 28/29, every day of the century years and of ~45 further years) using the cached table re-validated against TLC on a seeded sample of years",
    note="expected values come from TLC (cached table keyed by the spec hash under out/cache, hash-checked); python only adds (d-1) to the values of the 1st of a month. The private converters are reached through SQL and through TurDB's public table renderer compiled from /repo (harness binary calrun); typed literals (DATE '...') do not parse in TurDB, so literals are strings assigned to typed columns")

MIN_DAY, MAX_DAY = -719162, 2932896
SELFTEST = os.environ.get("VERIF_SELFTEST") == "1"


class Judge(object):
    def __init__(self, chk, months):
        self.chk = chk
        self.firsts = [m["first"] for m in months]
        self.months = months
        self.n = {}          # converter -> comparisons
        self.sig_counts = {}
        self.samples = []

    def text_of(self, days):
        i = bisect.bisect_right(self.firsts, days) - 1
        mo = self.months[i]
        return "%s-%02d" % (mo["ym"], days - mo["first"] + 1)

    def count(self, conv, k=1):
        self.n[conv] = self.n.get(conv, 0) + k

    def diverge(self, conv, kind, cls, replay):
        sig = "conv=%s kind=%s class=%s" % (conv, kind, cls)
        self.sig_counts[sig] = self.sig_counts.get(sig, 0) + 1
        if self.sig_counts[sig] <= 1:
            replay = dict(replay, converter=conv, kind=kind)
            self.chk.classify(sig, replay)
        elif self.chk.findings.known(sig):
            self.chk.findings.record(sig)


def exp_days(x):
    if SELFTEST and x.y == 2023 and x.m == 3:
        return x.days + 1        # deliberately wrong expectation: the check must report a VIOLATION
    return x.days


# ----------------------------------------------------------------------------- valid dates
C41_COLS = [c for c in caltab.DATE_COLS if c[0] in ("stored", "cast", "datediff", "to_days", "from_days", "date_add", "date_sub", "add_back")]


def judge_dates(J, dates):
    cases, idx = [], {}
    for ch in caltab.chunks(dates, caltab.ROWS_PER_DB):
        cid = "t%d" % len(cases)
        idx[cid] = ch
        cases.append(caltab.date_table_case(cid, ch, C41_COLS))
    dcases = []
    for ch in caltab.chunks(dates, caltab.DEFAULTS_PER_TABLE):
        cid = "d%d" % len(dcases)
        idx[cid] = ch
        dcases.append(caltab.default_case(cid, [x.text for x in ch]))
    res = caltab.run_cases(cases + dcases)
    names = [c[0] for c in C41_COLS]
    for c in cases:
        r = res[c["id"]]
        ch = idx[c["id"]]
        last = r[-1]
        if len(r) != 3 or "rows" not in last:
            bad = next((x for x in r if "ok" not in x and "rows" not in x), r[-1])
            J.diverge("literal", "statement_failed", "valid_date_batch", {"dates": [ch[0].text, ch[-1].text], "result": bad})
            continue
        if len(last["rows"]) != len(ch):
            J.diverge("literal", "row_count", "valid_date_batch", {"dates": [ch[0].text, ch[-1].text], "rows": len(last["rows"])})
            continue
        assert names == ["stored", "cast", "datediff", "to_days", "from_days", "date_add", "date_sub", "add_back"]
        J.n["literal"] = J.n.get("literal", 0) + len(ch)
        J.n["cast"] = J.n.get("cast", 0) + len(ch)
        J.n["fn"] = J.n.get("fn", 0) + 6 * len(ch)
        for row, trow in zip(last["rows"], last["text"]):
            x = ch[row[0]]
            ed = exp_days(x)
            _, stored, cast, datediff, to_days, from_days, date_add, date_sub, add_back = row
            if stored == {"date": ed}:
                J.n["render"] = J.n.get("render", 0) + 1
                if trow[1] != x.text:
                    J.diverge("render", "wrong_text", x.feats(), {"date": x.text, "expected_days": ed, "observed": trow[1]})
            else:
                J.diverge("literal", "wrong_day_number", x.feats(), {"date": x.text, "expected_days": ed, "observed": stored})
            if cast != ed and cast != {"date": ed}:
                J.diverge("cast", "wrong_day_number", x.feats(), {"date": x.text, "expected_days": ed, "observed": cast})
            if datediff != ed:
                J.diverge("fn_datediff", "wrong_day_number", x.feats(), {"date": x.text, "expected_days": ed, "observed": datediff})
            if to_days != ed:
                J.diverge("fn_to_days", "wrong_day_number", x.feats(), {"date": x.text, "expected_days": ed, "observed": to_days})
            if from_days != x.text:
                J.diverge("fn_from_days", "not_inverse", x.feats(), {"date": x.text, "expected_days": ed, "observed": from_days})
            if x.days < MAX_DAY and date_add != J.text_of(x.days + 1):
                J.diverge("fn_date_add", "wrong_successor", x.feats(), {"date": x.text, "observed": date_add, "expected": J.text_of(x.days + 1)})
            if x.days > MIN_DAY and date_sub != J.text_of(x.days - 1):
                J.diverge("fn_date_sub", "wrong_predecessor", x.feats(), {"date": x.text, "observed": date_sub, "expected": J.text_of(x.days - 1)})
            if x.days + 400 <= MAX_DAY and add_back != x.text:
                J.diverge("fn_date_add", "add_then_sub_400_not_identity", x.feats(), {"date": x.text, "observed": add_back})
    for c in dcases:
        r = res[c["id"]]
        ch = idx[c["id"]]
        last = r[-1]
        if len(r) != 3 or "rows" not in last or len(last["rows"]) != 1:
            bad = next((x for x in r if "ok" not in x and "rows" not in x), r[-1])
            J.diverge("default", "statement_failed", "valid_date_batch", {"dates": [ch[0].text, ch[-1].text], "result": bad})
            continue
        row, trow = last["rows"][0], last["text"][0]
        for i, x in enumerate(ch):
            J.count("default")
            ed = exp_days(x)
            if caltab.micros(row[i + 1]) != ed or not (isinstance(row[i + 1], dict) and "date" in row[i + 1]):
                J.diverge("default", "wrong_day_number", x.feats(), {"date": x.text, "expected_days": ed, "observed": row[i + 1]})
            elif trow[i + 1] != x.text:
                J.diverge("render", "wrong_text", x.feats(), {"date": x.text, "observed": trow[i + 1]})


# ----------------------------------------------------------------------------- invalid dates
def invalid_kind(y, m, d):
    if y < 1:
        return "year_0"
    if y > 9999:
        return "year_10000"
    if m == 0:
        return "month_0"
    if m == 13:
        return "month_13"
    if d == 0:
        return "day_0"
    if m == 2 and d == 29:
        return "feb29_non_leap"
    return "day_after_month_end"


def fmt_date(y, m, d):
    return "%04d-%02d-%02d" % (y, m, d)


def judge_invalid(J, bads, typ="DATE", kind_of=None):
    """bads: list of (text, kind).  Every converter must reject: the literal INSERT fails; CAST gives NULL or an error;
    a DEFAULT makes CREATE TABLE or the INSERT fail."""
    cases, idx = [], {}
    sfx = "" if typ == "DATE" else "_" + typ.lower()
    for ch in caltab.chunks(bads, 300):
        cid = "i%d" % len(cases)
        idx[cid] = ch
        ops = [{"k": "exec", "sql": "CREATE TABLE t (id INT, d %s)" % typ}]
        ops += [{"k": "exec", "sql": "INSERT INTO t VALUES (%d, '%s')" % (i, t)} for i, (t, _) in enumerate(ch)]
        ops.append({"k": "query", "sql": "SELECT id, d FROM t"})
        ops.append({"k": "query", "sql": "SELECT " + ", ".join("CAST('%s' AS %s)" % (t, typ) for t, _ in ch)})
        cases.append({"id": cid, "ops": ops})
        cases.append(dict(caltab.default_case("D" + cid, [t for t, _ in ch], typ)))
        idx["D" + cid] = ch
    res = caltab.run_cases(cases)
    for c in cases:
        ch, r = idx[c["id"]], res[c["id"]]
        if c["id"].startswith("D"):
            if len(r) == 3 and "rows" in r[2] and r[2]["rows"]:
                row, trow = r[2]["rows"][0], r[2]["text"][0]
                for i, (t, kind) in enumerate(ch):
                    J.count("default_reject")
                    if row[i + 1] is None:
                        J.diverge("default" + sfx, "invalid_stored_as_null", kind, {"text": t, "type": typ})
                    else:
                        J.diverge("default" + sfx, "accepts_invalid", kind, {"text": t, "type": typ, "stored": row[i + 1], "rendered": trow[i + 1]})
            else:
                # the batch was rejected as a whole: every member must be rejected on its own too
                single = [caltab.default_case("s%d" % i, [t], typ) for i, (t, _) in enumerate(ch)]
                sr = caltab.run_cases(single)
                for i, (t, kind) in enumerate(ch):
                    J.count("default_reject")
                    rr = sr["s%d" % i]
                    if len(rr) == 3 and "rows" in rr[2] and rr[2]["rows"]:
                        J.diverge("default" + sfx, "accepts_invalid", kind, {"text": t, "type": typ, "stored": rr[2]["rows"][0][1]})
            continue
        if len(r) != len(ch) + 3:
            J.diverge("literal" + sfx, "statement_failed", "invalid_batch", {"result": r[-1]})
            continue
        stored = {row[0]: (row[1], trow[1]) for row, trow in zip(r[-2].get("rows", []), r[-2].get("text", []))}
        for i, (t, kind) in enumerate(ch):
            J.count("literal_reject")
            ins = r[1 + i]
            if "panic" in ins:
                J.diverge("literal" + sfx, "panic_on_invalid", kind, {"text": t, "type": typ, "panic": ins["panic"]})
            elif "ok" in ins or i in stored:
                J.diverge("literal" + sfx, "accepts_invalid", kind, {"text": t, "type": typ, "stored": stored.get(i, [None])[0], "rendered": stored.get(i, [None, None])[1]})
        casts = r[-1]
        if "rows" in casts:
            for (t, kind), v in zip(ch, casts["rows"][0]):
                J.count("cast_reject")
                if v is not None:
                    J.diverge("cast" + sfx, "accepts_invalid", kind, {"text": t, "type": typ, "value": v})
        elif "panic" in casts:
            J.diverge("cast" + sfx, "panic_on_invalid", "batch", {"panic": casts["panic"]})
        else:
            J.count("cast_reject", len(ch))      # an error for the whole statement is a rejection


# ----------------------------------------------------------------------------- TIME / TIMESTAMP
def time_text(hm, s, us=0):
    return "%s:%02d" % (hm, s) + (".%06d" % us if us else "")


def judge_times(J, times, thorough, rng):
    minutes = times["minutes"]
    if not thorough:
        keep = {0, 1, 59, 60, 719, 720, 721, 1380, 1438, 1439} | {rng.randrange(1440) for _ in range(110)}
        minutes = [m for i, m in enumerate(minutes) if i in keep]
    items = []          # (text, expected micros, class)
    for mi in minutes:
        for s in range(60):
            items.append((time_text(mi["hm"], s), (mi["sec0"] + s) * 1000000, "whole_second"))
    for b in times["bound"]["ok"]:
        items.append((b["txt"] + (".%06d" % b["us"] if b["us"] else ""), b["v"][0] * 1000000 + b["v"][1], "fraction" if b["us"] else "whole_second"))
    cases, idx = [], {}
    for ch in caltab.chunks(items, caltab.ROWS_PER_DB):
        cid = "T%d" % len(cases)
        idx[cid] = ch
        vals = ",".join("(%d,'%s','%s')" % (i, t, t) for i, (t, _, _) in enumerate(ch))
        cases.append({"id": cid, "ops": [{"k": "exec", "sql": "CREATE TABLE t (id INT, v TIME, s TEXT)"}, {"k": "exec", "sql": "INSERT INTO t VALUES " + vals},
                                         {"k": "query", "sql": "SELECT id, v, CAST(s AS TIME) FROM t"}]})
    dcases = []
    for ch in caltab.chunks(items, caltab.DEFAULTS_PER_TABLE):
        cid = "TD%d" % len(dcases)
        idx[cid] = ch
        dcases.append(caltab.default_case(cid, [t for t, _, _ in ch], "TIME"))
    res = caltab.run_cases(cases + dcases)
    for c in cases:
        ch, r = idx[c["id"]], res[c["id"]]
        if len(r) != 3 or "rows" not in r[2] or len(r[2]["rows"]) != len(ch):
            J.diverge("literal_time", "statement_failed", "valid_time_batch", {"result": r[-1], "first": ch[0][0]})
            continue
        for row, trow in zip(r[2]["rows"], r[2]["text"]):
            t, exp, cls = ch[row[0]]
            J.count("literal_time")
            if caltab.micros(row[1]) != exp:
                J.diverge("literal_time", "wrong_value", cls, {"time": t, "expected_micros": exp, "observed": row[1]})
            elif trow[1] != t:
                J.diverge("render_time", "wrong_text", cls, {"time": t, "observed": trow[1]})
            J.count("cast_time")
            if caltab.micros(row[2]) != exp:
                J.diverge("cast_time", "wrong_value", cls, {"time": t, "expected_micros": exp, "observed": row[2]})
    for c in dcases:
        ch, r = idx[c["id"]], res[c["id"]]
        if len(r) != 3 or "rows" not in r[2] or len(r[2]["rows"]) != 1:
            J.diverge("default_time", "statement_failed", "valid_time_batch", {"result": r[-1]})
            continue
        for i, (t, exp, cls) in enumerate(ch):
            J.count("default_time")
            if caltab.micros(r[2]["rows"][0][i + 1]) != exp:
                J.diverge("default_time", "wrong_value", cls, {"time": t, "expected_micros": exp, "observed": r[2]["rows"][0][i + 1]})
    bad = [("%02d:%02d:%02d" % tuple(t), "hour_24" if t[0] == 24 and t[1] == 0 and t[2] == 0 else "field_out_of_range") for t in times["bound"]["bad"]]
    judge_invalid(J, bad, "TIME")
    return len(items), len(bad)


def judge_timestamps(J, times):
    items = []
    for e in times["ts"]:
        for a in e["at"]:
            days, secs, us = a["v"]
            exp = (days * 86400 + secs) * 1000000 + us
            cls = ("before_1970" if days < 0 else "from_1970") + "+" + ("midnight" if secs == 0 and us == 0 else "non_midnight")
            frac = ".%06d" % us if us else ""
            items.append((e["dtxt"] + " " + a["txt"] + frac, exp, cls, e["dtxt"] + "T" + a["txt"] + frac))
    cases, idx = [], {}
    for ch in caltab.chunks(items, caltab.ROWS_PER_DB):
        cid = "S%d" % len(cases)
        idx[cid] = ch
        vals = ",".join("(%d,'%s','%s','%s')" % (i, t, tt, t) for i, (t, _, _, tt) in enumerate(ch))
        cases.append({"id": cid, "ops": [{"k": "exec", "sql": "CREATE TABLE t (id INT, v TIMESTAMP, w TIMESTAMP, s TEXT)"}, {"k": "exec", "sql": "INSERT INTO t VALUES " + vals},
                                         {"k": "query", "sql": "SELECT id, v, w, CAST(s AS TIMESTAMP) FROM t"}]})
        idx["D" + cid] = ch
        cases.append(caltab.default_case("D" + cid, [t for t, _, _, _ in ch], "TIMESTAMP"))
    res = caltab.run_cases(cases)
    for c in cases:
        ch, r = idx[c["id"]], res[c["id"]]
        if len(r) != 3 or "rows" not in r[2]:
            J.diverge("literal_timestamp", "statement_failed", "valid_batch", {"result": r[-1], "first": ch[0][0]})
            continue
        if c["id"].startswith("D"):
            for i, (t, exp, cls, _) in enumerate(ch):
                J.count("default_timestamp")
                if caltab.micros(r[2]["rows"][0][i + 1]) != exp:
                    J.diverge("default_timestamp", "wrong_value", cls, {"timestamp": t, "expected_micros": exp, "observed": r[2]["rows"][0][i + 1]})
            continue
        for row, trow in zip(r[2]["rows"], r[2]["text"]):
            t, exp, cls, tt = ch[row[0]]
            J.count("literal_timestamp", 2)
            if caltab.micros(row[1]) != exp or caltab.micros(row[2]) != exp:
                J.diverge("literal_timestamp", "wrong_value", cls, {"timestamp": t, "expected_micros": exp, "observed": [row[1], row[2]]})
            else:
                J.count("render_timestamp")
                if trow[1] != t:
                    J.diverge("render_timestamp", "wrong_text", cls, {"timestamp": t, "stored_micros": exp, "observed": trow[1]})
            J.count("cast_timestamp")
            if caltab.micros(row[3]) != exp:
                J.diverge("cast_timestamp", "wrong_value", cls, {"timestamp": t, "expected_micros": exp, "observed": row[3]})
    return len(items)


# ----------------------------------------------------------------------------- driver
def run(chk):
    thorough = chk.tier == "thorough"
    rng = random.Random(chk.seed)
    chk.assumptions += ["the harness value of a DATE/TIME/TIMESTAMP is the stored integer (OwnedValue::Date/Time/Timestamp)",
                        "canonical text: yyyy-mm-dd, hh:mm:ss[.ffffff], 'yyyy-mm-dd hh:mm:ss[.ffffff]' (what TurDB's renderer prints for its own values)",
                        "SQL renderer / comparer in lib/caltab.py and the calrun harness binary are trusted"]
    vlib.build_harness(); chk.mark("build")
    # the two TLC runs are independent: run them side by side
    import threading
    box = {}
    def _times():
        try:
            box["times"] = caltab.load_times(chk)
        except Exception as e:          # re-raised in the main thread
            box["err"] = e
    th = threading.Thread(target=_times); th.start()
    tab = caltab.load_table(chk, regenerate=thorough)
    th.join()
    if "err" in box:
        raise box["err"]
    times = box["times"]; chk.mark("tlc")
    months = tab["months"]
    J = Judge(chk, months)
    if thorough:
        n_dates, strata = 0, {"feb29": 0, "century_year_days": 0, "month_boundaries": 0}
        buf = []
        for x in caltab.expand(months):
            buf.append(x)
            if len(buf) >= 120000:
                judge_dates(J, buf); n_dates += len(buf); _strata(buf, strata); buf = []
        if buf:
            judge_dates(J, buf); n_dates += len(buf); _strata(buf, strata)
        if n_dates != caltab.N_DATES:
            raise vlib.ToolError("expanded %d dates, expected %d" % (n_dates, caltab.N_DATES))
        inv_years = sorted(tab["invalid"])
        nfull = 9999
    else:
        dates, nfull = caltab.quick_subset(months, chk.seed)
        strata = {"feb29": 0, "century_year_days": 0, "month_boundaries": 0}
        _strata(dates, strata)
        for ch in caltab.chunks(dates, 120000):
            judge_dates(J, ch)
        n_dates = len(dates)
        inv_years = sorted(set(range(100, 10000, 100)) | {1, 4, 1582, 1900, 1970, 2000, 2023, 2024, 9999} | {rng.randrange(1, 10000) for _ in range(150)})
    chk.mark("valid_dates")
    bads = [(fmt_date(*b), invalid_kind(*b)) for y in inv_years for b in tab["invalid"][y]]
    bads += [(fmt_date(*b), invalid_kind(*b)) for b in times["bound"]["badyears"]]
    for ch in caltab.chunks(bads, 60000):
        judge_invalid(J, ch, "DATE")
    chk.mark("invalid_dates")
    n_times, n_badt = judge_times(J, times, thorough, rng)
    n_ts = judge_timestamps(J, times)
    chk.mark("times")
    kinds = {}
    for _, k in bads:
        kinds[k] = kinds.get(k, 0) + 1
    need = ["feb29_non_leap", "day_after_month_end", "month_0", "month_13", "day_0", "year_0", "year_10000"]
    missing = [k for k in need if not kinds.get(k)] + [k for k, v in strata.items() if not v]
    if missing or n_times < 3600 or n_ts < 100:
        raise vlib.ToolError("vacuous run: classes never generated: %s (times %d, timestamps %d)" % (missing, n_times, n_ts))
    chk.cov = {"evaluations": sum(J.n.values()), "distinct_nontrivial": n_dates + n_times + n_ts + len(bads) + n_badt,
               "rule": "one per distinct calendar date, time of day, timestamp or invalid text driven through the converters (every one is a distinct input with its own expected internal value)",
               "dates_checked": n_dates, "all_dates": n_dates == caltab.N_DATES, "exhaustive": bool(thorough and n_dates == caltab.N_DATES),
               "years_with_every_day": nfull, "strata": strata, "invalid_dates": len(bads), "invalid_kinds": kinds,
               "times_checked": n_times, "invalid_times": n_badt, "timestamps_checked": n_ts, "comparisons_per_converter": J.n,
               "calendar_table": tab["info"], "tlc_time_states": times["stats"].get("distinct"),
               "divergences_per_signature": J.sig_counts, "selftest": SELFTEST,
               "samples": [{"date": "2024-02-29", "expected_days": 19782}, {"date": J.text_of(MIN_DAY), "expected_days": MIN_DAY},
                           {"date": J.text_of(MAX_DAY), "expected_days": MAX_DAY}]}


def _strata(dates, st):
    for x in dates:
        if x.m == 2 and x.d == 29:
            st["feb29"] += 1
        if x.y % 100 == 0:
            st["century_year_days"] += 1
        if x.d == 1 or x.d == x.len:
            st["month_boundaries"] += 1


def replay(chk, path):
    """re-run one stored divergence: the date / time text through every converter, printing what TurDB returns"""
    rep = json.load(open(path))["replay"]
    vlib.build_harness()
    text = rep.get("date") or rep.get("text") or rep.get("time") or rep.get("timestamp")
    typ = rep.get("type") or ("DATE" if "date" in rep else "TIME" if "time" in rep else "TIMESTAMP" if "timestamp" in rep else "DATE")
    if text is None:
        print("replay: batch-level divergence, stored result: %s" % json.dumps(rep)[:600])
        return 1
    ops = [{"k": "exec", "sql": "CREATE TABLE t (id INT, v %s, s TEXT)" % typ}, {"k": "exec", "sql": "INSERT INTO t VALUES (1, '%s', '%s')" % (text, text)},
           {"k": "query", "sql": "SELECT id, v, CAST(s AS %s)%s FROM t" % (typ, ", DATEDIFF(s, '1970-01-01'), FROM_DAYS(TO_DAYS(s)), DATE_ADD(s, 1), DATE_SUB(s, 1)" if typ == "DATE" else "")}]
    res = caltab.run_cases([{"id": "r", "ops": ops}, caltab.default_case("d", [text], typ)])
    print("replay %s '%s' (signature %s)" % (typ, text, json.load(open(path))["signature"]))
    print("  expected: %s" % json.dumps({k: v for k, v in rep.items() if k.startswith("expected")}))
    print("  literal/cast/functions: %s" % json.dumps(res["r"][1:])[:800])
    print("  default: %s" % json.dumps(res["d"])[:600])
    print("  recorded divergence: converter=%s kind=%s observed=%s" % (rep.get("converter"), rep.get("kind"), json.dumps(rep.get("observed", rep.get("stored")))))
    vlib.cleanup()
    return 1

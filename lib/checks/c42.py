"""C42 - configuration choices do not change query results.

Relational.tla has the stuttering action SetConfig(c): switching PRAGMA wal / synchronous / wal_autoflush /
wal_checkpoint_threshold anywhere in a history leaves the logical state alone. TLC generates DML histories with
reopen, checkpoint and configuration switches placed anywhere (per-transition emission + random walks). Every
behaviour is executed on TurDB several times:

  baseline   configuration steps rendered as no-ops (defaults: WAL off)
  switched   configuration steps rendered as the PRAGMAs they stand for (and re-applied after every reopen, because the
             settings are not persisted)
  static     the whole history under one fixed configuration from the cross product
             {wal on/off} x {synchronous OFF/NORMAL/FULL} x {autoflush on/off} x {checkpoint threshold 1/3/default}
  txn_static transaction histories (TSpec of MC_Relational.tla: BEGIN .. COMMIT / ROLLBACK / savepoints) under WAL configurations
             with checkpoint threshold 1 / 3 (COMMIT, auto-checkpoint and log flush interact)
  crowded    the history after 70 extra tables with indexes were created (more files than the 64-entry open-file LRU)

and every statement result (ok/error, affected rows, returned rows) and the full observation (scan, COUNT(*), PK /
unique / range lookups) of each run must equal the baseline run's. The comparison is run against run, so open
findings of other properties (which show identically in all runs) do not interfere.
"""
import itertools, json, random
import vlib, relrun, relational as R

LEVEL = "model_checking"
MANIFEST = dict(cat=LEVEL, ref="DESIGN.md 3.9, 6 (C42)",
    tech="TLA+ reference spec Relational.tla with the stuttering action SetConfig explored by TLC (per-transition emission, -simulate walks); each behaviour replayed on TurDB under the default configuration and under switched / static / crowded configurations, results compared run against run",
    text="every DML/reopen/checkpoint history TLC explores (depth 3 quick / 4 thorough plus random walks) with configuration switches at arbitrary points is executed under the default configuration and under (i) the switches the behaviour contains, (ii) a pairwise-covering (quick) or complete (thorough) subset of the 36-point cross product of PRAGMA wal, synchronous, wal_autoflush and wal_checkpoint_threshold, (iii) a database with 70 extra indexed tables so that the open-file LRU evicts; every statement result and the full observation must be identical to the default run",
    note="configurations are compared on results only (durability is C01/C02); bounded domain of Relational.tla; settings are re-applied after each reopen because TurDB does not persist them")

CONFIGS = {
    "default": [],
    "wal_full": ["PRAGMA wal=ON", "PRAGMA synchronous=FULL"],
    "wal_normal_noflush": ["PRAGMA wal=ON", "PRAGMA synchronous=NORMAL", "PRAGMA wal_autoflush=OFF"],
    "wal_off_ckpt1": ["PRAGMA wal=ON", "PRAGMA synchronous=OFF", "PRAGMA wal_checkpoint_threshold=1"],
    "wal_disabled": ["PRAGMA wal=OFF", "PRAGMA wal_autoflush=ON"],
}
SWITCHABLE = ["wal_full", "wal_normal_noflush", "wal_off_ckpt1", "wal_disabled"]


def static_configs(all_of_them, rng):
    pts = list(itertools.product(["ON", "OFF"], ["OFF", "NORMAL", "FULL"], ["ON", "OFF"], ["1", "3", None]))
    if not all_of_them:
        # greedy pairwise cover of the 4 factors
        need = set()
        for p in pts:
            for i, j in itertools.combinations(range(4), 2):
                need.add((i, p[i], j, p[j]))
        chosen = []
        rng.shuffle(pts)
        while need:
            best = max(pts, key=lambda p: sum(1 for i, j in itertools.combinations(range(4), 2) if (i, p[i], j, p[j]) in need))
            chosen.append(best)
            for i, j in itertools.combinations(range(4), 2):
                need.discard((i, best[i], j, best[j]))
        pts = chosen
    out = []
    for wal, sync, af, thr in pts:
        ops = ["PRAGMA wal=%s" % wal, "PRAGMA synchronous=%s" % sync, "PRAGMA wal_autoflush=%s" % af]
        if thr:
            ops.append("PRAGMA wal_checkpoint_threshold=%s" % thr)
        out.append(("wal=%s,sync=%s,autoflush=%s,threshold=%s" % (wal, sync, af, thr or "default"), ops))
    return out


def render(cid, hist, mode, static_ops=None, crowded=False):
    """-> case, marks (indices of the model steps), obs_at. mode: baseline | switched | static"""
    ops = [{"k": "exec", "sql": s} for s in R.SCHEMAS["pk_idx_b"]]
    if crowded:
        for i in range(70):
            ops.append({"k": "exec", "sql": "CREATE TABLE x%d (id INT PRIMARY KEY, w INT)" % i})
            ops.append({"k": "exec", "sql": "CREATE INDEX x%d_w ON x%d (w)" % (i, i)})
            ops.append({"k": "exec", "sql": "INSERT INTO x%d VALUES (%d, %d)" % (i, i, i)})
    current = list(static_ops or [])
    ops += [{"k": "exec", "sql": s} for s in current]
    marks = []
    for st in hist:
        op = st["op"]
        if op["k"] == "setconfig":
            if mode == "switched":
                current = CONFIGS[op["c"]]
                ops += [{"k": "exec", "sql": s} for s in current]
            marks.append(None)
            continue
        marks.append(len(ops))
        ops += R.op_sql(op)
        if op["k"] == "reopen":
            ops += [{"k": "exec", "sql": s} for s in current]
        if crowded and op["k"] in ("insert", "update", "delete"):
            # touch other files so that t's files are evicted from the open-file cache between statements
            ops += [{"k": "query", "sql": "SELECT COUNT(*) FROM x%d WHERE w >= 0" % i} for i in range(0, 70, 1)][: 70]
    obs_at = len(ops)
    ops += [{"k": "query", "sql": q} for _, q in R.OBS]
    return {"id": cid, "ops": ops}, marks, obs_at


def norm(r):
    if r is None:
        return ("missing",)
    if "panic" in r:
        return ("panic",)
    if "err" in r:
        return ("err",)
    if "rows" in r:
        return ("rows", json.dumps(sorted(r["rows"], key=json.dumps)))
    ok = r.get("ok", {})
    return ("ok", ok.get("n"), json.dumps(sorted(ok["rows"], key=json.dumps)) if ok.get("rows") else None)


def project(res, marks, obs_at):
    rs = res["res"]
    out = []
    for m in marks:
        if m is not None:
            out.append(norm(rs[m]) if m < len(rs) else ("missing",))
    for j in range(len(R.OBS)):
        out.append(norm(rs[obs_at + j]) if obs_at + j < len(rs) else ("missing",))
    return out


def describe(hist):
    return "; ".join(("SET CONFIG " + h["op"]["c"]) if h["op"]["k"] == "setconfig" else R.op_sql(h["op"])[0].get("sql", h["op"]["k"]) for h in hist)


def execute(variants):
    """variants: list of (tag, hist, mode, static_ops, crowded) -> list of (tag, projected results)"""
    rend, meta = [], {}
    for cid, (tag, hist, mode, static_ops, crowded) in enumerate(variants):
        case, marks, obs_at = render(cid, hist, mode, static_ops, crowded)
        rend.append(case)
        meta[cid] = (tag, marks, obs_at)
    inp, outp = vlib.scratch() + "/c42_in.ndjson", vlib.scratch() + "/c42_out.ndjson"
    vlib.write_ndjson(inp, rend)
    vlib.run_vh(["sql-run", "--in", inp, "--out", outp, "--jobs", vlib.NCPU, "--watchdog", 120], timeout=3000)
    out = {}
    for r in vlib.read_ndjson(outp):
        tag, marks, obs_at = meta[r["id"]]
        out[tag] = project(r, marks, obs_at)
    return out


def compare(chk, hist, label, cfgname, base, var, stats, replay_variant):
    steps = [h for h in hist if h["op"]["k"] != "setconfig"]
    names = [s["op"]["k"] for s in steps] + ["obs:" + n for n, _ in R.OBS]
    if base == var:
        stats["equal"] += 1
        return
    for i, (b, v) in enumerate(zip(base, var)):
        if b != v:
            what = "ok_vs_err" if {b[0], v[0]} == {"ok", "err"} or {b[0], v[0]} == {"rows", "err"} else ("panic" if "panic" in (b[0], v[0]) else "result")
            sig = "differs_from_default:%s:%s:%s" % (label, names[i].split(":")[0] if not names[i].startswith("obs") else "observation", what)
            stats["diverging"][sig] = stats["diverging"].get(sig, 0) + 1
            chk.classify(sig, {"behaviour": describe(hist), "hist": hist, "variant": replay_variant, "config": cfgname, "label": label, "first_difference_at": names[i],
                               "default_run": b, "this_run": v})
            return


def run(chk):
    thorough = chk.tier == "thorough"
    chk.assumptions += ["results are compared between runs of the same behaviour (default configuration vs variant)",
                        "PRAGMA settings are re-applied after each reopen (TurDB does not persist them)",
                        "bounded domain of Relational.tla"]
    vlib.build_harness(); chk.mark("build")
    rng = random.Random(chk.seed)
    max_ops, sample = (4, 4000) if thorough else (3, 1200)
    cases, walks, gstats = relrun.generate(chk, max_ops, False, True, None, simulate={"num": 200 if thorough else 30, "depth": 25},
                                           configs=SWITCHABLE if thorough else rng.sample(SWITCHABLE, 2))
    chk.mark("tlc_gen")
    total = len(cases)
    with_cfg = [c for c in cases if any(h["op"]["k"] == "setconfig" for h in c["hist"]) and c["hist"][-1]["op"]["k"] != "setconfig"]
    without = [c for c in cases if not any(h["op"]["k"] == "setconfig" for h in c["hist"])]
    key = lambda c: relrun.class_key(c) + (tuple(h["op"].get("c") for h in c["hist"] if h["op"]["k"] == "setconfig"),)
    with_cfg = vlib.stratified_sample(with_cfg, key, sample, rng)
    without = vlib.stratified_sample(without, relrun.class_key, sample // 2, rng)
    statics = static_configs(thorough, rng)
    variants = []
    plan = []       # (hist, label, cfgname, base_tag, var_tag, replay_variant)
    n = 0
    for c in with_cfg + walks:
        h = c["hist"]
        variants.append((("b", n), h, "baseline", None, False))
        variants.append((("s", n), h, "switched", None, False))
        plan.append((h, "switched", ",".join(x["op"]["c"] for x in h if x["op"]["k"] == "setconfig"), ("b", n), ("s", n), {"mode": "switched"}))
        n += 1
    for i, c in enumerate(without):
        h = c["hist"]
        variants.append((("b", n), h, "baseline", None, False))
        name, ops = statics[i % len(statics)]
        variants.append((("t", n), h, "static", ops, False))
        plan.append((h, "static", name, ("b", n), ("t", n), {"mode": "static", "static_ops": ops}))
        if i % (4 if thorough else 12) == 0:
            variants.append((("c", n), h, "baseline", None, True))
            plan.append((h, "crowded", "70 extra indexed tables", ("b", n), ("c", n), {"mode": "baseline", "crowded": True}))
            variants.append((("cw", n), h, "static", CONFIGS["wal_full"], True))
            plan.append((h, "crowded+wal", "70 extra indexed tables, wal_full", ("b", n), ("cw", n), {"mode": "static", "static_ops": CONFIGS["wal_full"], "crowded": True}))
        n += 1
    # transactions: the TSpec histories (BEGIN .. COMMIT / ROLLBACK / savepoints from a two-row table) under WAL configurations in
    # which COMMIT, auto-checkpoint and the log interact (threshold 1 / 3: a checkpoint at practically every commit)
    import os
    tcfg = vlib.scratch() + "/GenTxnFocus_c42.cfg"
    open(tcfg, "w").write(open(os.path.join(vlib.SPEC, "Gen_TxnFocus.cfg")).read().replace("MaxOps = 8", "MaxOps = %d" % (8 if thorough else 7)))
    tx = relrun.emit_cached(tcfg)["emitted"]
    tx = [c for c in tx if c["hist"][-1]["op"]["k"] in ("commit", "rollback", "drophandle") or not c["intxn"]]
    tx = vlib.stratified_sample(tx, lambda c: tuple(h["op"]["k"] for h in c["hist"][2:]), 3000 if thorough else 500, rng)
    txn_statics = [("wal=ON,sync=OFF,threshold=1", ["PRAGMA wal=ON", "PRAGMA synchronous=OFF", "PRAGMA wal_checkpoint_threshold=1"]),
                   ("wal=ON,sync=FULL,threshold=1", ["PRAGMA wal=ON", "PRAGMA synchronous=FULL", "PRAGMA wal_checkpoint_threshold=1"]),
                   ("wal=ON,sync=NORMAL,autoflush=OFF,threshold=3", ["PRAGMA wal=ON", "PRAGMA synchronous=NORMAL", "PRAGMA wal_autoflush=OFF", "PRAGMA wal_checkpoint_threshold=3"])]
    for i, c in enumerate(tx):
        h = c["hist"]
        variants.append((("b", n), h, "baseline", None, False))
        name, ops = txn_statics[i % len(txn_statics)]
        variants.append((("x", n), h, "static", ops, False))
        plan.append((h, "txn_static", name, ("b", n), ("x", n), {"mode": "static", "static_ops": ops}))
        n += 1
    res = execute(variants); chk.mark("replay")
    stats = {"equal": 0, "diverging": {}}
    per_label = {}
    for hist, label, cfgname, bt, vt, rv in plan:
        per_label[label] = per_label.get(label, 0) + 1
        compare(chk, hist, label, cfgname, res[bt], res[vt], stats, rv)
    if not per_label.get("switched") or not per_label.get("crowded") or not per_label.get("txn_static"):
        raise vlib.ToolError("no switched / crowded comparisons were generated")
    chk.cov = {"states": gstats["tlc"].get("distinct", 0), "transitions": gstats["tlc"].get("generated", 0),
               "traces_validated_against_impl": len(variants), "behaviours_generated_by_tlc": total,
               "comparisons": len(plan), "comparisons_by_kind": per_label, "identical_to_default": stats["equal"],
               "divergence_signatures": stats["diverging"], "static_configurations": [n_ for n_, _ in statics],
               "exhaustive": False, "max_ops": max_ops,
               "samples": [describe(p[0]) + "  [" + p[1] + ": " + p[2] + "]" for p in plan[:: max(1, len(plan) // 3)][:3]]}


def replay(chk, path):
    rep = json.load(open(path))["replay"]
    vlib.build_harness()
    v = rep["variant"]
    res = execute([("b", rep["hist"], "baseline", None, False),
                   ("v", rep["hist"], v.get("mode", "baseline"), v.get("static_ops"), v.get("crowded", False))])
    stats = {"equal": 0, "diverging": {}}
    compare(chk, rep["hist"], rep.get("label", "replay"), rep.get("config", ""), res["b"], res["v"], stats, v)
    print("replayed: %s [%s]" % (rep["behaviour"], rep.get("config")))
    print("  identical to default run" if stats["equal"] else "  differs: %s" % json.dumps(stats["diverging"]))
    chk.cov = {"states": 1, "transitions": len(rep["hist"]), "traces_validated_against_impl": 2, "samples": [rep["behaviour"]], "replay_of": path}
    return chk.finish()

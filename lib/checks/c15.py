"""C15 - ORDER BY, LIMIT, OFFSET and DISTINCT are exact.

TLC enumerates the queries of spec/OrderLimit.tla (select list x DISTINCT x 0-3 ORDER BY keys (column / expression /
ordinal, ASC/DESC) x LIMIT/OFFSET in {none,0,1,n-1,n,n+1} over a plain table, a GROUP BY, a join and a UNION; tables
with NULLs and duplicates, NULL-free, empty, all-NULL column), checks the oracle's meta-invariants on each and prints
the query with the sorted window input and its tie classes.  Every query is rendered to SQL and executed on TurDB (on
plain tables and on copies with a secondary index on the sort column), the EXPLAIN shape is recorded, and the observed
rows are judged with the specification's predicate AdmissibleOutput (exact sequence when the answer is unique; never a
false alarm on ties).  The python mirror of that predicate is cross-checked against TLC itself: observed outputs are
fed back to spec/Trace_OrderLimit.tla, which evaluates Verdict(obs, q)."""
import json, os, random, collections, functools
import vlib, ordagg

LEVEL = "exploration"
MANIFEST = dict(cat=LEVEL, ref="DESIGN.md 3.10, 6 (C15)",
    tech="TLA+ oracle OrderLimit.tla (comparator with NULL placement, IsSortedBy, Window, Distinct, AdmissibleOutput, named deviations) "
         "enumerated by TLC with meta-invariants on the oracle; every generated query rendered to SQL and run on TurDB with and without "
         "an index on the sort column; observed outputs judged by AdmissibleOutput (python mirror cross-checked by feeding observed "
         "outputs back to TLC through Trace_OrderLimit.tla)",
    text="every query of the bounded space (0-2 keys quick / 0-3 thorough, column/expression/ordinal keys, ASC/DESC, LIMIT and OFFSET "
         "in {none,0,1,n-1,n,n+1}, DISTINCT, over plain / WHERE / GROUP BY / join / UNION [ALL] sources on four fixed tables) returns "
         "an admissible sequence: the exact expected sequence when the ORDER BY keys leave no tie that shows, otherwise a sequence "
         "whose rows at the positions of every tie class are a sub-bag of that class; NULL first ascending, last descending",
    note="integer columns only (text/float collation is C26's); the SQL renderer and the result normaliser are trusted; signatures of "
         "unexplained divergences come from greedy query reduction inside the generated space")

SPEC_MODULE = "MC_OrderLimit.tla"
N, NOLIM = ordagg.N, ordagg.NOLIM

# ----------------------------------------------------------------------------- rendering
NAMES = {"plain": {"c1": "id", "c2": "a", "c3": "b"},
         "group": {"c1": "a", "c2": "COUNT(*)", "c3": "MIN(id)"},
         "join": {"c1": "x.id", "c2": "y.id", "c3": "x.a"},
         "union": {"c1": "id", "c2": "a", "c3": "b"}}
SECOND_BRANCH = {"c1": "id + 10", "c2": "b", "c3": "a"}


def expr_sql(src, e, second=False):
    nm = SECOND_BRANCH if second else NAMES[src]
    if e in nm:
        return nm[e]
    if e == "c2+c3":
        return "%s + %s" % (nm["c2"], nm["c3"])
    if e == "0-c2":
        return "0 - %s" % nm["c2"]
    raise ValueError(e)


def render(q):
    src = q["src"]
    sel = ", ".join(expr_sql(src, e) for e in q["sel"])
    if src == "plain":
        s = "SELECT %s%s FROM %s%s" % ("DISTINCT " if q["dist"] else "", sel, q["tab"], " WHERE id >= 2" if q["w"] == "idge2" else "")
    elif src == "group":
        s = "SELECT %s FROM %s GROUP BY a" % (sel, q["tab"])
    elif src == "join":
        s = "SELECT %s FROM %s x JOIN w y ON x.a = y.a" % (sel, q["tab"])
    else:
        s = "SELECT %s FROM %s UNION%s SELECT %s FROM %s" % (sel, q["tab"], "" if q["dist"] else " ALL",
                                                            ", ".join(expr_sql(src, e, True) for e in q["sel"]), q["tab"])
    if q["keys"]:
        s += " ORDER BY " + ", ".join((k["x"] if k["k"] == "ord" else expr_sql(src, k["x"])) + (" DESC" if k["d"] == "DESC" else "")
                                      for k in q["keys"])
    if q["lim"] != NOLIM:
        s += " LIMIT %d" % q["lim"]
    if q["off"] != NOLIM:
        s += " OFFSET %d" % q["off"]
    return s


def qkey(q):
    return json.dumps(q, sort_keys=True, separators=(",", ":"))


# ----------------------------------------------------------------------------- mirror of OrderLimit.tla
# (CmpVal, CmpDir, Cmp, Classes, AdmissibleOutput, CmpNullEq, MatchFrom, DevAdmissible, Verdict; cross-checked against TLC)
def cmp_val(x, y):
    if x == y:
        return 0
    if x == N:
        return -1
    if y == N:
        return 1
    return -1 if x < y else 1


def cmp_dir(x, y, d):
    c = cmp_val(x, y)
    return -c if d == "DESC" else c


def cmp_keys(kx, ky, dirs):
    for i, d in enumerate(dirs):
        c = cmp_dir(kx[i], ky[i], d)
        if c:
            return c
    return 0


def cmp_keys_nulleq(kx, ky, dirs):
    for i, d in enumerate(dirs):
        if kx[i] == N or ky[i] == N:
            continue
        c = cmp_dir(kx[i], ky[i], d)
        if c:
            return c
    return 0


def classes(rows, dirs):
    cls = []
    for i, r in enumerate(rows):
        if i == 0:
            cls.append(1)
        else:
            cls.append(cls[-1] if cmp_keys(rows[i - 1]["k"], r["k"], dirs) == 0 else cls[-1] + 1)
    return cls


def win(n, lim, off):
    lo = 0 if off == NOLIM else min(off, n)
    hi = n if lim == NOLIM else min(n, lo + lim)
    return lo, hi


def admissible(obs, rows, cls, lim, off):
    """AdmissibleOutput: obs list of tuples; rows sorted input [{o,k}], cls tie classes"""
    n = len(rows)
    lo, hi = win(n, lim, off)
    if len(obs) != max(hi - lo, 0):
        return False
    for c in set(cls[lo:hi]):
        want = collections.Counter(tuple(obs[i - lo]) for i in range(lo, hi) if cls[i] == c)
        have = collections.Counter(tuple(rows[i]["o"]) for i in range(n) if cls[i] == c)
        for v, m in want.items():
            if have.get(v, 0) < m:
                return False
    return True


def projected(key, sel):
    return key["k"] == "ord" or key["x"] in sel


def plain_column(q, e):
    return e == "c1" if q["src"] == "group" else e in ("c1", "c2", "c3")


DEV_SEQ = ["aggregate_keys_ignored", "distinct_window_twice", "expr_columns_dropped", "index_scan_drops_null_keys",
           "join_duplicate_name_key", "join_limit0_returns_one", "join_topk_not_sorted", "join_window_first",
           "null_equals_all", "ordinal_ignored", "setop_first_column", "unprojected_ignored"]


def applies(q, d):
    """mirror of Applies(q, d)"""
    ks = q["keys"]
    volcano = q["src"] != "union" and not (q["src"] == "join" and q["lim"] != NOLIM)
    if d == "ordinal_ignored":
        return volcano and any(k["k"] == "ord" for k in ks)
    if d == "unprojected_ignored":
        return volcano and any(not projected(k, q["sel"]) for k in ks)
    if d == "aggregate_keys_ignored":
        return q["src"] == "group" and any(k["k"] == "e" and not plain_column(q, k["x"]) for k in ks)
    if d == "setop_first_column":
        return q["src"] == "union" and bool(ks)
    if d == "distinct_window_twice":
        return q["src"] == "plain" and q["dist"] and (q["lim"] != NOLIM or q["off"] != NOLIM)
    if d == "expr_columns_dropped":
        return any(not plain_column(q, e) for e in q["sel"])
    if d == "index_scan_drops_null_keys":
        return bool(q.get("ix")) and q["src"] == "plain" and q["w"] == "none" and len(ks) == 1 and ks[0]["k"] == "e" and ks[0]["x"] == "c2"
    if d == "join_duplicate_name_key":
        return q["src"] == "join" and "c1" in q["sel"] and any(k["k"] == "e" and k["x"] == "c2" for k in ks)
    if d == "join_limit0_returns_one":
        return q["src"] == "join" and q["lim"] == 0
    if d == "join_topk_not_sorted":
        return q["src"] == "join" and q["lim"] != NOLIM and bool(ks)
    if d == "join_window_first":
        return q["src"] == "join" and bool(ks) and (q["lim"] != NOLIM or q["off"] != NOLIM)
    if d == "null_equals_all":
        return bool(ks)
    raise ValueError(d)


def dev_sets(q):
    """mirror of DevSets(q), in the order of Rank(S)"""
    import itertools
    app = [i for i, d in enumerate(DEV_SEQ) if applies(q, d)]
    sets = []
    for r in (1, 2, 3, 4):
        for comb in itertools.combinations(app, r):
            sets.append((r * 10000 + sum(2 ** i for i in comb), frozenset(DEV_SEQ[i] for i in comb)))
    return [s for _, s in sorted(sets, key=lambda x: x[0])]


def stable_sort(rows, dirs):
    return sorted(rows, key=functools.cmp_to_key(lambda a, b: cmp_keys(a["k"], b["k"], dirs)))   # sorted() is stable


def distinct_seq(rows):
    seen, out = set(), []
    for r in rows:
        t = tuple(r["o"])
        if t not in seen:
            seen.add(t)
            out.append(r)
    return out


def window(rows, lim, off):
    lo, hi = win(len(rows), lim, off)
    return rows[lo:hi]


def match_from(obs, rows, dirs, i, prev, used):
    if i >= len(obs):
        return True
    for j, r in enumerate(rows):
        if j in used or r["o"] != obs[i]:
            continue
        if prev is not None and cmp_keys_nulleq(rows[prev]["k"], r["k"], dirs) > 0:
            continue
        if match_from(obs, rows, dirs, i + 1, j, used | {j}):
            return True
    return False


def twice_from(obs, P, dirs, q, m, nulleq, acc, used, R0cls):
    if len(acc) == m:
        w0 = [P[i] for i in acc]
        if [r["o"] for r in window(distinct_seq(w0), q["lim"], q["off"])] != obs:
            return False
        if nulleq:
            return True
        R0, cls0 = R0cls
        return admissible([r["o"] for r in w0], R0, cls0, q["lim"], q["off"])
    cmpf = cmp_keys_nulleq if nulleq else cmp_keys
    for j in range(len(P)):
        if j in used:
            continue
        if acc and cmpf(P[acc[-1]]["k"], P[j]["k"], dirs) > 0:
            continue
        if twice_from(obs, P, dirs, q, m, nulleq, acc + [j], used | {j}, R0cls):
            return True
    return False


def dev_admissible(obs, case, devs):
    """mirror of DevAdmissible(obs, q, devs) for a set of deviations that all apply; obs: list of lists"""
    q = case["q"]
    ks = q["keys"]
    sel = q["sel"]
    lim = 1 if ("join_limit0_returns_one" in devs and q["lim"] == 0) else q["lim"]
    window_first = "join_window_first" in devs or "join_topk_not_sorted" in devs
    if window_first or (q["dist"] and q["src"] == "plain"):
        base = case["proj"]
    else:
        base = case["rows"]
    if "setop_first_column" in devs:
        dirs = [ks[0]["d"]]
        keyf = lambda r: [r["o"][0]]
    elif "join_topk_not_sorted" in devs:
        dirs = []
        keyf = lambda r: []
    else:
        pos = [i for i, k in enumerate(ks)
               if not (("ordinal_ignored" in devs and k["k"] == "ord")
                       or ("unprojected_ignored" in devs and not projected(k, sel)
                           and not ("join_duplicate_name_key" in devs and k["k"] == "e" and k["x"] == "c2"))
                       or ("aggregate_keys_ignored" in devs and k["k"] == "e" and not plain_column(q, k["x"])))]
        dirs = [ks[i]["d"] for i in pos]
        if "join_duplicate_name_key" in devs:
            # ORDER BY y.id (c2) reads x.id (c1), which is in the select list
            c1 = sel.index("c1")
            keyf = lambda r: [r["o"][c1] if (ks[i]["k"] == "e" and ks[i]["x"] == "c2") else r["k"][i] for i in pos]
        else:
            keyf = lambda r: [r["k"][i] for i in pos]
    if "expr_columns_dropped" in devs:
        keep = [i for i, e in enumerate(sel) if plain_column(q, e)]
        outf = lambda r: [r["o"][i] for i in keep]
    else:
        outf = lambda r: r["o"]
    P = [{"o": outf(r), "k": keyf(r)} for r in base]
    if "index_scan_drops_null_keys" in devs and dirs:
        P = [r for r in P if r["k"][0] != N]
    if window_first:
        P = window(P, lim, q["off"])
        wl, wo = NOLIM, NOLIM
    else:
        wl, wo = lim, q["off"]
    nulleq = "null_equals_all" in devs
    if "distinct_window_twice" in devs:
        if nulleq and not any(v == N for r in P for v in r["k"]):
            return False
        lo, hi = win(len(P), q["lim"], q["off"])
        R0 = stable_sort(P, dirs)
        return twice_from(obs, P, dirs, q, hi - lo, nulleq, [], frozenset(), (R0, classes(R0, dirs)))
    R = stable_sort(distinct_seq(P) if q["dist"] else P, dirs)
    if nulleq:
        if not any(v == N for r in R for v in r["k"]):
            return False
        lo, hi = win(len(R), wl, wo)
        return len(obs) == max(hi - lo, 0) and match_from(obs, R, dirs, 0, None, frozenset())
    return admissible(obs, R, classes(R, dirs), wl, wo)


def verdict(obs, case, ix=False):
    """mirror of Verdict(obs, q): ("ok"|"dev"|"bad", sorted list of deviation names); ix: q runs on the indexed copy"""
    case = dict(case, q=dict(case["q"], ix=ix))
    q = case["q"]
    if admissible(obs, case["rows"], [r["c"] for r in case["rows"]], q["lim"], q["off"]):
        return "ok", []
    for devs in dev_sets(q):
        if dev_admissible(obs, case, devs):
            return "dev", sorted(devs)
    return "bad", []


# ----------------------------------------------------------------------------- judging one observation
def path_class(plan, q):
    """ordering mechanism of the plan, plus the executor that runs it when that is not the Volcano pipeline"""
    ops = plan.split("/")
    if "TopK" in ops:
        p = "topk"
    elif "Sort" in ops:
        p = "sort"
    elif not q["keys"]:
        p = "unordered"
    elif any(o.startswith("IndexScan") for o in ops):
        p = "index_scan"
    elif "TableScanRev" in ops or "TableScan" in ops:
        p = "pk_scan"
    else:
        p = "other"
    if any("Join" in o for o in ops):
        p += "/join"          # hand-written join loop of Database::query (its own sort / limit code)
    elif "SetOp" in ops:
        p += "/setop"         # set_ops.rs (its own sort / limit code)
    return p


def to_spec_rows(rows):
    """harness rows -> spec tuples (None -> N); returns None when a value is not an integer/NULL"""
    out = []
    for r in ordagg.norm_rows(rows):
        t = []
        for v in r:
            if v is None:
                t.append(N)
            elif isinstance(v, bool) or not isinstance(v, int):
                return None
            else:
                t.append(v)
        out.append(t)
    return out


def judge(case, res, selftest=False, ix=False):
    """-> (kind, obs). kind: ok | dev:<names> | shape | count | rows | order | error:<cls> | panic:<cls> | missing"""
    q = case["q"]
    r = res["res"]
    if "panic" in r:
        return "panic:" + ordagg.err_class(r["panic"]), None
    if "err" in r:
        return "error:" + ordagg.err_class(r["err"]), None
    if "rows" not in r:
        return "missing", None
    obs = to_spec_rows(r["rows"])
    if obs is None:
        return "shape", None
    if selftest and q["tab"] == "u" and len(q["keys"]) == 1 and q["src"] == "plain":
        # deliberately wrong expectation: pretend the specification orders the other way round
        rows = [dict(r_, c=i + 1) for i, r_ in enumerate(reversed(case["rows"]))]
        case = dict(case, rows=rows, det=False)
    if case["det"] and obs == case["ans"]:
        return "ok", obs
    v, devs = verdict(obs, case, ix)
    if v == "ok":
        return "ok", obs
    if v == "dev":
        return "dev:" + "+".join(devs), obs
    if any(len(t) != len(q["sel"]) for t in obs):
        return "shape", obs
    n = len(case["rows"])
    lo, hi = win(n, q["lim"], q["off"])
    if len(obs) != max(hi - lo, 0):
        return "count", obs
    # some permutation of the observed rows is admissible: only the order is wrong
    if bag_admissible(obs, case):
        return "order", obs
    return "rows", obs


def bag_admissible(obs, case):
    """is some permutation of obs admissible (AdmissibleOutput)?  small backtracking over tie classes"""
    q = case["q"]
    rows = case["rows"]
    cls = [r["c"] for r in rows]
    n = len(rows)
    lo, hi = win(n, q["lim"], q["off"])
    need = collections.OrderedDict()
    for i in range(lo, hi):
        need[cls[i]] = need.get(cls[i], 0) + 1
    have = {c: collections.Counter(tuple(rows[i]["o"]) for i in range(n) if cls[i] == c) for c in need}
    pool = collections.Counter(tuple(t) for t in obs)
    cl = list(need.items())

    def rec(ci, pool):
        if ci == len(cl):
            return sum(pool.values()) == 0
        c, k = cl[ci]
        cands = [v for v in pool if pool[v] > 0 and have[c].get(v, 0) > 0]

        def choose(idx, k, pool, taken):
            if k == 0:
                return rec(ci + 1, pool)
            for j in range(idx, len(cands)):
                v = cands[j]
                if pool[v] > 0 and taken.get(v, 0) < have[c][v]:
                    pool[v] -= 1
                    taken[v] = taken.get(v, 0) + 1
                    if choose(j, k - 1, pool, taken):
                        return True
                    pool[v] += 1
                    taken[v] -= 1
            return False
        return choose(0, k, pool, {})
    return rec(0, pool)


# ----------------------------------------------------------------------------- reduction (blame localisation)
WIN_LABELS = ("none", "0", "1", "n-1", "n", "n+1")


def win_label(v, n):
    if v == NOLIM:
        return "none"
    for lab, val in (("0", 0), ("1", 1), ("n-1", n - 1), ("n", n), ("n+1", n + 1)):
        if v == val:
            return lab
    return str(v)


def win_value(lab, n):
    return {"none": NOLIM, "0": 0, "1": 1, "n-1": n - 1, "n": n, "n+1": n + 1}.get(lab, None)


def fam_key(q):
    return json.dumps([q["src"], q["tab"], q["w"], q["sel"], q["dist"]])


def reductions(q, ix, n, fam_n):
    """simpler queries, in a fixed order; (query, indexed) pairs.  n: length of q's window input; fam_n: family -> n.
    A step that changes the window input keeps the CLASS of LIMIT/OFFSET (0, 1, n-1, n, n+1) rather than its value."""
    out = []
    if ix:
        out.append((q, False))

    def w(**kw):
        d = dict(q)
        d.update(kw)
        n2 = fam_n.get(fam_key(d))
        if n2 is not None and n2 != n:
            for f in ("lim", "off"):
                v = win_value(win_label(q[f], n), n2)
                if v is None or v < NOLIM:
                    return None
                d[f] = v
        return d
    if q["dist"]:
        out.append((w(dist=False), ix))
    if q["lim"] != NOLIM:
        out.append((w(lim=NOLIM), ix))
    if q["off"] != NOLIM:
        out.append((w(off=NOLIM), ix))
    if q["lim"] == 0:
        out.append((w(lim=1), ix))
    ks = q["keys"]
    for i in reversed(range(len(ks))):
        out.append((w(keys=ks[:i] + ks[i + 1:]), ix))
    for i, k in enumerate(ks):
        if k["d"] == "DESC":
            out.append((w(keys=ks[:i] + [dict(k, d="ASC")] + ks[i + 1:]), ix))
    for i, k in enumerate(ks):
        if k["k"] == "ord":
            out.append((w(keys=ks[:i] + [dict(k, k="e", x=q["sel"][int(k["x"]) - 1])] + ks[i + 1:]), ix))
        lateral = q["src"] != "join" or k["k"] == "ord" or k["x"] not in ("c1", "c2", "c3")   # x.id -> y.id is not a simplification
        if lateral and (k["k"] == "ord" or k["x"] != "c2") and not any(o["k"] == "e" and o["x"] == "c2" for o in ks):
            out.append((w(keys=ks[:i] + [dict(k, k="e", x="c2")] + ks[i + 1:]), ix))
    full = ["c1", "c2", "c3"]
    if q["sel"] != full:
        nk = [dict(k, k="e", x=q["sel"][int(k["x"]) - 1]) if k["k"] == "ord" else k for k in ks]
        out.append((w(sel=full, keys=nk), ix))
    if q["w"] != "none":
        out.append((w(w="none"), ix))
    if q["tab"] in ("t", "n"):
        out.append((w(tab="u"), ix))
    if q["src"] != "plain":
        out.append((w(src="plain"), ix))
        if q["src"] == "union" and q["dist"]:
            out.append((w(src="plain", dist=False), ix))
    return [(a, b) for a, b in out if a is not None]


PATH_FREE_DEVS = ("distinct_window_twice",)      # implemented after the executor pipeline, whatever the plan


def dev_signature(dev, pc):
    return "dev:%s" % dev if dev in PATH_FREE_DEVS else "dev:%s|%s" % (dev, pc)


def key_kind(src, k):
    if k["k"] == "ord":
        return "ord"
    if src == "group":     # c1 is the grouping column, c2 and c3 are aggregates
        return "col" if k["x"] == "c1" else "agg" if k["x"] in ("c2", "c3") else "aggexpr"
    if src == "join" and k["x"] == "c2":
        return "col(y.id)"          # the right-hand column whose unqualified name also occurs on the left
    return "col" if k["x"] in ("c1", "c2", "c3") else "expr"


def abstract(case, ix, structural_only=False):
    """the features of a (minimal failing) query that name a finding; structural_only: leave out what depends on the data"""
    q = case["q"]
    n = len(case["rows"])
    parts = [q["src"] + ("+where" if q["w"] != "none" else "") + ("+ix" if ix else "")]
    if q["sel"] != ["c1", "c2", "c3"]:
        parts.append("sel=" + "".join("c" if e in ("c1", "c2", "c3") else "e" for e in q["sel"]))
    if q["dist"]:
        parts.append("distinct" if q["src"] != "union" else "union-distinct")
    if q["keys"]:
        kinds = sorted({key_kind(q["src"], k) + ("" if projected(k, q["sel"]) else "!") for k in q["keys"]})
        parts.append("keys=%d:%s%s" % (len(q["keys"]), "/".join(kinds), ",desc" if any(k["d"] == "DESC" for k in q["keys"]) else ""))
    if q["lim"] != NOLIM:
        parts.append("lim0" if q["lim"] == 0 else "lim" if structural_only else "lim<n" if q["lim"] < n else "lim>=n")
    if q["off"] != NOLIM:
        parts.append("off" if structural_only else "off0" if q["off"] == 0 else "off<n" if q["off"] < n else "off>=n")
    if not structural_only:
        if n == 0:
            parts.append("empty")
        elif case["nullkey"]:
            parts.append("nullkeys")
        elif q["tab"] in ("t", "n"):
            parts.append("nulls")
    return ",".join(parts)


# ----------------------------------------------------------------------------- the check
def gen_cfg(thorough):
    cfg = vlib.scratch() + "/Gen_OrderLimit_%s.cfg" % ("t" if thorough else "q")
    base = open(os.path.join(vlib.SPEC, "Gen_OrderLimit.cfg")).read()
    if thorough:
        base = base.replace("MaxKeys = 2", "MaxKeys = 3").replace("FullWindows = FALSE", "FullWindows = TRUE").replace("Rich = FALSE", "Rich = TRUE").replace("FullInv = FALSE", "FullInv = TRUE")
    open(cfg, "w").write(base)
    return cfg


def check_tables(cases):
    """the tables in ordagg.py are the tables of the specification (the no-key, no-window plain queries print them)"""
    for c in cases:
        q = c["q"]
        if q["src"] == "plain" and not q["keys"] and q["lim"] == NOLIM and q["off"] == NOLIM and not q["dist"] and q["w"] == "none" \
                and q["sel"] == ["c1", "c2", "c3"]:
            want = sorted(list(r) for r in ordagg.TABLES[q["tab"]])
            got = sorted(r["o"] for r in c["rows"])
            if want != got:
                raise vlib.ToolError("table %s in lib/ordagg.py differs from Tab(%s) in OrderLimit.tla" % (q["tab"], q["tab"]))


def nonvacuity(cases):
    c = collections.Counter()
    for k in cases:
        q = k["q"]
        n = len(k["rows"])
        c["total"] += 1
        c["src_" + q["src"]] += 1
        c["tab_" + q["tab"]] += 1
        if k["nullkey"]:
            c["null_in_keys"] += 1
        if not k["det"]:
            c["ties_visible"] += 1
        if len({r["c"] for r in k["rows"]}) < n:
            c["ties"] += 1
        if q["dist"]:
            c["distinct"] += 1
            if q["src"] == "plain" and n < len(ordagg.TABLES[q["tab"]]) - (1 if q["w"] != "none" else 0):
                c["distinct_removes_rows"] += 1
        for key in q["keys"]:
            c["key_" + ("ordinal" if key["k"] == "ord" else "column" if key["x"] in ("c1", "c2", "c3") else "expression")] += 1
            c["dir_" + key["d"]] += 1
        c["keys_%d" % len(q["keys"])] += 1
        if k["unproj"]:
            c["key_not_in_select_list"] += 1
        for nm, v in (("lim", q["lim"]), ("off", q["off"])):
            if v == NOLIM:
                c[nm + "_none"] += 1
            else:
                for lab, val in (("0", 0), ("1", 1), ("n-1", n - 1), ("n", n), ("n+1", n + 1)):
                    if v == val:
                        c["%s_%s" % (nm, lab)] += 1
        if q["lim"] != NOLIM and q["off"] != NOLIM:
            c["lim_and_off"] += 1
    need = ["null_in_keys", "ties_visible", "ties", "distinct", "distinct_removes_rows", "key_ordinal", "key_column", "key_expression",
            "dir_ASC", "dir_DESC", "keys_0", "keys_1", "keys_2", "key_not_in_select_list", "lim_none", "lim_0", "lim_1", "lim_n-1", "lim_n",
            "lim_n+1", "off_0", "off_1", "off_n-1", "off_n", "off_n+1", "lim_and_off", "src_plain", "src_group", "src_join", "src_union",
            "tab_t", "tab_u", "tab_e", "tab_n"]
    missing = [x for x in need if not c[x]]
    if missing:
        raise vlib.ToolError("vacuous generation: no query of class %s" % missing)
    return dict(c)


def tlc_validate(pairs, chk, thorough):
    """pairs: list of (case, obs, mirror_verdict). TLC evaluates Verdict(obs, q); any disagreement is a tool error."""
    if not pairs:
        return 0
    path = vlib.scratch() + "/c15_trace.ndjson"
    vlib.write_ndjson(path, [{"id": i, "q": c["q"], "obs": obs} for i, (c, obs, _) in enumerate(pairs)])
    res = vlib.run_tlc("Trace_OrderLimit.tla", os.path.join(vlib.SPEC, "Trace_OrderLimit.cfg"), workers=8, timeout=1500, env={"C15_TRACE": path})
    vlib.tlc_ok(res, "Trace_OrderLimit")
    got = {e["id"]: (e["v"], sorted(e["devs"])) for e in vlib.parse_emitted(res["out"])}
    if len(got) != len(pairs):
        raise vlib.ToolError("Trace_OrderLimit judged %d of %d observations" % (len(got), len(pairs)))
    for i, (c, obs, mv) in enumerate(pairs):
        if got[i] != (mv[0], list(mv[1])):
            raise vlib.ToolError("python mirror of Verdict disagrees with TLC: %s (indexed copy: %s) obs=%s mirror=%s TLC=%s" % (render(c["q"]), c["q"].get("ix"), obs, mv, got[i]))
    return len(pairs)


def execute(cases, variants):
    """runs every case under every variant; returns {(key, ix): result}"""
    sqls = [render(c["q"]) for c in cases]
    out = {}
    for ix in variants:
        res = ordagg.run_queries(ordagg.setup_sql(indexed=ix), sqls, batch=250)
        for c, r in zip(cases, res):
            out[(c["_key"], ix)] = r
    return out


def run(chk):
    thorough = chk.tier == "thorough"
    selftest = os.environ.get("VERIF_SELFTEST") == "1"
    rng = random.Random(chk.seed)
    chk.assumptions += ["tables t (NULLs, duplicates), u (NULL-free, duplicates), e (empty), n (column a all NULL), w (join partner): INT columns only",
                        "the python mirror of AdmissibleOutput/Verdict is cross-checked against TLC on a sample of observed outputs every run",
                        "every failing query is re-run on a fresh database before it is classified",
                        "queries that would be ambiguous SQL are not generated: keys of SELECT DISTINCT / of a set operation are output columns"]
    vlib.build_harness(); chk.mark("build")
    devcache = os.environ.get("VERIF_DEVCACHE")      # development aid only: reuse TLC output / execution results
    import pickle
    gpath = devcache and os.path.join(devcache, "c15_gen_%s.pkl" % chk.tier)
    if gpath and os.path.exists(gpath):
        gen = pickle.load(open(gpath, "rb"))
    else:
        gen = vlib.tlc_emit(SPEC_MODULE, gen_cfg(thorough), timeout=2400, workers=8)
        if gpath:
            gen.pop("out", None)
            pickle.dump(gen, open(gpath, "wb"))
    if gen["violated"]:
        raise vlib.ToolError("the oracle violates its own meta-invariant %s:\n%s" % (gen["violated"], gen.get("out", "")[-2000:]))
    cases = gen["emitted"]
    for c in cases:
        c["_key"] = qkey(c["q"])
    bykey = {c["_key"]: c for c in cases}
    check_tables(cases)
    counts = nonvacuity(cases)
    chk.mark("tlc_gen")

    rpath = devcache and os.path.join(devcache, "c15_res_%s.pkl" % chk.tier)
    if rpath and os.path.exists(rpath):
        results = pickle.load(open(rpath, "rb"))
    else:
        results = execute(cases, [False, True])
        if rpath:
            pickle.dump(results, open(rpath, "wb"))
    chk.mark("execute")

    # judge
    verdicts = {}
    for c in cases:
        for ix in (False, True):
            verdicts[(c["_key"], ix)] = judge(c, results[(c["_key"], ix)], selftest, ix)
    failing = [(k, ix) for (k, ix), (kind, _) in verdicts.items() if kind != "ok"]
    # confirm every failure on a fresh database (a panic earlier in the same session must not be blamed on a later query)
    for ix in (False, True):
        # queries that panic are confirmed in batches of their own, so that a confirmed non-panicking failure never
        # shares a session with a panic
        for want_panic in (False, True):
            fk = [k for (k, i) in failing if i == ix and verdicts[(k, i)][0].startswith("panic:") == want_panic]
            if fk:
                res = ordagg.run_queries(ordagg.setup_sql(indexed=ix), [render(bykey[k]["q"]) for k in fk], batch=250)
                for k, r in zip(fk, res):
                    results[(k, ix)] = r
                    verdicts[(k, ix)] = judge(bykey[k], r, selftest, ix)
    chk.mark("judge")

    # cross-check the mirror with TLC: non-exact accepted outputs, explained and unexplained rejections
    pool = {"ok_tie": [], "dev": [], "bad": []}
    for (k, ix), (kind, obs) in verdicts.items():
        if obs is None:
            continue
        c = bykey[k]
        mv = verdict(obs, c, ix)
        cq = dict(c, q=dict(c["q"], ix=ix))
        if kind == "ok" and not c["det"]:
            pool["ok_tie"].append((cq, obs, mv))
        elif kind.startswith("dev:"):
            pool["dev"].append((cq, obs, mv))
        elif kind in ("count", "rows", "order", "shape"):
            pool["bad"].append((cq, obs, mv))
    per = 1500 if thorough else 300
    pairs = []
    for name in ("ok_tie", "dev", "bad"):
        p = pool[name]
        rng.shuffle(p)
        pairs += p[:per]
    if not selftest:
        validated = tlc_validate(pairs, chk, thorough)
    else:
        validated = 0
    chk.mark("tlc_validate")

    # classify
    def kind_of(key, ix):
        v = verdicts.get((key, ix))
        return v[0] if v else None

    def family(kind):
        # wrong number of rows / wrong rows / wrong order are one family: which of them shows depends on the data
        return "content" if kind in ("count", "rows", "order") else kind

    sigs = collections.Counter()
    compound = collections.Counter()
    paths = collections.Counter()
    fam_n = {fam_key(c["q"]): len(c["rows"]) for c in cases}
    minimal_cache = {}

    def minimise(key, ix, kind):
        cur = (key, ix)
        kind = family(kind)
        while True:
            if (cur, kind) in minimal_cache:
                cur = minimal_cache[(cur, kind)]
                break
            q = bykey[cur[0]]["q"]
            nxt = None
            for q2, ix2 in reductions(q, cur[1], len(bykey[cur[0]]["rows"]), fam_n):
                k2 = qkey(q2)
                if k2 in bykey and family(kind_of(k2, ix2)) == family(kind):
                    nxt = (k2, ix2)
                    break
            if nxt is None:
                break
            cur = nxt
        minimal_cache[((key, ix), kind)] = cur
        return cur

    nontrivial = set()
    for c in cases:
        q = c["q"]
        if (q["keys"] or q["lim"] != NOLIM or q["off"] != NOLIM or q["dist"]) and len(c["rows"]) >= 2:
            nontrivial.add(c["_key"])
    for (key, ix), (kind, obs) in sorted(verdicts.items()):
        c = bykey[key]
        r = results[(key, ix)]
        pc = path_class(r["plan"], c["q"])
        paths[(pc, "ok" if kind == "ok" else "diverges")] += 1
        if kind == "ok":
            continue
        if kind == "missing":
            raise vlib.ToolError("query not executed: %s" % render(c["q"]))
        if kind.startswith("dev:"):
            # a compound explanation is known only if every deviation in it is known: one signature per deviation
            sig_list = [dev_signature(d, pc) for d in kind[4:].split("+")]
            mk, mix = key, ix
        else:
            mk, mix = minimise(key, ix, kind)
            mc = bykey[mk]
            sig_list = ["%s|%s|%s" % (family(kind_of(mk, mix)), path_class(results[(mk, mix)]["plan"], mc["q"]),
                                      abstract(mc, mix, structural_only=kind.startswith(("error:", "panic:", "shape"))))]
        mc = bykey[mk]
        mr = results[(mk, mix)]
        for sig in sig_list:
            sigs[sig] += 1
            chk.classify(sig, {"sql": render(mc["q"]), "indexed": mix, "plan": mr["plan"], "case": {k: v for k, v in mc.items() if k != "_key"},
                               "observed": mr["res"], "verdict": verdicts[(mk, mix)][0],
                               "reduced_from": render(c["q"]) if (mk, mix) != (key, ix) else None,
                               "expected": ("exactly " if mc["det"] else "one admissible answer: ") + json.dumps(ordagg.denull(mc["ans"]))})
        compound[kind if kind.startswith("dev:") else sig_list[0]] += 1
    chk.mark("classify")

    judged = len(verdicts)
    ok = sum(1 for v in verdicts.values() if v[0] == "ok")
    sample_cases = [cases[i] for i in sorted(rng.sample(range(len(cases)), 3))]
    chk.cov = {
        "evaluations": judged, "distinct_nontrivial": len(nontrivial),
        "rule": "a query is non-trivial when it has ORDER BY, LIMIT, OFFSET or DISTINCT and its window input has at least two rows; "
                "every generated query is executed twice (plain tables / tables with an index on column a)",
        "queries_generated_by_tlc": len(cases), "tlc_states": gen["stats"].get("distinct", 0), "exhaustive": True,
        "conforming": ok, "diverging": judged - ok,
        "exact_sequence_comparisons": sum(1 for c in cases if c["det"]) * 2,
        "predicate_only_comparisons": sum(1 for c in cases if not c["det"]) * 2,
        "observations_validated_by_tlc": validated,
        "classes_generated": counts, "by_path": {"%s:%s" % k: v for k, v in sorted(paths.items())},
        "divergence_signatures": dict(sigs), "divergences_by_full_explanation": dict(compound),
        "samples": [{"sql": render(c["q"]), "expected": ordagg.denull(c["ans"]), "unique_answer": c["det"],
                     "observed": results[(c["_key"], False)]["res"], "plan": results[(c["_key"], False)]["plan"],
                     "verdict": verdicts[(c["_key"], False)][0]} for c in sample_cases],
        "selftest": selftest,
    }


def replay(chk, path):
    rep = json.load(open(path))["replay"]
    vlib.build_harness()
    case = rep["case"]
    sql = render(case["q"])
    res = ordagg.run_queries(ordagg.setup_sql(indexed=rep.get("indexed", False)), [sql], batch=1)[0]
    kind, obs = judge(case, res)
    print("replayed: %s   [indexed copy: %s, plan %s]" % (sql, rep.get("indexed", False), res["plan"]))
    print("  expected: %s%s" % ("exactly " if case["det"] else "admissible, e.g. ", json.dumps(ordagg.denull(case["ans"]))))
    print("  observed: %s" % json.dumps(res["res"])[:600])
    print("  verdict:  %s" % kind)
    chk.cov = {"evaluations": 1, "distinct_nontrivial": 2, "rule": "replay of one stored query", "samples": [sql], "replay_of": path}
    if kind != "ok":
        sig = json.load(open(path))["signature"]
        chk.classify(sig, rep)
    return chk.finish()

"""C06 - a failing statement has no effect: whenever TurDB returns an error (whether or not the model expects one) the
complete observation (scan, COUNT(*), every index path) must equal the pre-statement state of the model."""
import relrun, relational as R
LEVEL = "model_checking"


def relevant(d, hist):
    last = hist[-1]
    if d["kind"] == "panic":
        return True
    if d["kind"] != "state":
        return False
    # implementation returned an error: basis is the pre-state (model may or may not agree about the error)
    return d.get("basis") == "pre_state_after_error" or (d.get("basis") == "model_post" and not last["ok"])


def signature(d, hist):
    op = hist[-1]["op"]
    if op["k"] == "insert" and len(op["rows"]) > 1:
        return "failed_multi_row_insert_partially_applied"
    return "state_changed_by_failed_%s:%s" % (op["k"], ",".join(R.features(hist)) or "-")


def focus(c):
    return not c["hist"][-1]["ok"]


def run(chk):
    relrun.standard(chk, relevant, signature, focus=focus)


def replay(chk, path):
    return relrun.replay_file(chk, path, relevant, signature)

"""C06 - a failing statement has no effect: whenever TurDB returns an error (whether or not the model expects one) the
complete observation (scan, COUNT(*), every index path) must equal the pre-statement state of the model."""
import relrun, relational as R, vlib
LEVEL = "model_checking"


def relevant(d, hist):
    last = hist[-1]
    if d["kind"] == "panic":
        return True
    if d["kind"] != "state":
        return False
    # implementation returned an error: basis is the pre-state (model may or may not agree about the error)
    return d.get("basis") == "pre_state_after_error" or (d.get("basis") == "model_post" and not last["ok"])


def signature(d, hist):
    op = hist[-1]["op"]
    uc = R.upsert_class(hist)
    if uc:
        return "state_changed_by_failed_%s:upsert:%s" % (R.opname(op) if op["k"] == "upsert" else op["k"], uc)
    if (op["k"] == "insert" and len(op["rows"]) > 1) or (op["k"] == "bad" and op["b"].startswith("second_row_")):
        return "failed_multi_row_insert_partially_applied"
    if op["k"] == "bad":
        return "state_changed_by_failed_%s:%s" % (R.opname(op), ",".join(R.features(hist)) or "-")
    return "state_changed_by_failed_%s:%s" % (R.opname(op) if op["k"] == "upsert" else op["k"], ",".join(R.features(hist)) or "-")


def focus(c):
    return not c["hist"][-1]["ok"]


def autoinc_phase(chk):
    """The same property on a table with an AUTO_INCREMENT primary key (schedules of AutoInc.tla: generated and
    explicit ids around the counter, UPDATE of the id, DELETE, TRUNCATE, transactions, reopen): whenever TurDB
    rejects a statement, the table read back afterwards must equal the table read back before it. The comparison
    is between two observations of the same database (Relational.tla: ErrLeavesStateAlone); the model only
    supplies the schedules."""
    import random, json, vlib, reldl, autoinc
    thorough = chk.tier == "thorough"
    em, _ = reldl.bfs("MC_AutoInc.tla", "Gen_AutoInc.cfg", {"MaxOps": 3, "WithBulk": False})
    leaves = reldl.maximal(em)
    rng = random.Random(chk.seed)
    def cls(e):
        return tuple((s["op"]["k"], tuple(i["c"] for i in s["op"].get("items", []))) for s in e["hist"])
    picked = vlib.stratified_sample(leaves, cls, 6000 if thorough else 1500, rng)
    ws = reldl.walks("MC_AutoInc.tla", "Gen_AutoInc.cfg", {"MaxOps": 14, "WithBulk": False}, 300 if thorough else 40, 14, chk.seed)
    hists = [e["hist"] for e in picked] + [e["hist"] for e in ws]
    cases = [autoinc.render(i, h) for i, h in enumerate(hists)]
    outs = reldl.run_cases(cases)
    st = {"histories": len(hists), "rejected_statements": 0, "unchanged": 0}
    for i, h in enumerate(hists):
        res = outs[i]
        prev = []
        for k, step in enumerate(h):
            ri, si = 1 + 2 * k, 2 + 2 * k
            if si >= len(res) or "panic" in res[ri]:
                break
            scan = reldl.rows_of(res[si])
            if scan is None:
                break
            scan = reldl.sorted_rows(scan)
            if "err" in res[ri]:
                st["rejected_statements"] += 1
                if scan == prev:
                    st["unchanged"] += 1
                else:
                    op = step["op"]
                    if op["k"] == "ins" and len(op.get("items", [])) > 1:
                        sig = "failed_multi_row_insert_partially_applied"
                    else:
                        sig = "autoinc:state_changed_by_failed_%s:%s" % (op["k"], ",".join(it["c"] for it in op.get("items", [])) or "-")
                    chk.classify(sig, {"sql": autoinc.describe(h[:k + 1]), "autoinc_hist": h[:k + 1], "before": prev, "after": scan, "error": res[ri]["err"][:160]})
            prev = scan
    if st["rejected_statements"] < 20:
        raise vlib.ToolError("only %d rejected statements in the AUTO_INCREMENT schedules: vacuous" % st["rejected_statements"])
    chk.cov["autoinc_table"] = st
    chk.cov["traces_validated_against_impl"] += len(hists)
    chk.mark("autoinc")


def run(chk):
    relrun.standard(chk, relevant, signature, focus=focus)
    chk.cov["upsert"] = relrun.upsert_phase(chk, relevant, signature)
    chk.mark("upsert")
    chk.cov["wrong_statements"] = relrun.bad_phase(chk, relevant, signature)
    if not chk.cov["wrong_statements"]["replayed"]:
        raise vlib.ToolError("no wrong statement was replayed")
    chk.mark("wrong_statements")
    autoinc_phase(chk)


def replay(chk, path):
    return relrun.replay_file(chk, path, relevant, signature)

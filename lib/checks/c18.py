"""C18 - subqueries and set operations follow SQL semantics.

spec/Subquery.tla is a recursive evaluator of query trees (IN / NOT IN with SQL's NULL rules, EXISTS / NOT EXISTS,
scalar subqueries: no row -> NULL, more than one row -> error; correlated or not; in WHERE, in the select list and in
FROM (derived tables); nesting up to 3; UNION / INTERSECT / EXCEPT [ALL] on bags with SQL precedence).
spec/MC_Subquery.tla lets TLC enumerate the contents of three tiny tables (keys in {NULL,1,2}, duplicates, empty
tables) x a catalogue of query shapes, checks the algebra of the oracle (A INTERSECT B <= A, |UNION ALL| = |A|+|B|,
x IN S <=> EXISTS(..) without NULLs, NOT IN with a NULL in S is never TRUE, EXISTS/NOT EXISTS partition, ...) and
prints the expected outcome of every query (bag of rows, or "error" where SQL demands one, or both where SQL leaves
it open) plus the outcome under each named deviation.  Every query is rendered to SQL, run on TurDB and compared.
"""
import os, random, json, re, collections
import vlib, sqlbag

LEVEL = "exploration"
MANIFEST = dict(
    cat=LEVEL, ref="DESIGN.md 6 (C18), notes/C18.md",
    tech="TLA+ oracle Subquery.tla (recursive evaluator with SQL three-valued logic) evaluated by TLC over enumerated "
         "contents of three tables (keys in {NULL,1,2}, duplicates, empty tables) x ~120 query shapes (IN/NOT IN/EXISTS/"
         "NOT EXISTS/scalar subqueries, correlated or not, in WHERE / select list / FROM, nesting <= 3, set operations "
         "and their chains); meta-invariants of the oracle model-checked on the same enumeration; every query run on "
         "TurDB and compared as a bag (or as an error where SQL demands one)",
    text="for every enumerated table content and query shape TurDB returns the bag of rows (or the error) the "
         "specification defines; deviations are attributed to named, spec-defined defects or reported",
    note="tables have <= 2 rows (third table <= 1; thorough: 3/3/2); result order is not judged; a failing subquery that is "
         "never reached (empty outer table) may or may not raise; parenthesised set operations are not generated because "
         "the parser rejects them")

SPEC_CFG = """CONSTANTS KeySeq <- MCKeySeq  ValSeq <- MCValSeq
CONSTANTS MaxRowsT = %(mt)d  MaxRowsS = %(ms)d  MaxRowsU = %(mu)d  Stride = %(stride)d  Seed = %(seed)d
SPECIFICATION Spec
INVARIANT SetAlgebra InAlgebra ScalarAlgebra
INVARIANT EmitInv
CHECK_DEADLOCK FALSE
"""
COLS = {1: "k", 2: "v"}
OPSYM = {"eq": "=", "ne": "<>", "lt": "<", "gt": ">"}
SETKW = {"union": "UNION", "intersect": "INTERSECT", "except": "EXCEPT"}
AGGKW = {"max": "MAX", "min": "MIN", "count": "COUNT"}


# ----------------------------------------------------------------------------- rendering (no semantics)
def r_expr(x):
    if x["e"] == "col":
        return "%s.%s" % (x["a"], COLS[x["c"]])
    if x["e"] == "const":
        return str(x["v"])
    if x["e"] == "sq":
        return "(" + r_query(x["q"]) + ")"
    return r_pred(x["p"])


def r_pred(p):
    if p["p"] == "cmp":
        return "%s %s %s" % (r_expr(p["l"]), OPSYM[p["op"]], r_expr(p["r"]))
    if p["p"] == "isnull":
        return r_expr(p["l"]) + " IS NULL"
    if p["p"] == "in":
        return "%s %sIN (%s)" % (r_expr(p["l"]), "NOT " if p["neg"] else "", r_query(p["q"]))
    return "%sEXISTS (%s)" % ("NOT " if p["neg"] else "", r_query(p["q"]))


def r_query(q):
    if q["f"] == "setop":
        return "%s %s%s %s" % (r_query(q["l"]), SETKW[q["op"]], " ALL" if q["all"] else "", r_query(q["r"]))
    fr = q["from"]
    if fr["t"] == "base":
        src = fr["name"] if fr["a"] == fr["name"] else "%s AS %s" % (fr["name"], fr["a"])
    else:
        src = "(%s) AS %s" % (r_query(fr["q"]), fr["a"])
    if q["agg"] == "count":
        proj = "COUNT(*)"
    elif q["agg"] != "none":
        proj = "%s(%s)" % (AGGKW[q["agg"]], r_expr(q["proj"][0]))
    else:
        proj = ", ".join(r_expr(x) for x in q["proj"])
    s = "SELECT %s FROM %s" % (proj, src)
    if q["where"]:
        s += " WHERE " + " AND ".join(r_pred(p) for p in q["where"])
    return s


def data_class(case):
    feats = []
    for name in ("t", "s", "u"):
        rows = case[name]
        keys = [r[0] for r in rows]
        if not rows:
            feats.append(name + "_empty")
        if sqlbag.NULL in keys:
            feats.append(name + "_nullkey")
        nn = [k for k in keys if k != sqlbag.NULL]
        if len(nn) != len(set(nn)):
            feats.append(name + "_dupkey")
        if len(rows) != len({tuple(r) for r in rows}):
            feats.append(name + "_duprow")
    return feats


def setup_ops(case):
    ops = []
    for name in ("t", "s", "u"):
        ops.append({"k": "exec", "sql": "CREATE TABLE %s (k INT, v INT)" % name, "setup": True})
        ops += sqlbag.insert_ops(name, [tuple(None if v == sqlbag.NULL else v for v in row) for row in case[name]])
    return ops


# ----------------------------------------------------------------------------- judging
def rows_bag(rows):
    c = collections.Counter()
    for r in rows:
        c[sqlbag.model_row(r)] += 1
    return c


def agrees(out, oc):
    """out: {"err": no|may|must, "rows": [...]} from TLC; oc: observed outcome"""
    kind, val = oc
    if kind == "err":
        return out["err"] in ("must", "may")
    if kind != "rows":
        return False
    if out["err"] == "must":
        return False
    return val == rows_bag(out["rows"])


def judge(model, oc):
    """-> None | ("kf", [names]) | ("unexplained"|"panic"|"missing", text)"""
    if agrees(model["exp"], oc):
        return None
    if oc[0] in ("panic", "missing"):
        return (oc[0], oc[1])
    best = None
    for d in model["dev"]:
        if agrees(d["out"], oc) and (best is None or len(d["kf"]) < len(best)):
            best = sorted(d["kf"])
    if best is not None:
        return ("kf", best)
    return ("unexplained", oc[1] if oc[0] == "err" else "")


def null_class(case, q_class):
    f = data_class(case)
    parts = [x for x in ("t_nullkey", "s_nullkey", "u_nullkey", "s_empty", "s_dupkey") if x in f]
    return ",".join(parts) or "-"


def err_class(msg):
    m = re.sub(r"'[^']*'", "'_'", msg)
    m = re.sub(r"[0-9]+", "#", m)
    return m[:70]


def signatures(verdict, item, case, expected):
    kind, val = verdict
    if kind == "kf":
        return ["kf:%s" % k for k in val]
    if kind == "panic":
        return ["panic:%s:%s" % (item["c"], err_class(val))]
    if kind == "missing":
        return ["no_result:%s" % item["c"]]
    if expected["err"] != "must" and val:
        # SQL defines rows, TurDB refuses the query: one signature per query class and error text
        return ["rejected:%s:%s" % (item["c"], err_class(val))]
    want = "error" if expected["err"] == "must" else "rows"
    return ["unexplained:%s:want_%s:got_rows" % (item["c"], want)]


def selftest_perturb(model):
    exp = dict(model["exp"])
    exp["rows"] = list(exp["rows"]) + [[7, 7, 7]]
    return {"exp": exp, "dev": model["dev"]}


def gen_cases(chk, params):
    cfg = vlib.scratch() + "/Gen_Subquery_run.cfg"
    open(cfg, "w").write(SPEC_CFG % params)
    reuse = os.environ.get("VERIF_C18_REUSE")          # development aid: parse a saved TLC output instead of running TLC
    if reuse and os.path.exists(reuse):
        gen = {"emitted": vlib.parse_emitted(open(reuse).read()), "violated": [], "stats": {}}
    else:
        gen = vlib.tlc_emit("MC_Subquery.tla", cfg, timeout=2400, workers=8)
    if gen["violated"]:
        raise vlib.ToolError("the Subquery oracle violates its own meta-invariant(s) %s" % gen["violated"])
    cat = [v for v in gen["emitted"] if v["n"] == 0]
    if len(cat) != 1:
        raise vlib.ToolError("TLC printed %d catalogues" % len(cat))
    return cat[0]["cat"], [v for v in gen["emitted"] if v["n"] == 3], gen["stats"]


def run(chk):
    thorough = chk.tier == "thorough"
    rng = random.Random(chk.seed)
    selftest = os.environ.get("VERIF_SELFTEST") == "1"
    chk.assumptions += [
        "row universe: k in {NULL,1,2} x v in {0,1}; tables t, s of <= %d rows, u of <= %d" % ((3, 2) if thorough else (2, 1)),
        "an error is demanded only where SQL demands one (scalar subquery with more than one row that is evaluated); "
        "when the outer table is empty and the failing subquery is uncorrelated both an error and the empty result are accepted",
        "result order is not judged; booleans in a select list are compared as 1 / 0 / NULL",
    ]
    vlib.build_harness(); chk.mark("build")
    params = dict(mt=3, ms=3, mu=2, stride=409, seed=chk.seed) if thorough else dict(mt=2, ms=2, mu=1, stride=97, seed=chk.seed)
    cat, cases, stats = gen_cases(chk, params); chk.mark("tlc")
    sql = [r_query(it["q"]) for it in cat]
    sessions = [setup_ops(c) + [{"k": "query", "sql": s, "qi": i} for i, s in enumerate(sql)] for c in cases]
    results = sqlbag.run_sessions(sessions, "c18"); chk.mark("run")

    # a query shape that TurDB rejects outright (error although SQL defines rows) also "raises" where SQL demands a
    # cardinality error; that agreement would be accidental, so it is attributed to the rejection instead
    rejected = set()
    for case, ops, res in zip(cases, sessions, results):
        for op, r in zip(ops, res):
            if op.get("setup") or "err" not in r:
                continue
            if case["res"][op["qi"]]["exp"]["err"] == "no":
                rejected.add((cat[op["qi"]]["c"], err_class(r["err"])))
    accidental = 0
    per_sig = collections.Counter()
    evals = agree = 0
    kinds = collections.Counter()
    classes_ok = collections.Counter()
    classes_all = collections.Counter()
    want_error = got_error_ok = may_error = 0
    samples = []
    dump = collections.Counter()
    seen_violation = set()
    for ci, (case, ops, res) in enumerate(zip(cases, sessions, results)):
        if len(res) != len(ops):
            raise vlib.ToolError("session %d returned %d of %d results (watchdog?)" % (ci, len(res), len(ops)))
        for op, r in zip(ops, res):
            if op.get("setup"):
                if "ok" not in r:
                    raise vlib.ToolError("setup failed: %s -> %s" % (op["sql"][:200], json.dumps(r)[:300]))
                continue
            i = op["qi"]
            item = cat[i]
            model = case["res"][i]
            if selftest and ci == 0 and i == 0:
                model = selftest_perturb(model)
            oc = sqlbag.outcome(r)
            evals += 1
            classes_all[item["c"]] += 1
            if model["exp"]["err"] == "must":
                want_error += 1
            elif model["exp"]["err"] == "may":
                may_error += 1
            verdict = judge(model, oc)
            if verdict is None and oc[0] == "err" and (item["c"], err_class(oc[1])) in rejected:
                accidental += 1
                sig = "rejected:%s:%s" % (item["c"], err_class(oc[1]))
                per_sig[sig] += 1
                if sig in chk.findings.hit:
                    chk.findings.hit[sig]["count"] += 1
                continue
            if verdict is None:
                agree += 1
                classes_ok[item["c"]] += 1
                if model["exp"]["err"] == "must":
                    got_error_ok += 1
                if len(samples) < 3 and model["exp"]["rows"] and rng.random() < 0.01:
                    samples.append({"tables": {k: case[k] for k in "tsu"}, "sql": op["sql"], "expected": model["exp"],
                                    "observed": sqlbag.bag_list(oc[1]) if oc[0] == "rows" else {oc[0]: oc[1]}})
                continue
            kinds[verdict[0]] += 1
            sigs = signatures(verdict, item, case, model["exp"])
            dump[(str(verdict[1])[:80] if verdict[0] != "kf" else "+".join(verdict[1]), item["c"])] += 1
            rep = None
            for sig in sigs:
                per_sig[sig] += 1
                if sig in chk.findings.hit:
                    chk.findings.hit[sig]["count"] += 1
                    continue
                if sig in seen_violation:
                    continue
                if rep is None:
                    rep = {"tables": {k: case[k] for k in "tsu"}, "sql": op["sql"], "class": item["c"], "query": item["q"],
                           "model": model, "expected": model["exp"],
                           "observed": sqlbag.bag_list(oc[1]) if oc[0] == "rows" else {oc[0]: oc[1]}, "verdict": list(verdict)}
                if not chk.findings.known(sig):
                    seen_violation.add(sig)
                chk.classify(sig, rep)
    chk.mark("judge")

    classes = collections.Counter(f for c in cases for f in data_class(c))
    need = ["t_nullkey", "s_nullkey", "s_empty", "t_empty", "s_dupkey", "s_duprow", "t_duprow", "u_empty", "u_nullkey"]
    missing = [f for f in need if not classes[f]]
    if missing:
        raise vlib.ToolError("vacuous generation: no case with %s" % missing)
    qclasses = collections.Counter(it["c"] for it in cat)
    for c in ("where_in", "where_in_corr", "where_exists", "where_exists_corr", "where_scalar_agg", "where_scalar_row",
              "select_scalar_agg_corr", "select_in", "select_exists", "from_derived", "nest2", "nest3", "setop_chain",
              "setop_union", "setop_union_all", "setop_intersect", "setop_except"):
        if not qclasses[c]:
            raise vlib.ToolError("vacuous catalogue: no query of class %s" % c)
    if not want_error:
        raise vlib.ToolError("vacuous generation: no case in which SQL demands an error")
    nontrivial = sum(1 for c in cases for m in c["res"] if m["exp"]["rows"] or m["exp"]["err"] == "must")
    if os.environ.get("VERIF_C18_DUMP"):
        with open(os.environ["VERIF_C18_DUMP"], "w") as f:
            for k, n in sorted(dump.items(), key=lambda kv: -kv[1]):
                f.write("%6d %s\n" % (n, k))
    chk.cov = {
        "evaluations": evals, "distinct_nontrivial": nontrivial,
        "rule": "a (tables, query) pair whose expected outcome is a non-empty bag or a demanded error",
        "cases": len(cases), "query_shapes": len(cat), "query_classes": dict(qclasses), "tlc_states": stats.get("distinct"),
        "meta_invariants": "SetAlgebra InAlgebra ScalarAlgebra", "data_classes": dict(classes),
        "agree": agree, "error_demanded": want_error, "error_demanded_and_raised": got_error_ok, "error_optional": may_error,
        "error_demanded_but_query_rejected_anyway": accidental,
        "agreeing_by_class": dict(classes_ok), "evaluations_by_class": dict(classes_all),
        "divergence_kinds": dict(kinds), "signatures": dict(per_sig), "samples": samples, "exhaustive": False, "selftest": selftest,
    }


def replay(chk, path):
    d = json.load(open(path))
    rp = d["replay"]
    vlib.build_harness()
    ops = setup_ops(rp["tables"]) + [{"k": "query", "sql": rp["sql"]}]
    res = sqlbag.run_sessions([ops], "replay")[0]
    oc = sqlbag.outcome(res[-1])
    verdict = judge(rp["model"], oc)
    print("signature:", d["signature"])
    print("tables   :", json.dumps(rp["tables"]))
    print("sql      :", rp["sql"])
    print("expected :", json.dumps(rp["model"]["exp"]))
    print("observed :", json.dumps(sqlbag.bag_list(oc[1])) if oc[0] == "rows" else "%s: %s" % oc)
    if verdict is None:
        print("REPLAY: the current tree returns the specified outcome (divergence not reproduced)")
        return 0
    print("REPLAY: divergence reproduced:", verdict)
    return 1

"""C13 - bound parameters behave like the equivalent literals.

spec/Params.tla is the relational reference in which a parameter IS a value: ExecP(stmt, form, ps) ==
Exec(stmt, Subst(form, ps)). TLC enumerates statement templates (INSERT with 1/2/3/7 placeholders, UPDATE SET c = ?
WHERE c2 = ?, DELETE WHERE c = ?, SELECT WHERE c = ? / IN (?, ?) / BETWEEN ? AND ?, LIMIT ?) x placeholder forms
(?, $n in order, $n out of order, $1 repeated, :name) x parameter values (ints, floats that need exponents or 17
digits, NaN, NULL, text full of quotes / comment markers / placeholders / SQL, blobs, dates), checks the reference's
own laws (SubstRoundTrip, FormLaws, ParamIsLiteral, ConstraintsHold, ErrLeavesStateAlone, RepeatLaws, SelectLaws) and
emits for every case the expected result, affected count, post-state and index probes of executing it once and twice.

Every case is executed on fresh copies of a table with PRIMARY KEY + UNIQUE + secondary index:
  inline literal SQL (once, and twice as the reference for the cached plans), execute_with_params, prepared + bound
  execute()/query() once, prepared executed twice (second use = cached insert / update plan);
for SELECT: inline, execute_with_params, prepared.query(), prepared.execute().
C13 is relational: a path must give the same statement result, the same table contents and the same index-probe
answers as the inlined statement. The model says which side is wrong (blame) and keeps the baseline honest: where
the inlined statement itself deviates from the model the case is counted (`baseline_deviates`), not reported here.
"""
import json, os, random, re, collections, math, struct
import vlib, values as V

LEVEL = "exploration"
MANIFEST = dict(cat=LEVEL, ref="DESIGN.md 3.9, 6 (C13)",
    tech="TLA+ reference Params.tla (one semantics Exec; ExecP = Exec o Subst): TLC checks 7 laws of the reference and enumerates "
         "~3000 (template, placeholder form, values) cases with expected result / post-state / index probes for one and two "
         "executions; each is run on TurDB five ways (inline x1, inline x2, execute_with_params, prepared x1, prepared x2 = cached "
         "plan; SELECT: inline, execute_with_params, prepared.query, prepared.execute) from two physical histories of the same rows "
         "and compared pairwise with the inlined run and with the model",
    text="For every enumerated statement with 1-7 placeholders (INSERT also with VALUES lists of 2 and 3 tuples, the placeholders numbered across the tuples; and ONE prepared statement bound and executed twice with two DIFFERENT parameter vectors, compared with two separately prepared statements) in the forms ?, $n (ordered, out of order, repeated) and :name and "
         "every parameter value class (incl. text containing ' '' \\ -- /* ; ? $1 :a newlines and SQL), all API paths give the "
         "result, affected count, table contents and PK/UNIQUE/secondary-index lookups of the statement with the literals inlined; "
         "quick tier samples ~320 cases (half of them from both histories), thorough runs all",
    note="level exploration: the model is a one-step input/output reference (no interleavings to model-check); type-mismatched "
         "parameters (text bound to an INT column) are out of scope; where the inlined statement itself is wrong the case only "
         "counts as baseline deviation")

SELFTEST = os.environ.get("VERIF_SELFTEST")
COLS = ["id", "u", "d", "k", "s", "b", "f"]


# ------------------------------------------------------------------------------------------------ values
def point(v):
    """Params.tla value record -> (Values-style point, detail)"""
    t = v["t"]
    if t == "null":
        return {"tag": "null", "cls": "null"}, None
    if t == "int":
        return {"tag": "int", "cls": v["n"]}, None
    if t == "date":
        return {"tag": "date", "cls": v["n"]}, V.D[v["n"]]
    return {"tag": t, "cls": v["n"]}, None


def lit(v):
    if v["t"] == "int":
        return v["n"]
    p, d = point(v)
    return V.lit(p, d)


def par(v):
    if v["t"] == "int":
        return int(v["n"])
    p, d = point(v)
    return V.param(p, d)


def canon(o):
    """harness value -> comparable python value (type tag included; floats by bits, NaN == NaN)"""
    t = V.obs_tag(o)
    if t == "null":
        return ("null",)
    if t == "float":
        try:
            f = float(o["f"])
        except ValueError:
            return ("float", o["f"])
        return ("float", "nan") if math.isnan(f) else ("float", struct.unpack("<Q", struct.pack("<d", f))[0])
    if t == "int":
        return ("int", o)
    if t == "text":
        return ("text", o)
    if t == "blob":
        return ("blob", o["b"])
    if t == "date":
        return ("date", o["date"])
    return (t, json.dumps(o, sort_keys=True))


def canon_model(v):
    return canon(par(v))


def model_rows(rows):
    return sorted(tuple(canon_model(r[c]) for c in COLS) for r in rows)


# ------------------------------------------------------------------------------------------------ rendering
def placeholder(form, j, n):
    return {"anon": "?", "dollar": "$%d" % j, "rev": "$%d" % (n + 1 - j), "rep": "$1", "named": ":p%d" % j}[form]


def statement(case, slot_text):
    """slot_text: list of SQL fragments, one per slot"""
    k = case["kind"]
    if k == "insert":
        ph = case["ph"]
        order = ph if len(ph) == len(COLS) else COLS          # all columns are slots: the column list is in slot order
        tuples = []
        for r in range(max(1, case.get("nrows", 1))):            # several VALUES tuples: the slots run on across them
            vals = []
            for c in order:
                vals.append(slot_text[r * len(ph) + ph.index(c)] if c in ph else lit(BASE[c]))
            tuples.append("(%s)" % ", ".join(vals))
        return "INSERT INTO t (%s) VALUES %s" % (", ".join(order), ", ".join(tuples))
    if k == "update":
        return "UPDATE t SET %s = %s WHERE %s = %s" % (case["set"], slot_text[0], case["wh"], slot_text[1])
    if k == "delete":
        return "DELETE FROM t WHERE %s = %s" % (case["wh"], slot_text[0])
    if k == "sel_eq":
        return "SELECT id FROM t WHERE %s = %s" % (case["wh"], slot_text[0])
    if k == "sel_in":
        return "SELECT id FROM t WHERE %s IN (%s, %s)" % (case["wh"], slot_text[0], slot_text[1])
    if k == "sel_between":
        return "SELECT id FROM t WHERE %s BETWEEN %s AND %s" % (case["wh"], slot_text[0], slot_text[1])
    if k == "sel_limit":
        return "SELECT id FROM t LIMIT %s" % slot_text[0]
    raise KeyError(k)


def iv(x):
    return {"t": "int", "n": str(x), "r": x}


BASE = {"id": iv(4), "u": iv(30), "d": {"t": "date", "n": "d_epoch", "r": 0}, "k": iv(7), "s": {"t": "text", "n": "p_z", "r": 0},
        "b": {"t": "blob", "n": "b_bin", "r": 0}, "f": {"t": "float", "n": "f_tenth", "r": 0}}
ROW1 = "1, 10, '2024-02-29', 5, 'a', X'00ff10807f', 1.5"
ROW2 = "2, 20, '1970-01-01', 5, 'it''s', X'616263', 2.5"
ROW3 = "3, NULL, NULL, NULL, NULL, NULL, NULL"
DDL = ["CREATE TABLE t (id INT PRIMARY KEY, u INT UNIQUE, d DATE, k INT, s TEXT, b BLOB, f DOUBLE PRECISION)", "CREATE INDEX ik ON t (k)"]
SETUP = {
    "fresh": DDL + ["INSERT INTO t VALUES (%s)" % r for r in (ROW1, ROW2, ROW3)],
    # the same logical rows after a history: rows 4 and 5 existed and were deleted (their keys 4/5, 30/40, 7/-1 are in the
    # indexes' past), row 1 was rewritten column by column, row 3 was deleted and re-inserted
    "aged": DDL + ["INSERT INTO t VALUES (1, 11, '2000-01-01', 9, 'old', X'01', 9.5)", "INSERT INTO t VALUES (%s)" % ROW2,
                   "INSERT INTO t VALUES (4, 30, '1970-01-01', 7, 'z', X'00ff10807f', 0.1)", "INSERT INTO t VALUES (5, 40, NULL, -1, 'gone', NULL, NULL)",
                   "INSERT INTO t VALUES (%s)" % ROW3, "DELETE FROM t WHERE id = 4", "DELETE FROM t WHERE id = 5", "DELETE FROM t WHERE id = 3",
                   "UPDATE t SET u = 10 WHERE id = 1", "UPDATE t SET k = 5 WHERE id = 1", "UPDATE t SET s = 'a' WHERE id = 1",
                   "UPDATE t SET d = '2024-02-29' WHERE id = 1", "UPDATE t SET b = X'00ff10807f' WHERE id = 1", "UPDATE t SET f = 1.5 WHERE id = 1",
                   "INSERT INTO t VALUES (%s)" % ROW3],
}
SCAN = "SELECT id, u, d, k, s, b, f FROM t"
IS_SELECT = lambda case: case["kind"].startswith("sel_")


def paths(case):
    other = case.get("sv2") is not None and case["sv2"] != case["sv"]
    if IS_SELECT(case):
        return ["inline", "params", "prep_query", "prep_execute"] + (["prep_query_seq", "prep_query_other"] if other else [])
    return ["inline", "inline2", "params", "prep", "prep2"] + (["prep_seq", "prep_other"] if other else [])


def probes_of(case):
    return sorted(((p["c"], p["v"]["n"]) for p in case["once"]["probes"]))


def render(case, age, path):
    n = case["nslots"]
    inline_sql = statement(case, [lit(v) for v in case["sv"]])
    ph_sql = statement(case, [placeholder(case["form"], j, n) for j in range(1, n + 1)])
    params = [par(v) for v in case["ps"]]
    inline_sql2 = statement(case, [lit(v) for v in case["sv2"]]) if case.get("sv2") else None
    params2 = [par(v) for v in case["ps2"]] if case.get("ps2") else None
    ops = [{"k": "exec", "sql": s} for s in SETUP[age]]
    ops.append({"k": "query", "sql": SCAN})                    # pre-state (must be the model's initial rows)
    mark = len(ops)
    if path == "inline":
        ops.append({"k": "query" if IS_SELECT(case) else "exec", "sql": inline_sql, "stop_on_panic": False})
    elif path == "inline2":
        ops += [{"k": "exec", "sql": inline_sql, "stop_on_panic": False}] * 2
    elif path in ("prep_seq", "prep_query_seq"):
        # the reference for a re-bound plan: the same two bindings through two SEPARATELY prepared statements
        mode = "query" if path == "prep_query_seq" else "execute"
        ops += [{"k": "prepared", "sql": ph_sql, "params": params, "mode": mode, "stop_on_panic": False},
                {"k": "prepared", "sql": ph_sql, "params": params2, "mode": mode, "stop_on_panic": False}]
    elif path in ("prep_other", "prep_query_other"):
        # ONE prepared statement, bound and executed twice with DIFFERENT parameter vectors
        ops.append({"k": "prepared", "sql": ph_sql, "params": params, "params2": params2, "mode": "query" if path == "prep_query_other" else "execute",
                    "times": 2, "stop_on_panic": False})
    elif path == "params":
        ops.append({"k": "params", "sql": ph_sql, "params": params, "stop_on_panic": False})
    elif path in ("prep", "prep2", "prep_execute"):
        ops.append({"k": "prepared", "sql": ph_sql, "params": params, "mode": "execute", "times": 2 if path == "prep2" else 1, "stop_on_panic": False})
    elif path == "prep_query":
        ops.append({"k": "prepared", "sql": ph_sql, "params": params, "mode": "query", "stop_on_panic": False})
    after = len(ops)
    ops.append({"k": "query", "sql": SCAN, "stop_on_panic": False})
    for c, name in probes_of(case):
        ops.append({"k": "query", "sql": "SELECT id FROM t WHERE %s = %s" % (c, name), "stop_on_panic": False})
    return ops, mark, after


# ------------------------------------------------------------------------------------------------ observations
def stmt_outcome(case, r):
    """one execution's result -> canonical outcome"""
    if r is None:
        return ("missing",)
    if "panic" in r:
        return ("panic",)
    if "err" in r:
        return ("err",)
    if IS_SELECT(case):
        rows = r["rows"] if "rows" in r else r["ok"].get("rows")
        if rows is None:
            return ("no_rows_field",)
        ids = [canon(x[0]) if x else ("empty",) for x in rows]
        if case["kind"] == "sel_limit":
            allowed = {("int", i) for i in case["once"]["sel"]}
            return ("limit", len(ids), len(set(ids)) == len(ids) and set(ids) <= allowed)
        return ("rows", tuple(sorted(ids)))
    return ("ok", r["ok"].get("n"))


def model_outcome(case, which):
    m = case[which]
    if IS_SELECT(case):
        if case["kind"] == "sel_limit":
            return ("limit", m["n"], True)
        return ("rows", tuple(sorted(("int", i) for i in m["sel"])))
    return ("ok", m["n"]) if m["ok"] else ("err",)


def observe(case, path, res, mark, after):
    """-> dict(pre, result (list of per-execution outcomes), state, probes) in canonical form"""
    def rows_of(r):
        if r is None or "rows" not in r:
            return ("unreadable", "panic" if r and "panic" in r else "err" if r and "err" in r else "missing")
        return tuple(sorted(tuple(canon(x) for x in row) for row in r["rows"]))
    get = lambda i: res[i] if i < len(res) else None
    o = {"pre": rows_of(get(mark - 1))}
    execs = []
    for i in range(mark, after):
        r = get(i)
        if r is not None and "prev" in r:
            execs += [stmt_outcome(case, p) for p in r["prev"]]
        execs.append(stmt_outcome(case, r))
    o["result"] = tuple(execs)
    o["state"] = rows_of(get(after))
    pr = []
    for j, (c, name) in enumerate(probes_of(case)):
        r = get(after + 1 + j)
        pr.append((c, name, tuple(sorted(canon(x[0]) for x in r["rows"])) if r is not None and "rows" in r else ("unreadable",)))
    o["probes"] = tuple(pr)
    return o


def model_obs(case, path):
    twice = path in ("inline2", "prep2")
    other = path in ("prep_seq", "prep_query_seq", "prep_other", "prep_query_other")
    last = case["other"] if other else case["twice"] if twice else case["once"]
    res = ((model_outcome(case, "once"), model_outcome(case, "other")) if other else
           (model_outcome(case, "once"), model_outcome(case, "twice")) if twice else (model_outcome(case, "once"),))
    return {"result": res, "state": tuple(model_rows(last["rows"])),
            "probes": tuple(sorted((p["c"], p["v"]["n"], tuple(sorted(("int", i) for i in p["ids"]))) for p in last["probes"]))}


REF = {"params": "inline", "prep": "inline", "prep2": "inline2", "prep_query": "inline", "prep_execute": "inline",
       "prep_other": "prep_seq", "prep_query_other": "prep_query_seq"}


def vclass(v):
    return v["t"] + ":" + v["n"] if v["t"] in ("text", "float", "blob", "date", "null") else "int"


def template(case):
    k = case["kind"]
    if k == "insert":
        return "insert%s(%s)" % ("" if case.get("nrows", 1) <= 1 else "_%drows" % case["nrows"], ",".join(case["ph"]))
    if k == "update":
        return "update(set %s where %s)" % (case["set"], case["wh"])
    return "%s(%s)" % (k, case["wh"])


def judge(case, age, obs):
    """obs: path -> observation. -> (divergences, baseline_deviations)"""
    divs, base = [], []
    pre_model = PRE_ROWS
    for p, o in obs.items():
        if o["pre"] != pre_model:
            return [], [dict(kind="pre_state", path=p, aspect="pre")]
    for p in ("inline", "inline2"):
        if p in obs:
            m = model_obs(case, p)
            for a in ("result", "state", "probes"):
                if obs[p][a] != m[a]:
                    base.append(dict(kind="baseline", path=p, aspect=a, model=m[a], observed=obs[p][a]))
    for p, ref in REF.items():
        if p not in obs:
            continue
        m = model_obs(case, p)
        for a in ("result", "state", "probes"):
            got, want = obs[p][a], obs[ref][a]
            if SELFTEST == "1" and a == "result" and p == "params" and case["kind"] == "delete" and case["form"] == "dollar":
                want = (("ok", 99),)          # deliberately wrong reference: the check must report it
            if got == want:
                continue
            blame = "param_path_deviates_from_model" if want == m[a] else ("literal_path_deviates_from_model" if got == m[a] else "both_deviate_from_model")
            divs.append(dict(kind="differs_from_inline", path=p, aspect=a, blame=blame, observed=got, inline=want, model=m[a]))
    return divs, base


def short(x, n=300):
    s = json.dumps(x, default=str)
    return s if len(s) <= n else s[:n] + "..."


def full_signature(case, age, d):
    detail = ""
    if d["aspect"] == "result":
        detail = "%s->%s" % (short(d["inline"], 60), short(d["observed"], 60))
    return "|".join([template(case), case["form"], ",".join(vclass(v) for v in case["sv"]), d["path"], d["aspect"], d["blame"], detail])


# ------------------------------------------------------------------------------------------------ named deviations
# Each rule recognises ONE understood defect of the unchanged tree from the whole set of differences one path shows
# against the inlined run (per execution, per aspect). A path whose differences are not exactly one of these patterns
# keeps the fully detailed signatures and is therefore a VIOLATION.
WHERE_SLOTS = {"update": [1], "delete": [0], "sel_eq": [0], "sel_in": [0, 1], "sel_between": [0, 1]}
STORE_SLOTS = lambda case: list(range(case["nslots"])) if case["kind"] == "insert" else ([0] if case["kind"] == "update" else [])


def classify_path(case, age, path, divs, obs):
    """-> one named signature for all of this path's divergences, or None"""
    if not divs:
        return None
    kind, form = case["kind"], case["form"]
    o, ref = obs[path], obs[REF[path]]
    aspects = {d["aspect"] for d in divs}
    blames = {d["blame"] for d in divs}
    null_in_where = any(case["sv"][j]["t"] == "null" for j in WHERE_SLOTS.get(kind, []))
    nan_stored = any(case["sv"][j]["n"] == "f_nan" for j in STORE_SLOTS(case))
    # executions whose outcome differs from the inlined run's
    ex = [i for i, (x, y) in enumerate(zip(o["result"], ref["result"])) if x != y] if len(o["result"]) == len(ref["result"]) else None
    sel = IS_SELECT(case)
    if sel and path in ("params", "prep_execute") and aspects == {"result"}:
        ignored = ("limit", len(PRE_ROWS), True) if kind == "sel_limit" else ("rows", ())
        if o["result"] == (ignored,) and blames <= {"param_path_deviates_from_model", "both_deviate_from_model"}:
            return "SELECT|execute_with_params_or_prepared_execute|parameters_ignored"
    if null_in_where and blames == {"literal_path_deviates_from_model"} and kind in WHERE_SLOTS:
        return "WHERE_c_eq_NULL|inlined_NULL_literal_matches_NULL_rows|bound_NULL_matches_nothing"
    if kind == "delete" and blames == {"param_path_deviates_from_model"} and o["result"][0] == ("ok", 0) and ref["result"][0][0] == "ok" and ex is not None and 0 in ex:
        if case["wh"] != "id":
            return "DELETE|parameter_in_non_primary_key_predicate|matches_nothing"
        if form == "named":
            return "DELETE|named_parameter_on_primary_key|matches_nothing"
    if nan_stored and ex is not None and ex and all(ref["result"][i] == ("err",) and o["result"][i][0] == "ok" for i in ex) \
            and blames <= {"literal_path_deviates_from_model", "both_deviate_from_model"}:
        return "NaN|inlined_literal_rejected|bound_NaN_stored"
    # with a second, different binding (prep_other) a second execution that goes wrong also leaves another state behind
    second_only = (aspects == {"result"}) if path == "prep2" else ("result" in aspects)
    sv_second = case["sv2"] if path == "prep_other" else case["sv"]
    if (kind == "update" and path in ("prep2", "prep_other") and case["wh"] == "id" and second_only and ex == [1]
            and blames == {"param_path_deviates_from_model"}):
        if o["result"][1] == ("err",) and form != "rev" and ref["result"][1][0] == "ok":
            return "UPDATE|prepared_second_execution|pk_fast_path_cannot_decode_stored_row"
        if form == "rev" and o["result"][1] in (("err",), ("ok", 0)):
            # the fast path takes the LAST bound parameter as the key and the first ones as the SET values, whatever $n says
            return "UPDATE|prepared_second_execution|pk_fast_path_ignores_placeholder_positions"
    if (kind == "insert" and path in ("prep2", "prep_other") and len(case["ph"]) == len(COLS) and sv_second[0]["t"] == "null" and ex == [1]
            and o["result"][1] == ("ok", 1) and ref["result"][1] == ("err",) and blames == {"param_path_deviates_from_model"}):
        return "INSERT|prepared_second_execution|cached_plan_accepts_NULL_primary_key"
    if (kind == "insert" and path in ("prep2", "prep_other") and len(case["ph"]) == len(COLS) and case["ph"] != COLS and ex == [1]
            and o["result"][1] == ("ok", 1) and ref["result"][1] == ("err",) and blames == {"param_path_deviates_from_model"}):
        return "INSERT|prepared_second_execution|cached_plan_ignores_the_column_list"
    if (kind == "insert" and path == "prep_other" and len(case["ph"]) == len(COLS) and case["ph"] != COLS and blames == {"param_path_deviates_from_model"}):
        # the re-bound values land in table-column order: seen in the stored row even when both executions report success
        return "INSERT|prepared_second_execution|cached_plan_ignores_the_column_list"
    if (kind == "insert" and path == "prep_other" and len(case["ph"]) < len(COLS) and ex == [1] and o["result"][1] == ("err",)
            and ref["result"][1][0] == "ok" and blames == {"param_path_deviates_from_model"}):
        return "INSERT|prepared_second_execution|parameter_count_mismatch_when_literals_and_placeholders_are_mixed"
    if (sel and path == "prep_query" and aspects == {"result"} and blames == {"param_path_deviates_from_model"}
            and any(v["n"] == "f_1e22" for v in case["sv"])):
        return "prepared_query|float_parameter_formatted_without_exponent|1e22_becomes_an_integer_literal"
    return None


PRE_ROWS = None


def _spread(items, key, n, rng):
    """at most n items: one per stratum in random stratum order, then a second one, ..."""
    if len(items) <= n:
        return list(items)
    groups = {}
    for it in items:
        groups.setdefault(key(it), []).append(it)
    ks = sorted(groups, key=str)
    rng.shuffle(ks)
    for k in ks:
        rng.shuffle(groups[k])
    out, i = [], 0
    while len(out) < n:
        progressed = False
        for k in ks:
            if i < len(groups[k]):
                out.append(groups[k][i]); progressed = True
                if len(out) >= n:
                    break
        if not progressed:
            break
        i += 1
    return out


def execute(cases):
    """cases: list of (case, age). Runs every path; -> {(case id, age): {path: observation}}"""
    jobs, index = [], {}
    for case, age in cases:
        for p in paths(case):
            ops, mark, after = render(case, age, p)
            index[len(jobs)] = (case, age, p, mark, after)
            jobs.append({"id": len(jobs), "ops": ops})
    inp, outp = vlib.scratch() + "/c13_in.ndjson", vlib.scratch() + "/c13_out.ndjson"
    vlib.write_ndjson(inp, jobs)
    vlib.run_vh(["sql-run", "--in", inp, "--out", outp, "--jobs", min(vlib.NCPU, 12), "--watchdog", 60], timeout=2400)
    out = collections.defaultdict(dict)
    for r in vlib.read_ndjson(outp):
        case, age, p, mark, after = index[r["id"]]
        out[(case["_id"], age)][p] = observe(case, p, r["res"], mark, after)
    return out


def check_renderer():
    """the spec's text ranks are byte order of the concrete strings; float ranks are numeric order"""
    spec = open(os.path.join(vlib.SPEC, "Params.tla")).read()
    m = re.search(r"TextSeq == <<(.*?)>>", spec, re.S)
    names = re.findall(r'"(\w+)"', m.group(1))
    b = [V.P[n].encode() for n in names]
    if b != sorted(b) or len(set(b)) != len(b):
        raise vlib.ToolError("TextSeq of Params.tla is not the byte order of the strings in lib/values.py")
    m = re.search(r"FloatSeq == <<(.*?)>>", spec, re.S)
    fs = [V.F[n] for n in re.findall(r'"(\w+)"', m.group(1))]
    if fs != sorted(fs) or len(set(fs)) != len(fs):
        raise vlib.ToolError("FloatSeq of Params.tla is not in numeric order")


def run(chk):
    global PRE_ROWS
    thorough = chk.tier == "thorough"
    rng = random.Random(chk.seed)
    chk.assumptions += ["parameters have the type of the column they meet (or are NULL); cross-type coercion is not part of C13",
                        "equivalent literal of a value = lib/values.py lit(): '...' with doubled quotes, X'..', 'YYYY-MM-DD', shortest round-trip float",
                        "named placeholders bind by order of occurrence (TurDB's documented behaviour)"]
    vlib.build_harness(); chk.mark("build")
    check_renderer()
    gen = vlib.tlc_emit("MC_Params.tla", os.path.join(vlib.SPEC, "Gen_Params.cfg"), timeout=1500, workers=6)
    if gen["violated"]:
        raise vlib.ToolError("Params.tla violates its own laws: %s" % gen["violated"])
    cases = gen["emitted"]
    chk.mark("tlc")
    for i, c in enumerate(cases):
        c["_id"] = i
    sel = [c for c in cases if c["kind"] == "sel_limit"]
    PRE_ROWS = tuple(model_rows(sel[0]["once"]["rows"]))
    # non-vacuity of the enumeration
    kinds = collections.Counter(c["kind"] for c in cases)
    forms = collections.Counter(c["form"] for c in cases)
    vals = collections.Counter(v["n"] for c in cases for v in c["sv"])
    for k in ("insert", "update", "delete", "sel_eq", "sel_in", "sel_between", "sel_limit"):
        if not kinds[k]:
            raise vlib.ToolError("statement kind %s never generated" % k)
    for f in ("anon", "dollar", "rev", "rep", "named"):
        if not forms[f]:
            raise vlib.ToolError("placeholder form %s never generated" % f)
    for v in ("p_sqlish", "p_its", "p_quote2", "p_backslash", "p_dashes", "p_comment", "p_semicolon", "p_qmark", "p_dollar1", "p_newline", "null",
              "f_1e22", "f_1e_7", "f_sum", "f_nan", "b_quote", "d_pre_epoch"):
        if not vals[v]:
            raise vlib.ToolError("parameter value class %s never generated" % v)
    if not any(c["kind"] == "insert" and c.get("nrows", 1) > 1 and c["form"] == "anon" for c in cases):
        raise vlib.ToolError("no multi-row INSERT with anonymous placeholders generated")
    errs = sum(1 for c in cases if not c["once"]["ok"])
    second_errs = sum(1 for c in cases if c["once"]["ok"] and not c["twice"]["ok"])
    if not errs or not second_errs:
        raise vlib.ToolError("no constraint-violating case generated (errors first: %d, on repetition: %d)" % (errs, second_errs))
    key = lambda c: (template(c), c["form"], ",".join(v["t"] for v in c["sv"]))
    if thorough:
        chosen = [(c, a) for c in cases for a in ("fresh", "aged")]
    else:
        picked = _spread(cases, key, 320, rng)
        # every sampled case from the fresh table, every second one also from the aged one
        chosen = [(c, "fresh") for c in picked] + [(c, "aged") for c in picked[::2]]
    obs = {}
    B = 1500
    for i in range(0, len(chosen), B):
        obs.update(execute(chosen[i:i + B]))
    chk.mark("run")
    per_sig, baseline = collections.Counter(), collections.Counter()
    runs = diverging = abandoned = 0
    for case, age in chosen:
        o = obs[(case["_id"], age)]
        runs += len(o)
        divs, base = judge(case, age, o)
        for b in base:
            if b["kind"] == "pre_state":
                abandoned += 1
            baseline["%s|%s|%s" % (template(case), b["aspect"], "pre_state_not_reached" if b["kind"] == "pre_state" else "inline_differs_from_model")] += 1
        if divs:
            diverging += 1
        seen = set()
        named = {p: classify_path(case, age, p, [d for d in divs if d["path"] == p], o) for p in {d["path"] for d in divs}}
        for d in divs:
            sig = named[d["path"]] or full_signature(case, age, d)
            if sig in seen:
                continue
            seen.add(sig)
            per_sig[sig] += 1
            n = case["nslots"]
            chk.classify(sig, {"case": {k: v for k, v in case.items() if k != "_id"}, "age": age, "path": d["path"], "aspect": d["aspect"], "blame": d["blame"],
                               "sql_inline": statement(case, [lit(v) for v in case["sv"]])[:400],
                               "sql_placeholders": statement(case, [placeholder(case["form"], j, n) for j in range(1, n + 1)]),
                               "params": [par(v) if len(json.dumps(par(v))) < 200 else "..." for v in case["ps"]],
                               "observed": short(d["observed"]), "inline": short(d["inline"]), "model": short(d["model"])})
    chk.mark("judge")
    if abandoned:
        chk.notes.append("%d case runs abandoned: the set-up did not reach the model's initial rows" % abandoned)
        if abandoned > len(chosen) // 4:
            raise vlib.ToolError("the set-up script does not reach the model's initial rows in %d of %d cases" % (abandoned, len(chosen)))
    nontrivial = {(template(c), c["form"], tuple(v["n"] for v in c["sv"])) for c, _ in chosen if any(v["t"] in ("text", "float", "blob", "date", "null") for v in c["sv"]) or c["form"] in ("rev", "rep")}
    chk.cov = {
        "evaluations": runs, "distinct_nontrivial": len(nontrivial),
        "rule": "a parameter is text / float / blob / date / NULL, or the placeholders are out of order or repeated",
        "cases_generated_by_tlc": len(cases), "cases_run": len(chosen), "cases_diverging": diverging, "tlc_states": gen["stats"].get("distinct"),
        "kinds": dict(kinds), "forms": dict(forms), "model_errors_first_execution": errs, "model_errors_on_repetition": second_errs,
        "baseline_deviations": dict(baseline.most_common(40)), "per_signature": dict(per_sig.most_common()),
        "exhaustive": bool(thorough),
        "samples": [{"sql": statement(c, [placeholder(c["form"], j, c["nslots"]) for j in range(1, c["nslots"] + 1)]), "params": [par(v) for v in c["ps"]],
                     "expected_once": model_outcome(c, "once"), "expected_twice": model_outcome(c, "twice")} for c, _ in chosen[:: max(1, len(chosen) // 3)][:3]],
    }


def replay(chk, path):
    global PRE_ROWS
    data = json.load(open(path))["replay"]
    case, age = data["case"], data["age"]
    case["_id"] = 0
    vlib.build_harness()
    PRE_ROWS = tuple(sorted(tuple(canon(x) for x in r) for r in [
        [1, 10, {"date": 19782}, 5, "a", {"b": "00ff10807f"}, {"f": "1.5"}], [2, 20, {"date": 0}, 5, "it's", {"b": "616263"}, {"f": "2.5"}], [3] + [None] * 6]))
    o = execute([(case, age)])[(0, age)]
    for p in paths(case):
        print("%-13s result=%s" % (p, short(o[p]["result"], 200)))
        print("%-13s state=%s" % ("", short(o[p]["state"], 400)))
    print("model once=%s twice=%s" % (model_outcome(case, "once"), model_outcome(case, "twice")))
    divs, base = judge(case, age, o)
    for d in divs:
        print("DIVERGENCE", classify_path(case, age, d["path"], [x for x in divs if x["path"] == d["path"]], o) or full_signature(case, age, d))
    for b in base:
        print("BASELINE", b["path"], b["aspect"], b["kind"])
    return 1 if divs else 0

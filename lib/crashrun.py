"""Crash-point enumeration shared by C01 / C02 (and the DML part of C40).

Workloads are behaviours of Relational.tla (random walks and explored transitions, with transactions, checkpoints and
reopen). The harness (`vharness crash-run`) executes a workload with the durability hooks on and, at EVERY hook event
(page mutation, WAL frame write, fsync/msync, truncation, catalog/meta write step) and every statement boundary,
snapshots the database directory in two crash models (kill / power loss, see harness/src/crash.rs), then opens every
snapshot (recovery runs) and evaluates the observation queries.

The model side decides what a recovered database may look like. For a crash while unit u is in flight, after units
1..u-1 were acknowledged:

      A = Relational state after the acknowledged units                  ("not at all")
      B = Relational state after u as well - only where u can be complete ("completely": an autocommit statement, or
          a transaction whose COMMIT is executing)

  C01  every view (scan, COUNT(*), each index path) shows the acknowledged effects: it equals A or B, or differs from
       A only on rows the in-flight unit touches
  C02  there is ONE state S in {A, B} that every view equals (tables readable, indexes agree with tables, prefix
       consistent)
"""
import json, os, random
import vlib, relrun, relational as R

WAL_FULL = [{"k": "exec", "sql": "PRAGMA wal=ON"}, {"k": "exec", "sql": "PRAGMA synchronous=FULL"}]
VIEW_CLASS = {"scan": "scan", "count": "count", "pk1": "pk_index", "pk2": "pk_index", "pk3": "pk_index", "range": "pk_range",
              "ua1": "unique_index", "ua2": "unique_index", "anull": "scan_filter", "b0": "secondary_index", "b1": "secondary_index",
              "arange": "unique_index", "brange": "secondary_index"}


def work_ops(hist):
    ops = []
    for i, st in enumerate(hist):
        op = st["op"]
        if op["k"] == "checkpoint" and i % 2 == 1:
            ops.append({"k": "exec", "sql": "PRAGMA wal_checkpoint"})     # the other checkpoint implementation
        elif op["k"] == "reopen":
            ops.append({"k": "close_reopen_wal"})
        else:
            o = R.op_sql(op)
            assert len(o) == 1
            ops.append(o[0])
    return ops


def render(cid, hist, stride=1, models=("kill", "power"), schema="pk_idx_b", max_snaps=4000, both_paths_every=0):
    return {"both_paths_every": both_paths_every, "id": cid, "setup": [{"k": "exec", "sql": s} for s in R.SCHEMAS[schema]], "after_reopen": WAL_FULL,
            "work": work_ops(hist), "verify": [q for _, q in R.OBS], "models": list(models), "stride": stride, "max_snaps": max_snaps}


def unit_states(hist):
    """for each step i: (A_before, B_candidate, A_after, kind) as lists of rows"""
    out = []
    begin_rows = None
    prev = []
    for i, st in enumerate(hist):
        k = st["op"]["k"]
        rows = st["rows"]
        if begin_rows is None:
            a_before = prev
        else:
            a_before = begin_rows
        if k == "begin":
            begin_rows = prev
            b = a_before
            a_before = prev
        elif k == "commit":
            b = rows
        elif k in ("rollback",):
            b = a_before
        elif begin_rows is not None:
            b = a_before               # inside a transaction: nothing of it may survive a crash
        else:
            b = rows if st["ok"] else prev
        intxn_after = st.get("intxn", False)
        if k in ("commit", "rollback"):
            begin_rows = None
        a_after = begin_rows if (intxn_after and begin_rows is not None) else rows
        if not st["ok"] and begin_rows is None:
            a_after = prev
        out.append((a_before, b, a_after, k))
        prev = rows
    return out


def expected(rows):
    return R.expected_obs(rows)


def restrict(rows, ids):
    return [r for r in rows if r[0] not in ids]


def judge_snapshot(snap, A, B, inflight_kind, post_walsync, touched_extra=frozenset(), unit_open=False, obs_list=None, expected_fn=None, view_class=None, count_views=("count",)):
    """-> list of problems: dict(prop, what, view, detail). touched_extra: ids of rows the open transaction has
    touched so far (its uncommitted changes are C02's business, not C01's); unit_open: a unit is in flight or a
    transaction is open (COUNT(*) cannot be attributed to acknowledged rows then)"""
    if snap["open"] != "ok":
        return [{"prop": "C02", "what": "reopen_failed" if snap["open"].startswith("err") else "reopen_panicked", "view": "open", "detail": snap["open"][:200]}]
    obs_list = obs_list or R.OBS
    expected_fn = expected_fn or expected
    view_class = view_class or VIEW_CLASS
    eA, eB = expected_fn(A), expected_fn(B)
    touched = {r[0] for r in (set(map(tuple, A)) ^ set(map(tuple, B)))} | set(touched_extra)
    obs = {}
    for j, (name, _) in enumerate(obs_list):
        r = snap["res"][j] if j < len(snap["res"]) else None
        if r is None:
            obs[name] = "missing"
        elif "panic" in r:
            obs[name] = "panic"
        elif "err" in r:
            obs[name] = "err"
        else:
            obs[name] = R.norm_rows(r)
    problems = []
    mA = {v: obs[v] == eA[v] for v in obs}
    mB = {v: obs[v] == eB[v] for v in obs}
    if all(mA.values()) or all(mB.values()):
        return []
    for v in obs:
        if obs[v] in ("panic", "err", "missing"):
            problems.append({"prop": "C02", "what": "unreadable_" + obs[v], "view": v, "detail": obs[v]})
            continue
        if mA[v] or mB[v]:
            continue
        # the view matches neither candidate state
        if v in count_views:
            lost = A == B and not unit_open
        else:
            lost = restrict(obs[v], touched) != restrict(eA[v], touched) if isinstance(obs[v], list) else True
        if lost:
            problems.append({"prop": "C01", "what": "acked_effect_missing_or_wrong", "view": v, "detail": {"observed": obs[v], "acked": eA[v], "with_inflight": eB[v]}})
        problems.append({"prop": "C02", "what": "view_matches_no_prefix", "view": v, "detail": {"observed": obs[v], "acked": eA[v], "with_inflight": eB[v]}})
    if not problems:
        # every view equals A or B, but not all the same one: indexes / counters disagree with the table
        sa = sorted(v for v in obs if mA[v] and not mB[v])
        sb = sorted(v for v in obs if mB[v] and not mA[v])
        problems.append({"prop": "C02", "what": "views_disagree", "view": "+".join(sorted({view_class[x] for x in sa})) + "=before|" + "+".join(sorted({view_class[x] for x in sb})) + "=after",
                         "detail": {"show_acked_only": sa, "show_inflight_applied": sb}})
    return problems


def judge_case(hist, out, obs_list=None, expected_fn=None, view_class=None, dml=("insert", "update", "delete", "truncate"), count_views=("count",)):
    """-> (verdicts, stats). verdict: dict(model, n, event, op_kind, phase, prop, what, view, detail)"""
    stats = {"snapshots": 0, "consistent": 0, "abandoned_after_divergence": 0}
    if "fatal" in out:
        raise vlib.ToolError("crash-run could not create its database: %s" % out["fatal"])
    us = unit_states(hist)
    # the live run must follow the model; judge only the snapshots taken before the first divergence
    diverged_at = None
    for i, st in enumerate(hist):
        r = out["work_res"][i] if i < len(out["work_res"]) else None
        if r is None or "panic" in r or (("ok" in r) != st.get("ok", True)) or ("ok" in r and st["op"]["k"] in dml and r["ok"].get("n") != st["n"]):
            diverged_at = i
            break
    walsync_at = {}
    for n, name, op, detail in out["events"]:
        if name == "fsync" and str(detail).startswith("wal.") and op >= 0:
            walsync_at.setdefault(op, n)
    verdicts = []
    for s in out["snaps"]:
        op = s["op"]
        i = op if op >= 0 else -op - 1
        if diverged_at is not None and i >= diverged_at:
            stats["abandoned_after_divergence"] += 1
            continue
        stats["snapshots"] += 1
        a_before, b, a_after, kind = us[i]
        intxn_before = bool(hist[i - 1].get("intxn")) if i > 0 else False
        intxn_after = bool(hist[i].get("intxn"))
        if op >= 0:
            A, B = a_before, b
            post = op in walsync_at and walsync_at[op] <= s["n"]
            phase = "in_%s%s_%s" % ("txn_" if intxn_before and kind in dml else "", kind, "after_wal_sync" if post else "before_wal_sync")
        else:
            A = B = a_after
            phase = "boundary_in_txn" if intxn_after else "boundary"
        # spec-defined feature of the acknowledged prefix: a TRUNCATE since the last checkpoint / reopen
        feats = ""
        upto = i if op >= 0 else i + 1
        for st in hist[:upto]:
            k2 = st["op"]["k"]
            if k2 == "truncate" and st["ok"]:
                feats = "+after_truncate"
            elif k2 in ("checkpoint", "reopen"):
                feats = ""
        # rows the in-flight statement, and the open transaction so far, touch (Relational.tla: Touched(op))
        t_extra = set(hist[i].get("touched", [])) if op >= 0 else set()
        if (op >= 0 and (intxn_before or kind in ("commit", "rollback", "rollback_to"))) or (op < 0 and intxn_after):
            j = i
            while j >= 0 and hist[j]["op"]["k"] != "begin":
                t_extra |= set(hist[j].get("touched", []))
                j -= 1
        probs = judge_snapshot(s, A, B, kind, False, t_extra, unit_open=(op >= 0 or intxn_after), obs_list=obs_list, expected_fn=expected_fn, view_class=view_class, count_views=count_views)
        if not probs:
            stats["consistent"] += 1
        # C02: automatic recovery at open and the streaming path (degraded mode + PRAGMA recover_wal) must agree
        if "streaming_res" in s:
            stats["both_paths_compared"] = stats.get("both_paths_compared", 0) + 1
            def views(open_, res):
                if open_ != "ok":
                    return ("open:" + open_[:60],)
                off = 1 if len(res) == len(R.OBS) + 1 else 0      # the PRAGMA's own result comes first
                return tuple(json.dumps(R.norm_rows(r)) if "rows" in r else ("err" if "err" in r else "panic") for r in res[off:])
            va, vs = views(s["open"], s["res"]), views(s["streaming_open"], s["streaming_res"])
            if va != vs:
                probs = probs + [{"prop": "C02", "what": "recovery_paths_differ", "view": "open",
                                  "detail": {"automatic": va[:3], "streaming": vs[:3]}}]
        for p in probs:
            verdicts.append(dict(p, model=s["model"], n=s["n"], event=s["event"], op_index=i, op_kind=kind, phase=phase, features=feats))
    return verdicts, stats


def workloads(chk, walks, depth, with_txn=True):
    """Relational.tla behaviours used as workloads: random walks (TLC -simulate), stratified so that transactions,
    checkpoints and reopen are represented."""
    scfg = vlib.scratch() + "/GenWorkload_%d.cfg" % depth
    open(scfg, "w").write(open(os.path.join(vlib.SPEC, "Gen_Workload.cfg")).read().replace("MaxOps = 12", "MaxOps = %d" % depth)
                          .replace("WithTxn = TRUE", "WithTxn = %s" % ("TRUE" if with_txn else "FALSE")))
    sim = vlib.run_tlc("MC_Relational.tla", scfg, workers=1, timeout=900, simulate="num=%d" % (walks * 3), seed=chk.seed,
                       extra=["-depth", str(depth)])
    em = vlib.parse_emitted(sim["out"])
    hists, prev = [], None
    for e in em:
        if prev is not None and len(e["hist"]) <= len(prev["hist"]):
            hists.append(prev["hist"])
        prev = e
    if prev is not None:
        hists.append(prev["hist"])
    if not hists:
        raise vlib.ToolError("TLC -simulate produced no behaviours:\n" + sim["out"][-1500:])
    # a failing statement is a stuttering step of the model, so removing it leaves a behaviour of the model; failing
    # multi-row INSERTs are removed because TurDB keeps their first rows (open finding of C06) and the run would
    # leave the model there
    hists = [[st for st in h if not (st["op"]["k"] == "insert" and len(st["op"]["rows"]) > 1 and not st["ok"])] for h in hists]
    hists = [h for h in hists if h]
    def feat(h):
        ks = {st["op"]["k"] for st in h}
        return ("commit" in ks, "rollback" in ks or "rollback_to" in ks, "checkpoint" in ks, "reopen" in ks)
    rng = random.Random(chk.seed)
    return vlib.stratified_sample(hists, feat, walks, rng), {"simulated": len(hists)}


VIEW_GROUP = {"wscan": "table", "wcount": "count", "wpk": "index", "weq": "index",
              "scan": "table", "scan_filter": "table", "pk_range": "table", "count": "count", "pk_index": "index", "unique_index": "index",
              "secondary_index": "index", "open": "open"}


def phase_group(p):
    ph = p["phase"]
    if ph.startswith("boundary"):
        return ph
    kind = p["op_kind"]
    when = "after_wal_sync" if ph.endswith("after_wal_sync") else "before_wal_sync"
    if kind in ("insert", "update", "delete", "truncate", "insert_run", "delete_range", "delete_eq", "update_range"):
        return ("in_flight_txn_dml_" if ph.startswith("in_txn_") else "in_flight_dml_") + when
    return "in_flight_%s_%s" % (kind, when)


def signatures(verdicts, prop, view_class=None):
    """one signature per (snapshot, view group) for C01, one per snapshot for C02"""
    VIEW_CLASS = view_class or globals()["VIEW_CLASS"]
    by_snap = {}
    for p in verdicts:
        if p["prop"] != prop:
            continue
        by_snap.setdefault((p["model"], p["n"]), []).append(p)
    out = []
    for (model, n), ps in sorted(by_snap.items()):
        whats = sorted({p["what"] for p in ps})
        ph = phase_group(ps[0]) + ps[0].get("features", "")
        if prop == "C01":
            for g in sorted({VIEW_GROUP[VIEW_CLASS.get(p["view"], p["view"])] for p in ps}):
                out.append(("%s:acked_effect_missing:%s:%s" % (model, g, ph), [p for p in ps if VIEW_GROUP[VIEW_CLASS.get(p["view"], p["view"])] == g]))
        else:
            if "recovery_paths_differ" in whats:
                out.append(("%s:recovery_paths_differ:%s" % (model, ph), [p for p in ps if p["what"] == "recovery_paths_differ"]))
                ps = [p for p in ps if p["what"] != "recovery_paths_differ"]
                whats = sorted({p["what"] for p in ps})
                if not ps:
                    continue
            if any(w.startswith("reopen") or w.startswith("unreadable") for w in whats):
                sig = "%s:%s:%s" % (model, "+".join(whats), ph)
            elif "views_disagree" in whats:
                d = ps[0]["detail"]
                tv = [v for v in ("scan", "anull", "range")]
                table_consistent = all(v in d["show_acked_only"] or v not in d["show_inflight_applied"] for v in tv) or \
                                   all(v in d["show_inflight_applied"] or v not in d["show_acked_only"] for v in tv)
                sig = "%s:no_prefix_state:%s:%s" % (model, "index_or_count" if table_consistent else "table", ph)
            else:
                groups = {VIEW_GROUP[VIEW_CLASS.get(p["view"], p["view"])] for p in ps}
                sig = "%s:no_prefix_state:%s:%s" % (model, "table" if "table" in groups else "index_or_count", ph)
            out.append((sig, ps))
    return out


def evaluate(chk, prop, walks_quick=30, depth_quick=12, walks_thorough=300, depth_thorough=20):
    thorough = chk.tier == "thorough"
    chk.assumptions += ["A-FS (power loss): directory operations and file lengths are durable at once and in order; file contents are durable up to the last explicit msync/fsync of that file; unsynced regions read back as their last synced content (zeros if never synced); no torn pages",
                        "A-KILL (process kill): everything handed to the OS (write(), stores into MAP_SHARED mappings) survives; user-space buffers do not",
                        "crash points exist where hooks are: every MmapStorage::page_mut / grow / msync, WAL frame write / fsync / truncate, catalog and meta write steps, statement boundaries",
                        "workloads: WAL on, synchronous=FULL; table t(id PK, a UNIQUE, b NOT NULL CHECK) with a secondary index on b; domain of Relational.tla",
                        "a crash inside an explicit transaction before COMMIT must leave nothing of it (state at BEGIN); a crash inside COMMIT or an autocommit statement may leave all or nothing"]
    vlib.build_harness(); chk.mark("build")
    hists, gs = workloads(chk, walks_thorough if thorough else walks_quick, depth_thorough if thorough else depth_quick)
    chk.mark("tlc_gen")
    outs = run_cases(hists, both_paths_every=(1 if thorough else 3) if prop == "C02" else 0); chk.mark("crash_run")
    tot = {"snapshots": 0, "consistent": 0, "abandoned_after_divergence": 0, "both_paths_compared": 0}
    sigs, events, phases = {}, {}, {}
    op_kinds = {}
    for i, h in enumerate(hists):
        verdicts, st = judge_case(h, outs[i])
        for k in tot:
            tot[k] += st.get(k, 0)
        for n, name, op, detail in outs[i]["events"]:
            events[name] = events.get(name, 0) + 1
        for stp in h:
            op_kinds[stp["op"]["k"]] = op_kinds.get(stp["op"]["k"], 0) + 1
        for sig, ps in signatures(verdicts, prop):
            sigs[sig] = sigs.get(sig, 0) + 1
            p = ps[0]
            chk.classify(sig, {"workload": describe(h), "hist": h, "crash_point": p["n"], "event": p["event"], "during_statement": p["op_index"],
                               "model": p["model"], "problems": [{k: q[k] for k in ("what", "view", "detail")} for q in ps[:4]]})
    proto = protocol_traces(chk, 24 if not thorough else 150) if prop == "C01" else None
    chk.mark("trace_validation")
    wide = wide_evaluate(chk, prop, 40 if thorough else 5, 14 if thorough else 10, 7 if thorough else 25)
    chk.mark("wide_crash_run")
    if tot["snapshots"] == 0:
        raise vlib.ToolError("no snapshot was judged")
    if tot["abandoned_after_divergence"] > 0.3 * (tot["snapshots"] + tot["abandoned_after_divergence"]):
        raise vlib.ToolError("more than 30%% of the snapshots were abandoned because the live run left the model")
    # (fsync / msync are observed at the system-call level: their absence is a property of the code, not blindness)
    for need in ("mmap.page_mut", "wal.frame_written", "op_end"):
        if not events.get(need):
            raise vlib.ToolError("hook event %s never fired: the crash-point enumeration is blind there" % need)
    for need in ("commit", "checkpoint", "reopen"):
        if not op_kinds.get(need):
            raise vlib.ToolError("no workload contains %s" % need)
    chk.cov = {"evaluations": tot["snapshots"], "distinct_nontrivial": tot["snapshots"],
               "rule": "one evaluation = one (crash point, crash model) snapshot reopened and judged; crash points are distinct hook events / statement boundaries of distinct TLC-generated workloads; every one is non-trivial (recovery runs on a database with a non-empty history)",
               "workloads": len(hists), "workload_steps_by_kind": op_kinds, "hook_events_by_kind": events,
               "snapshots_consistent_with_a_prefix": tot["consistent"], "snapshots_recovered_through_both_paths": tot["both_paths_compared"], "snapshots_abandoned": tot["abandoned_after_divergence"],
               "signatures": sigs, "exhaustive": False, "crash_models": ["kill", "power"], "protocol_trace_validation": proto, "wide_table_workloads": wide,
               "samples": [describe(h) for h in hists[:3]]}


def protocol_traces(chk, n):
    """Durability.tla bound to the code by trace validation: the hook / system-call events of autocommit DML +
    checkpoint workloads must be a behaviour of the protocol spec, with C01_kill / C01_power_logged /
    NoRegressionOfAcked evaluated in every reconstructed state."""
    import durtrace
    hists, _ = workloads(chk, n * 3, 10, with_txn=False)
    hists = [h for h in hists if durtrace.supported(h)][:n]
    if len(hists) < 3:
        raise vlib.ToolError("too few workloads without transactions / reopen / TRUNCATE for the protocol trace validation")
    cases = []
    for i, h in enumerate(hists):
        c = render(i, h, stride=10 ** 9)
        c["verify"] = [{"k": "catalog"}]
        c["work"] = [({"k": "checkpoint"} if o.get("sql") == "PRAGMA wal_checkpoint" else o) for o in c["work"]]
        cases.append(c)
    inp, outp = vlib.scratch() + "/proto_in.ndjson", vlib.scratch() + "/proto_out.ndjson"
    vlib.write_ndjson(inp, cases)
    vlib.run_vh(["crash-run", "--in", inp, "--out", outp, "--jobs", vlib.NCPU], timeout=3000)
    outs = {r["id"]: r for r in vlib.read_ndjson(outp)}
    traces, files, maxp, used = [], set(), 0, []
    for i, h in enumerate(hists):
        o = outs[i]
        tid = {row[2]: row[1] + ".tbd" for row in (o["final"][0].get("rows") or []) if row[1]}
        tr = durtrace.events_to_trace(h, o, tid)
        if tr is None:
            raise vlib.ToolError("a hook event could not be mapped to a file (page_mut address / frame file id)")
        traces.append(tr); used.append(h)
        for e in tr:
            if "f" in e:
                files.add(e["f"])
            if "p" in e:
                maxp = max(maxp, e["p"])
    ok, detail, st = durtrace.validate(traces, files, maxp)
    # binding self-test: the same traces with every log sync removed must be rejected
    ok2, _, _ = durtrace.validate([[e for e in tr if e["e"] != "walsync"] for tr in traces], files, maxp)
    if ok2:
        raise vlib.ToolError("Trace_Durability accepts traces without any log sync: the trace specification does not bind")
    if not ok:
        rep = {"workloads": [describe(h) for h in used], "detail": detail}
        if "invariant_violated" in detail:
            chk.violation("protocol_trace:invariant:" + "+".join(detail["invariant_violated"]), rep)
        elif '"ack"' in str(detail.get("event")):
            chk.violation("protocol_trace:statement_acknowledged_before_its_pages_are_covered_by_a_synced_log", rep)
        else:
            chk.stale.append("recorded events are not a behaviour of Durability.tla: first unmatched event %s" % json.dumps(detail))
    return dict(st, accepted=ok, workloads=len(traces), selftest_without_log_sync_rejected=not ok2)


def replay_file(chk, path, prop):
    rep = json.load(open(path))["replay"]
    vlib.build_harness()
    outs = run_cases([rep["hist"]])
    verdicts, st = judge_case(rep["hist"], outs[0])
    print("replayed workload: %s" % rep["workload"])
    for sig, ps in signatures(verdicts, prop):
        print("  %s at crash point %d (%s)" % (sig, ps[0]["n"], ps[0]["event"]))
        chk.classify(sig, dict(rep, crash_point=ps[0]["n"]))
    chk.cov = {"evaluations": st["snapshots"], "distinct_nontrivial": max(2, st["snapshots"]), "rule": "replay of one stored workload", "samples": [rep["workload"]]}
    return chk.finish()


def run_cases(hists, stride=1, models=("kill", "power"), jobs=None, both_paths_every=0):
    inp, outp = vlib.scratch() + "/crash_in.ndjson", vlib.scratch() + "/crash_out.ndjson"
    vlib.write_ndjson(inp, [render(i, h, stride, models, both_paths_every=both_paths_every) for i, h in enumerate(hists)])
    vlib.run_vh(["crash-run", "--in", inp, "--out", outp, "--jobs", jobs or vlib.NCPU], timeout=3000)
    return {r["id"]: r for r in vlib.read_ndjson(outp)}


def describe(hist):
    return "; ".join(R.op_sql(h["op"])[0].get("sql", h["op"]["k"]) for h in hist)


# ------------------------------------------------------------------------------------------------ wide tables
# WideTable.tla workloads under crash enumeration: hundreds of rows of ~900 bytes (a transaction of a few hundred
# inserted rows dirties more than 16 table pages and takes the chunked COMMIT path), page splits in mid crash,
# snapshots at a stride plus every statement boundary and every event of COMMIT / checkpoint steps.
import widetable as W

WIDE_PAD = "q" * 900
WIDE_PAD_BIG = "Q" * 3000
WIDE_OBS = [("wscan", "SELECT id, a FROM w"), ("wcount", "SELECT COUNT(*) FROM w")] + \
           [("wpk%d" % i, "SELECT id, a FROM w WHERE id = %d" % i) for i in (1, 2, 64, 65, 128, 129, 200, 256, 300)] + \
           [("weq%d" % v, "SELECT COUNT(*) FROM w WHERE a = %d" % v) for v in (0, 3)]
WIDE_VIEW_CLASS = dict([("wscan", "wscan"), ("wcount", "wcount")] + [(n, "wpk") for n, _ in WIDE_OBS if n.startswith("wpk")] + [(n, "weq") for n, _ in WIDE_OBS if n.startswith("weq")])


def wide_expected(rows):
    m = {r[0]: r[1] for r in rows}
    out = {"wscan": sorted([[i, v] for i, v in m.items()], key=json.dumps), "wcount": [[len(m)]]}
    for n, _ in WIDE_OBS:
        if n.startswith("wpk"):
            i = int(n[3:])
            out[n] = [[i, m[i]]] if i in m else []
        elif n.startswith("weq"):
            v = int(n[3:])
            out[n] = [[sum(1 for x in m.values() if x == v)]]
    return out


def wide_work_ops(hist):
    ops = []
    for st in hist:
        op = st["op"]
        k = op["k"]
        if k == "insert_run":
            ids = W.run_ids(op)
            # every third row carries a 3000-byte value (stored out of line in the TOAST table): a transaction of 150 rows
            # then dirties well over 16 pages and COMMIT takes the chunked path
            ops.append({"k": "exec", "sql": "INSERT INTO w VALUES " + ", ".join("(%d, %d, '%s')" % (i, i % 10, WIDE_PAD_BIG if i % 3 == 0 else WIDE_PAD) for i in ids)})
        elif k == "reopen":
            ops.append({"k": "close_reopen_wal"})
        elif k in ("begin", "commit", "rollback"):
            ops.append({"k": "exec", "sql": k.upper()})
        else:
            o = W.op_ops(op)
            assert len(o) == 1
            ops.append(o[0])
    return ops


def wide_hist_for_judge(hist):
    """shape the WideTable history like a Relational one for unit_states / judge_case"""
    out = []
    for st in hist:
        op = st["op"]
        k = op["k"]
        if k == "insert_run":
            touched = list(range(op["lo"], op["lo"] + op["len"]))
        elif k in ("delete_range", "update_range"):
            touched = list(range(op["lo"], op["hi"] + 1))
        elif k == "delete_eq":
            touched = list(range(1, 601))
        else:
            touched = []
        out.append({"op": op, "ok": True, "n": st["n"], "rows": [list(r) for r in st["rows"]], "intxn": st["intxn"], "touched": touched})
    return out


def wide_evaluate(chk, prop, walks, depth, stride):
    cfg = vlib.scratch() + "/GenWideTxn.cfg"
    open(cfg, "w").write(open(os.path.join(vlib.SPEC, "Gen_WideTable.cfg")).read().replace("MaxOps = 12", "MaxOps = %d" % depth).replace("WithTxn = FALSE", "WithTxn = TRUE").replace("N = 400", "N = 600"))
    sim = vlib.run_tlc("MC_WideTable.tla", cfg, workers=1, timeout=1500, simulate="num=%d" % (walks * 4), seed=chk.seed, extra=["-depth", str(depth)])
    em = vlib.parse_emitted(sim["out"])
    hists, prev = [], None
    for e in em:
        if prev is not None and len(e["hist"]) <= len(prev["hist"]):
            hists.append(prev["hist"])
        prev = e
    if prev is not None:
        hists.append(prev["hist"])
    if not hists:
        raise vlib.ToolError("no WideTable workloads:\n" + sim["out"][-1200:])
    # prefer walks with a committed transaction that inserts many rows
    def weight(h):
        best, cur, intx = 0, 0, False
        for st in h:
            k = st["op"]["k"]
            if k == "begin":
                intx, cur = True, 0
            elif k == "commit" and intx:
                best, intx = max(best, cur), False
            elif k == "rollback":
                intx = False
            elif intx and k == "insert_run":
                cur += st["op"]["len"]
        return best
    hists.sort(key=weight, reverse=True)
    hists = hists[:walks]
    cases = []
    for i, h in enumerate(hists):
        cases.append({"id": i, "setup": [{"k": "exec", "sql": s} for s in W.SETUP], "after_reopen": WAL_FULL, "work": wide_work_ops(h),
                      "verify": [q for _, q in WIDE_OBS], "models": ["kill", "power"], "stride": stride, "max_snaps": 600,
                      "always": ["op_end", "fsync", "msync", "ftruncate", "truncated", "wal.frame_written"]})
    inp, outp = vlib.scratch() + "/wide_crash_in.ndjson", vlib.scratch() + "/wide_crash_out.ndjson"
    vlib.write_ndjson(inp, cases)
    vlib.run_vh(["crash-run", "--in", inp, "--out", outp, "--jobs", vlib.NCPU], timeout=3000)
    outs = {r["id"]: r for r in vlib.read_ndjson(outp)}
    tot = {"snapshots": 0, "consistent": 0, "abandoned_after_divergence": 0}
    sigs = {}
    biggest = 0
    for i, h in enumerate(hists):
        jh = wide_hist_for_judge(h)
        biggest = max(biggest, weight(h))
        verdicts, st = judge_case(jh, outs[i], obs_list=WIDE_OBS, expected_fn=wide_expected, view_class=WIDE_VIEW_CLASS,
                                  dml=("insert_run", "delete_range", "delete_eq", "update_range"), count_views=("wcount", "weq0", "weq3"))
        for k in tot:
            tot[k] += st.get(k, 0)
        for sig, ps in signatures(verdicts, prop, WIDE_VIEW_CLASS):
            sig = sig
            sigs[sig] = sigs.get(sig, 0) + 1
            p = ps[0]
            chk.classify(sig, {"workload": W.describe(h), "wide": True, "crash_point": p["n"], "event": p["event"], "during_statement": p["op_index"],
                               "model": p["model"], "problems": [{k: (q[k] if k != "detail" else json.dumps(q[k])[:400]) for k in ("what", "view", "detail")} for q in ps[:3]]})
    return {"workloads": len(hists), "largest_committed_transaction_rows": biggest, "signatures": sigs, **tot}

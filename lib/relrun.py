"""Shared driver for the checks decided with Relational.tla: generate behaviours with TLC, render, replay, compare."""
import json, os, random
import vlib, relational as R


def gen_cfg(max_ops=3, with_txn=False, with_reopen=True, configs=()):
    cfg = vlib.scratch() + "/GenRel_%d_%s_%s_%d.cfg" % (max_ops, with_txn, with_reopen, len(configs))
    base = open(os.path.join(vlib.SPEC, "Gen_Relational.cfg")).read()
    base = base.replace("MaxOps = 3", "MaxOps = %d" % max_ops)
    base = base.replace("WithTxn = FALSE", "WithTxn = %s" % ("TRUE" if with_txn else "FALSE"))
    base = base.replace("WithReopen = TRUE", "WithReopen = %s" % ("TRUE" if with_reopen else "FALSE"))
    base = base.replace("Configs = {}", "Configs = {%s}" % ", ".join('"%s"' % c for c in configs))
    open(cfg, "w").write(base)
    return cfg


_EMITTED = {}


def emit_cached(cfg):
    """one TLC run per generating configuration and process (several phases of a check look at the same exploration)"""
    key = open(cfg).read()
    if key not in _EMITTED:
        _EMITTED[key] = vlib.tlc_emit("MC_Relational.tla", cfg, timeout=2400)
    return _EMITTED[key]


def class_key(c):
    h = c["hist"]
    l = h[-1]
    op = l["op"]
    p = op.get("p") if isinstance(op.get("p"), dict) else {}
    return (op["k"], l["ok"], tuple(R.features(h)), op.get("c"), p.get("k"), p.get("c"), len(op.get("rows", [])))


def generate(chk, max_ops, with_txn, with_reopen, sample, simulate=None, focus=None, configs=()):
    """-> (cases, stats). focus: optional predicate on a behaviour to keep (before sampling)."""
    cfg = gen_cfg(max_ops, with_txn, with_reopen, configs)
    gen = emit_cached(cfg)
    cases = gen["emitted"]
    total = len(cases)
    if focus:
        cases = [c for c in cases if focus(c)]
    rng = random.Random(chk.seed)
    if sample and len(cases) > sample:
        cases = vlib.stratified_sample(cases, class_key, sample, rng)
    walks = []
    if simulate:
        # long random walks: TLC -simulate prints the same per-transition lines; keep the longest history of each walk
        if simulate.get("weighted"):
            # WSpec of MC_Relational.tla: same actions, control / durability steps repeated so that walks contain them
            scfg = vlib.scratch() + "/GenWorkload_%d_%s.cfg" % (simulate["depth"], with_txn)
            open(scfg, "w").write(open(os.path.join(vlib.SPEC, "Gen_Workload.cfg")).read().replace("MaxOps = 12", "MaxOps = %d" % simulate["depth"])
                                  .replace("WithTxn = TRUE", "WithTxn = %s" % ("TRUE" if with_txn else "FALSE"))
                                  .replace("WithReopen = TRUE", "WithReopen = %s" % ("TRUE" if with_reopen else "FALSE")))
        else:
            scfg = gen_cfg(simulate["depth"], with_txn, with_reopen, configs)
        sim = vlib.run_tlc("MC_Relational.tla", scfg, workers=1, timeout=600,
                           simulate="num=%d" % simulate["num"], seed=chk.seed, extra=["-depth", str(simulate["depth"])])
        em = vlib.parse_emitted(sim["out"])
        prev = None
        for e in em:
            if prev is not None and len(e["hist"]) <= len(prev["hist"]):
                walks.append(prev)
            prev = e
        if prev is not None:
            walks.append(prev)
    return cases, walks, {"generated": total, "tlc": gen["stats"], "kept": len(cases), "walks": len(walks)}


def replay(chk, cases, schema="pk", config_ops=None, reopen_ops=None, every_step=False, returning=False):
    """Runs the behaviours; returns list of (hist, divergences, step_index). With every_step, each prefix of a
    history is judged too (used for long walks)."""
    rend, meta = [], {}
    cid = 0
    for c in cases:
        hists = [c["hist"]]
        if every_step:
            hists = [c["hist"][:k] for k in range(1, len(c["hist"]) + 1)]
        for h in hists:
            case, marks, obs_at = R.render_case(cid, h, schema=schema, config_ops=config_ops, reopen_ops=reopen_ops, returning=returning)
            rend.append(case)
            meta[cid] = (h, marks, obs_at)
            cid += 1
    inp, outp = vlib.scratch() + "/rel_in.ndjson", vlib.scratch() + "/rel_out.ndjson"
    vlib.write_ndjson(inp, rend)
    vlib.run_vh(["sql-run", "--in", inp, "--out", outp, "--jobs", vlib.NCPU], timeout=3000)
    out = []
    for r in vlib.read_ndjson(outp):
        h, marks, obs_at = meta[r["id"]]
        out.append((h, R.compare_case(h, marks, obs_at, r, returning=returning)))
    return out


def short(hist):
    return [{"op": h["op"], "ok": h["ok"], "n": h["n"]} for h in hist]


def describe(hist):
    return "; ".join(R.op_sql(h["op"])[0].get("sql", h["op"]["k"]) for h in hist)


def judge(chk, results, relevant, signature):
    """relevant(div, hist) -> bool; signature(div, hist) -> str. Records violations / known findings and returns stats."""
    stats = {"behaviours": len(results), "conforming": 0, "abandoned_prefix_diverged": 0, "divergences": {}}
    nontrivial = set()
    for hist, divs in results:
        if any(d["kind"] in ("prefix_diverged", "prefix_missing", "fatal") for d in divs):
            stats["abandoned_prefix_diverged"] += 1
            continue
        nontrivial.add(json.dumps(short(hist), sort_keys=True))
        rel = [d for d in divs if relevant(d, hist)]
        if not rel:
            stats["conforming"] += 1
        for d in rel:
            sig = signature(d, hist)
            stats["divergences"][sig] = stats["divergences"].get(sig, 0) + 1
            chk.classify(sig, {"sql": describe(hist), "history": short(hist), "divergence": d, "hist": hist, "replay_args": getattr(chk, "replay_args", {})})
    stats["distinct_histories"] = len(nontrivial)
    return stats


def replay_file(chk, path, relevant, signature):
    """bin/check CNN --replay <file>: re-executes the stored behaviour on the current tree and judges its last step."""
    rep = json.load(open(path))["replay"]
    vlib.build_harness()
    a = rep.get("replay_args", {})
    if a.get("checkpoint_ops"):
        R.CHECKPOINT_OPS = a["checkpoint_ops"]
    res = replay(chk, [{"hist": rep["hist"]}], schema=a.get("schema", "pk"), config_ops=a.get("config_ops"), reopen_ops=a.get("reopen_ops"),
                 returning=bool(a.get("returning")))
    st = judge(chk, res, relevant, signature)
    print("replayed: %s" % rep["sql"])
    for hist, divs in res:
        for d in divs:
            print("  divergence: %s" % json.dumps(d)[:600])
    chk.cov = {"states": 1, "transitions": len(rep["hist"]), "traces_validated_against_impl": 1, "samples": [rep["sql"]], "replay_of": path}
    return chk.finish()


def focus_phase(chk, relevant, signature, cfg_name, max_ops, sample, schema="pk_idx_b", key=None):
    """An extra exploration from a dedicated generating config of MC_Relational.tla (e.g. Gen_TxnFocus.cfg): every
    explored transition (or a stratified sample) replayed and judged like the standard phase. -> stats"""
    cfg = vlib.scratch() + "/" + cfg_name.replace(".cfg", "_%d.cfg" % max_ops)
    open(cfg, "w").write(open(os.path.join(vlib.SPEC, cfg_name)).read().replace("MaxOps = 8", "MaxOps = %d" % max_ops))
    gen = vlib.tlc_emit("MC_Relational.tla", cfg, timeout=2400)
    cases = gen["emitted"]
    total = len(cases)
    rng = random.Random(chk.seed)
    if sample and len(cases) > sample:
        cases = vlib.stratified_sample(cases, key or (lambda c: tuple(h["op"]["k"] for h in c["hist"][2:])), sample, rng)
    chk.replay_args = {"schema": schema, "config_ops": None, "reopen_ops": None}
    res = replay(chk, cases, schema=schema)
    st = judge(chk, res, relevant, signature)
    return {"generated": total, "replayed": len(cases), "conforming": st["conforming"], "abandoned": st["abandoned_prefix_diverged"],
            "divergence_signatures": st["divergences"], "tlc": gen["stats"]}


def upsert_phase(chk, relevant, signature, schema="pk_idx_b", returning=False):
    """INSERT ... ON CONFLICT DO NOTHING / DO UPDATE (USpec of MC_Relational.tla, Gen_Upsert.cfg): every explored transition
    (thorough: one step deeper, sampled) replayed and judged like the standard phase"""
    thorough = chk.tier == "thorough"
    key = lambda c: (R.opname(c["hist"][-1]["op"]), c["hist"][-1]["ok"], c["hist"][-1]["n"], tuple(R.opname(h["op"]) for h in c["hist"][2:-1]), tuple(R.features(c["hist"])))
    return focus_phase(chk, relevant, signature, "Gen_Upsert.cfg", 6 if thorough else 5, 40000 if thorough else 4000, schema=schema, key=key)


def bad_phase(chk, relevant, signature, schema="pk_idx_b"):
    """statements that are wrong in themselves (BSpec of MC_Relational.tla, Gen_Bad.cfg)"""
    thorough = chk.tier == "thorough"
    key = lambda c: (R.opname(c["hist"][-1]["op"]), tuple(R.opname(h["op"]) for h in c["hist"][2:-1]), len(c["hist"][-1]["rows"]))
    return focus_phase(chk, relevant, signature, "Gen_Bad.cfg", 6 if thorough else 5, 30000 if thorough else 3000, schema=schema, key=key)


def returning_phase(chk, relevant, signature, max_ops=3, sample=2500, with_txn=False, schema="pk"):
    """C05: the same behaviours with the LAST statement issued as INSERT / UPDATE / DELETE ... RETURNING id, a, b; the
    returned rows must be the model's `ret` (inserted rows, new images, deleted rows) and everything else as before."""
    cfg = gen_cfg(max_ops, with_txn, True, ())
    gen = emit_cached(cfg)
    cases = [c for c in gen["emitted"] if c["hist"][-1]["op"]["k"] in ("insert", "update", "delete")]
    total = len(cases)
    rng = random.Random(chk.seed + 7)
    if sample and len(cases) > sample:
        cases = vlib.stratified_sample(cases, class_key, sample, rng)
    saved = getattr(chk, "replay_args", {})
    chk.replay_args = {"schema": schema, "config_ops": None, "reopen_ops": None, "returning": True}
    res = replay(chk, cases, schema=schema, returning=True)
    st = judge(chk, res, relevant, signature)
    chk.replay_args = saved
    nonempty = sum(1 for h, _ in res if h[-1]["ret"])
    if not nonempty:
        raise vlib.ToolError("no behaviour with a non-empty RETURNING set was replayed")
    return {"generated": total, "replayed": len(cases), "with_rows_to_return": nonempty, "conforming": st["conforming"],
            "abandoned": st["abandoned_prefix_diverged"], "divergence_signatures": st["divergences"]}


def standard(chk, relevant, signature, focus=None, with_txn=False, with_reopen=True, schema="pk", config_ops=None,
             reopen_ops=None, quick=(3, 3500), thorough=(4, 60000), walks_quick=(40, 25), walks_thorough=(600, 40), extra_assumptions=(),
             weighted_walks=False):
    """The common shape of a Relational.tla check: per-transition enumeration + random walks, replay, judge."""
    thorough_tier = chk.tier == "thorough"
    chk.replay_args = {"schema": schema, "config_ops": config_ops, "reopen_ops": reopen_ops, "checkpoint_ops": list(R.CHECKPOINT_OPS)}
    chk.assumptions += ["domain: id in 1..3, a in {NULL,1,2}, b in {NULL,0,1,5}; table t(id INT PRIMARY KEY, a INT UNIQUE, b INT NOT NULL CHECK (b < 3))",
                        "each behaviour judges its LAST step; the prefix must follow the model (otherwise the behaviour is abandoned and counted)",
                        "SQL renderer and result normaliser in lib/relational.py are trusted"] + list(extra_assumptions)
    vlib.build_harness(); chk.mark("build")
    max_ops, sample = thorough if thorough_tier else quick
    wn, wd = walks_thorough if thorough_tier else walks_quick
    cases, walks, gstats = generate(chk, max_ops, with_txn, with_reopen, sample, simulate={"num": wn, "depth": wd, "weighted": weighted_walks} if wn else None, focus=focus)
    chk.mark("tlc_gen")
    res = replay(chk, cases, schema=schema, config_ops=config_ops, reopen_ops=reopen_ops)
    wres = replay(chk, walks, schema=schema, config_ops=config_ops, reopen_ops=reopen_ops, every_step=True) if walks else []
    chk.mark("replay")
    st = judge(chk, res + wres, relevant, signature)
    if st["behaviours"] and st["abandoned_prefix_diverged"] > 0.5 * st["behaviours"]:
        raise vlib.ToolError("more than half of the behaviours were abandoned because their prefix diverged: the check lost its coverage")
    chk.cov = {
        "states": gstats["tlc"].get("distinct", 0), "transitions": gstats["tlc"].get("generated", 0),
        "traces_validated_against_impl": st["behaviours"],
        "behaviours_generated_by_tlc": gstats["generated"], "behaviours_replayed": len(cases), "random_walk_steps_replayed": len(wres),
        "distinct_histories": st["distinct_histories"], "conforming": st["conforming"], "abandoned_prefix_diverged": st["abandoned_prefix_diverged"],
        "divergence_signatures": st["divergences"], "max_ops": max_ops, "exhaustive": False,
        "samples": [describe(c["hist"]) for c in (cases[:: max(1, len(cases) // 3)][:3])],
    }
    return st

"""Common machinery for the TurDB model-based checks.

  * build_harness()        cargo build of /verif/harness against /repo's working tree (hooks on)
  * run_tlc()/tlc_emit()   run TLC on a spec/config, parse statistics, emitted behaviours, violations
  * Findings               known_findings.json lookup (never written at run time)
  * Evidence / finish()    evidence file + exit protocol (0 held, 1 VIOLATION, 2 tool error)
"""
import json, os, re, shutil, subprocess, sys, tempfile, time, hashlib, random

ROOT = os.path.dirname(os.path.dirname(os.path.abspath(__file__)))
SPEC = os.path.join(ROOT, "spec")
# VERIF_HARNESS_DIR lets a developer work on a private copy of the harness crate; registered commands never set it
HARNESS = os.environ.get("VERIF_HARNESS_DIR") or os.path.join(ROOT, "harness")
VH = os.path.join(HARNESS, "target", "release", "vharness")
# (overridable so that runs against a seeded change - bin/try_mutant - do not overwrite the registered evidence)
EVID = os.environ.get("VERIF_EVIDENCE_DIR") or os.path.join(ROOT, "evidence")
REPLAYS = os.environ.get("VERIF_REPLAY_DIR") or os.path.join(ROOT, "out", "replays")
NCPU = os.cpu_count() or 8


class ToolError(Exception):
    pass


def scratch_base():
    return "/dev/shm" if os.path.isdir("/dev/shm") and os.access("/dev/shm", os.W_OK) else tempfile.gettempdir()


_SCRATCH = None


def scratch():
    global _SCRATCH
    if _SCRATCH is None:
        _SCRATCH = tempfile.mkdtemp(prefix="turdb-verif.", dir=scratch_base())
    return _SCRATCH


def cleanup():
    global _SCRATCH
    if _SCRATCH and os.path.isdir(_SCRATCH):
        shutil.rmtree(_SCRATCH, ignore_errors=True)
    _SCRATCH = None


def sh(cmd, timeout=None, env=None, cwd=None, check=False):
    e = dict(os.environ)
    if env:
        e.update(env)
    p = subprocess.run(cmd, shell=isinstance(cmd, str), stdout=subprocess.PIPE, stderr=subprocess.STDOUT,
                       timeout=timeout, env=e, cwd=cwd, text=True, errors="replace")
    if check and p.returncode != 0:
        raise ToolError("command failed (%d): %s\n%s" % (p.returncode, cmd, p.stdout[-4000:]))
    return p.returncode, p.stdout


def build_harness():
    """Rebuild the harness (and TurDB with hooks on) from /repo's current working tree."""
    t0 = time.time()
    lock = os.path.join(HARNESS, ".build.lock")
    import fcntl
    with open(lock, "w") as lf:
        fcntl.flock(lf, fcntl.LOCK_EX)
        rc, out = sh(["cargo", "build", "--release", "--offline"], cwd=HARNESS, timeout=1800,
                     env={"CARGO_NET_OFFLINE": "true"})
    if rc != 0:
        # a tree that does not compile is a tool error, not a verdict
        raise ToolError("harness build failed:\n" + out[-6000:])
    return time.time() - t0


# ----------------------------------------------------------------------------- TLC
TLC_JAR = "/opt/veriftools/tla/tla2tools.jar"
CM_JAR = None


def _tlc_cmd():
    return ["tlc"]


def parse_tlc_stats(out):
    st = {}
    m = re.search(r"(\d+) states generated, (\d+) distinct states found, (\d+) states left", out)
    if m:
        st["generated"], st["distinct"], st["left"] = int(m.group(1)), int(m.group(2)), int(m.group(3))
    m = re.search(r"depth of the complete state graph search is (\d+)", out)
    if m:
        st["depth"] = int(m.group(1))
    return st


def parse_coverage(out):
    """action name -> (distinct, total) from `-coverage` output"""
    cov = {}
    for m in re.finditer(r"^<(\w+) line \d+, col \d+ to line \d+, col \d+ of module (\w+)>: (\d+):(\d+)", out, re.M):
        cov[m.group(1)] = (int(m.group(3)), int(m.group(4)))
    return cov


def run_tlc(module, cfg, workers=None, timeout=900, extra=None, env=None, metadir=None, simulate=None, seed=None,
            coverage=False, cwd=SPEC):
    """Run TLC; returns dict(rc,out,stats,coverage,violated,error)."""
    md = metadir or tempfile.mkdtemp(prefix="tlc.", dir=scratch())
    cmd = _tlc_cmd() + ["-metadir", md, "-cleanup", "-noGenerateSpecTE", "-workers", str(workers or min(NCPU, 16))]
    if coverage:
        cmd += ["-coverage", "1"]
    if simulate:
        cmd += ["-simulate", simulate]
    if seed is not None:
        cmd += ["-seed", str(seed)]
    if extra:
        cmd += extra
    cmd += ["-config", cfg, module]
    e = {"JAVA_TOOL_OPTIONS": "-Xss512m"}
    if env:
        e.update(env)
    try:
        rc, out = sh(cmd, timeout=timeout, env=e, cwd=cwd)
    except subprocess.TimeoutExpired:
        raise ToolError("TLC timed out after %ss: %s %s" % (timeout, module, cfg))
    finally:
        shutil.rmtree(md, ignore_errors=True)
    res = {"rc": rc, "out": out, "stats": parse_tlc_stats(out), "coverage": parse_coverage(out) if coverage else {},
           "violated": re.findall(r"Error: Invariant (\w+) is violated", out) + re.findall(r"Error: Action property (\w+) is violated", out)
           + (["<temporal>"] if "Temporal properties were violated" in out else []),
           "cmd": " ".join(cmd)}
    if rc != 0 and not res["violated"] and "Deadlock reached" not in out:
        if "Error:" in out or "error" in out.lower():
            res["error"] = out[-3000:]
    return res


def tlc_ok(res, what):
    if res.get("error") or (res["rc"] != 0 and not res["violated"]):
        raise ToolError("TLC failed on %s:\n%s" % (what, res["out"][-3000:]))
    if "generated" not in res["stats"] and "-simulate" not in res["cmd"]:
        raise ToolError("TLC produced no statistics on %s:\n%s" % (what, res["out"][-2000:]))


_T_RE = re.compile(r'^<<"T", "(.*)">>$')


def parse_emitted(out):
    """Lines printed by PrintT(<<"T", ToJson(x)>>) -> list of python values."""
    vals = []
    for line in out.splitlines():
        m = _T_RE.match(line)
        if not m:
            continue
        s = m.group(1)
        # undo TLA+ string escaping of the JSON text
        s = s.replace('\\\\', '\x00').replace('\\"', '"').replace('\x00', '\\')
        vals.append(json.loads(s))
    return vals


def tlc_emit(module, cfg, timeout=900, simulate=None, seed=None, extra=None, workers=8):
    """Run a generating config. PrintT lines are whole with several workers (println is synchronized);
    this is verified, and a torn line makes the run fall back to one worker."""
    for w in ([workers, 1] if workers != 1 else [1]):
        res = run_tlc(module, cfg, workers=w, timeout=timeout, simulate=simulate, seed=seed, extra=extra)
        if res.get("error") or (res["rc"] != 0 and not simulate):
            raise ToolError("TLC generation failed (%s %s):\n%s" % (module, cfg, res["out"][-3000:]))
        torn = [l for l in res["out"].splitlines() if '<<"T"' in l and not _T_RE.match(l)]
        if not torn:
            break
    else:
        raise ToolError("TLC emitted torn lines even with one worker")
    res["emitted"] = parse_emitted(res["out"])
    return res


def write_ndjson(path, vals):
    with open(path, "w") as f:
        for v in vals:
            f.write(json.dumps(v, separators=(",", ":")) + "\n")


def read_ndjson(path):
    out = []
    with open(path) as f:
        for line in f:
            line = line.strip()
            if line:
                out.append(json.loads(line))
    return out


def run_vh(args, timeout=1800, env=None):
    rc, out = sh([VH] + [str(a) for a in args], timeout=timeout, env=dict({"VERIF_SCRATCH": os.path.join(scratch(), "vh")}, **(env or {})))
    if rc != 0:
        raise ToolError("harness failed (%d): %s\n%s" % (rc, " ".join(map(str, args)), out[-3000:]))
    return out


# ----------------------------------------------------------------------------- findings
class Findings:
    def __init__(self, pid):
        self.pid = pid
        # known_findings.json plus one optional file per property under known_findings.d/ (same format);
        # all of them are committed by hand and never written by a registered command
        import glob
        paths = [os.path.join(ROOT, "known_findings.json")] + sorted(glob.glob(os.path.join(ROOT, "known_findings.d", "*.json")))
        self.open = {}
        self.fixed = []
        for path in paths:
            if not os.path.exists(path):
                continue
            data = json.load(open(path))
            for f in data.get("findings", []):
                if f["property"] == pid:
                    self.open[f["signature"]] = f
            self.fixed += [f for f in data.get("fixed", []) if f["property"] == pid]
        self.hit = {}

    def match(self, sig):
        """the listed signature that covers sig: exact, or a listed pattern with * wildcards (fnmatch)"""
        if sig in self.open:
            return sig
        import fnmatch
        for pat in self.open:
            if "*" in pat and fnmatch.fnmatchcase(sig, pat):
                return pat
        return None

    def known(self, sig):
        return self.match(sig) is not None

    def record(self, sig, example=None):
        sig = self.match(sig) or sig
        self.hit.setdefault(sig, {"count": 0, "example": example})
        self.hit[sig]["count"] += 1


# ----------------------------------------------------------------------------- evidence / exit protocol
class Check:
    def __init__(self, pid, level, tier, seed):
        self.pid, self.level, self.tier, self.seed = pid, level, tier, seed
        self.t0 = time.time()
        self.cov = {}
        self.assumptions = []
        self.violations = []   # (signature, replay dict)
        self.findings = Findings(pid)
        self.notes = []
        self.phases = {}
        self._tmark = time.time()
        self.stale = []        # conformance divergences that are not property violations

    def mark(self, name):
        now = time.time()
        self.phases[name] = round(self.phases.get(name, 0) + now - self._tmark, 2)
        self._tmark = now

    def violation(self, sig, replay):
        self.violations.append((sig, replay))

    def classify(self, sig, replay):
        """A divergence with signature sig: known finding or violation."""
        if self.findings.known(sig):
            self.findings.record(sig, replay)
        else:
            self.violation(sig, replay)

    def write_evidence(self):
        os.makedirs(EVID, exist_ok=True)
        ev = {"property_id": self.pid, "tier": self.tier, "seed": int(self.seed), "level": self.level,
              "coverage": self.cov, "assumptions": self.assumptions, "wall_s": round(time.time() - self.t0, 2),
              "violations": len({s for s, _ in self.violations}),
              "known_findings_hit": {k: v["count"] for k, v in self.findings.hit.items()},
              "notes": self.notes, "phase_s": self.phases}
        with open(os.path.join(EVID, self.pid + ".json"), "w") as f:
            json.dump(ev, f, indent=1, default=str)

    def finish(self):
        self.write_evidence()
        for sig, info in sorted(self.findings.hit.items()):
            f = self.findings.open[sig]
            print("KNOWN-FINDING: property=%s %s [%s] (%d cases this run)" % (self.pid, f.get("what", sig), sig, info["count"]))
        seen = set()
        rc = 0
        for sig, replay in self.violations:
            if sig in seen:
                continue
            seen.add(sig)
            d = os.path.join(REPLAYS, self.pid)
            os.makedirs(d, exist_ok=True)
            name = hashlib.sha1(sig.encode()).hexdigest()[:12] + ".json"
            path = os.path.join(d, name)
            with open(path, "w") as f:
                json.dump({"property": self.pid, "signature": sig, "replay": replay}, f, indent=1, default=str)
            print("VIOLATION property=%s replay=%s" % (self.pid, path))
            print("  signature: %s" % sig)
            rc = 1
        if rc == 0 and self.stale:
            # the code no longer follows the model but no property-level failure was observed:
            # the verdict is unknown, which is a tool error and never an alarm
            for m in self.stale[:5]:
                print("CONFORMANCE-DIVERGENCE property=%s %s" % (self.pid, m))
            print("TOOL-ERROR property=%s: implementation diverges from the specification without an observed property violation; the model must be brought up to date" % self.pid)
            cleanup()
            return 2
        if rc == 0:
            print("OK property=%s tier=%s wall=%.1fs %s" % (self.pid, self.tier, time.time() - self.t0,
                                                          json.dumps({k: v for k, v in self.cov.items() if isinstance(v, (int, bool))})))
        cleanup()
        return rc


def stratified_sample(items, key, n, rng):
    """At most n items, spread over the classes given by key()."""
    if len(items) <= n:
        return list(items)
    groups = {}
    for it in items:
        groups.setdefault(key(it), []).append(it)
    for g in groups.values():
        rng.shuffle(g)
    out = []
    ks = sorted(groups.keys(), key=str)
    i = 0
    while len(out) < n:
        progressed = False
        for k in ks:
            g = groups[k]
            if i < len(g):
                out.append(g[i])
                progressed = True
                if len(out) >= n:
                    break
        if not progressed:
            break
        i += 1
    return out

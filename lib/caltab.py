"""Calendar plumbing shared by C41 and C20: the per-month table emitted by TLC from spec/Calendar.tla (cached under
out/cache keyed by a hash of the spec), its linear expansion to single dates, and the batched runner on TurDB
(harness binary `calrun`, which also renders DATE/TIME/TIMESTAMP values with TurDB's own text renderer).

Nothing here computes calendar facts: day numbers, month lengths, weekdays, day-of-year and the canonical "yyyy-mm"
text come from TLC; python only adds (d-1) to the values of the 1st of the month and zero-pads the day."""
import hashlib, json, os, random, re, subprocess, time
import vlib

CACHE = os.path.join(vlib.ROOT, "out", "cache")
SPEC_FILES = ["Calendar.tla", "MC_Calendar.tla", "Gen_Calendar.cfg"]
N_MONTHS = 9999 * 12
N_DATES = 3652059
CALRUN = os.path.join(vlib.HARNESS, "target", "release", "calrun")
ROWS_PER_DB = 400          # measured optimum: multi-row INSERT cost grows faster than linearly (160 k dates: 1.5 s at 400/db, 9 s at 2000/db)
DEFAULTS_PER_TABLE = 400   # columns with a DEFAULT per CREATE TABLE (measured: 250-500 is the optimum, 1000 is 1.7x slower per date)


def spec_hash():
    h = hashlib.sha256()
    for f in SPEC_FILES:
        h.update(open(os.path.join(vlib.SPEC, f), "rb").read())
    return h.hexdigest()[:20]


def _cache_paths():
    base = os.path.join(CACHE, "calendar-%s" % spec_hash())
    return base + ".ndjson", base + ".sha256"


def _file_sha(path):
    h = hashlib.sha256()
    with open(path, "rb") as f:
        for blk in iter(lambda: f.read(1 << 20), b""):
            h.update(blk)
    return h.hexdigest()


def _gen(years_cfg, timeout, workers=8):
    """run MC_Calendar with `CONSTANTS Years ...` given by years_cfg; returns (months, invalid, stats)"""
    cfg = os.path.join(vlib.scratch(), "Gen_Calendar_%d.cfg" % random.getrandbits(30))
    base = open(os.path.join(vlib.SPEC, "Gen_Calendar.cfg")).read()
    if years_cfg:
        base = base.replace("Years <- AllYears", "Years = {%s}" % ", ".join(str(y) for y in years_cfg))
        assert "AllYears" not in base
    open(cfg, "w").write(base)
    res = vlib.tlc_emit("MC_Calendar.tla", cfg, timeout=timeout, workers=workers)
    if res["violated"]:
        raise vlib.ToolError("Calendar.tla meta-invariant violated (oracle bug): %s\n%s" % (res["violated"], res["out"][-1500:]))
    months = [e for e in res["emitted"] if e.get("k") == "month"]
    invalid = [e for e in res["emitted"] if e.get("k") == "invalid"]
    return months, invalid, res["stats"]


def _check_table(months, full):
    months.sort(key=lambda e: (e["y"], e["m"]))
    if full and len(months) != N_MONTHS:
        raise vlib.ToolError("calendar table has %d months, expected %d" % (len(months), N_MONTHS))
    if full:
        # the cache may be torn or stale: contiguity and totals are re-checked on load (they are TLC invariants too)
        tot = 0
        for i, e in enumerate(months):
            if i and (months[i - 1]["first"] + months[i - 1]["len"] != e["first"]):
                raise vlib.ToolError("calendar table not contiguous at %s" % e["ym"])
            tot += e["len"]
        if tot != N_DATES or months[0]["first"] != -719162:
            raise vlib.ToolError("calendar table covers %d dates from %d" % (tot, months[0]["first"]))


def load_table(chk, regenerate, sample_years=30):
    """-> dict(months=[..119988 rows..], invalid={year: [[y,m,d]..]}, info={...}).  thorough: regenerate with TLC
    (all invariants over all 3 652 059 dates); quick: cached table (hash-checked) + TLC on a seeded sample of years
    whose rows must equal the cached ones."""
    os.makedirs(CACHE, exist_ok=True)
    path, side = _cache_paths()
    info = {"spec_hash": spec_hash(), "cache": os.path.relpath(path, vlib.ROOT)}
    have = os.path.exists(path) and os.path.exists(side)
    if have and open(side).read().strip() != _file_sha(path):
        have = False
        info["cache_rejected"] = "content hash mismatch"
    if regenerate or not have:
        t0 = time.time()
        months, invalid, stats = _gen(None, timeout=1500)
        _check_table(months, True)
        tmp = path + ".tmp%d" % os.getpid()
        vlib.write_ndjson(tmp, months + invalid)
        os.replace(tmp, path)
        open(side, "w").write(_file_sha(path) + "\n")
        info.update(generated=True, tlc_states=stats.get("distinct"), tlc_s=round(time.time() - t0, 1))
    else:
        rows = vlib.read_ndjson(path)
        months = [e for e in rows if e["k"] == "month"]
        invalid = [e for e in rows if e["k"] == "invalid"]
        _check_table(months, True)
        # bind the cache to the spec: a seeded sample of years is recomputed by TLC and must agree row by row
        rng = random.Random(chk.seed * 7919 + 41)
        ys = sorted(set([1, 4, 100, 400, 1582, 1900, 1970, 2000, 2024, 9999] + [rng.randrange(1, 10000) for _ in range(sample_years)]))
        t0 = time.time()
        sm, si, stats = _gen(ys, timeout=600, workers=4)
        bykey = {(e["y"], e["m"]): e for e in months}
        for e in sm:
            if bykey.get((e["y"], e["m"])) != e:
                raise vlib.ToolError("cached calendar table disagrees with TLC for %s: %s vs %s" % (e["ym"], bykey.get((e["y"], e["m"])), e))
        invy = {e["y"]: e for e in invalid}
        for e in si:
            if sorted(invy[e["y"]]["bad"]) != sorted(e["bad"]):
                raise vlib.ToolError("cached invalid-date table disagrees with TLC for year %d" % e["y"])
        if len(sm) != 12 * len(ys):
            raise vlib.ToolError("sample run emitted %d months for %d years" % (len(sm), len(ys)))
        info.update(generated=False, sample_years_rechecked=len(ys), tlc_s=round(time.time() - t0, 1), table_sha256=_file_sha(path)[:16])
    return {"months": months, "invalid": {e["y"]: e["bad"] for e in invalid}, "info": info}


def load_times(chk):
    """TIME / TIMESTAMP expectations from Gen_CalendarTime.cfg (cheap: always regenerated)"""
    res = vlib.tlc_emit("MC_Calendar.tla", os.path.join(vlib.SPEC, "Gen_CalendarTime.cfg"), timeout=600, workers=4)
    if res["violated"]:
        raise vlib.ToolError("Calendar.tla time invariant violated: %s" % res["violated"])
    em = res["emitted"]
    minutes = sorted([e for e in em if e["k"] == "minute"], key=lambda e: e["sec0"])
    if len(minutes) != 1440 or [e["sec0"] for e in minutes] != list(range(0, 86400, 60)):
        raise vlib.ToolError("time table incomplete: %d minutes" % len(minutes))
    tb = [e for e in em if e["k"] == "tbound"]
    ts = [e for e in em if e["k"] == "ts"]
    if len(tb) != 1 or not ts:
        raise vlib.ToolError("time boundary / timestamp lines missing")
    return {"minutes": minutes, "bound": tb[0], "ts": ts, "stats": res["stats"]}


# ----------------------------------------------------------------------------- expansion
class D(object):
    """one calendar date, derived linearly from its month row"""
    __slots__ = ("y", "m", "d", "days", "dow", "doy", "q", "len", "text")

    def __init__(self, mo, d):
        self.y, self.m, self.d = mo["y"], mo["m"], d
        self.days = mo["first"] + d - 1
        self.dow = (mo["dow"] + d - 1) % 7
        self.doy = mo["doy"] + d - 1
        self.q, self.len = mo["q"], mo["len"]
        self.text = "%s-%02d" % (mo["ym"], d)

    def feats(self):
        f = ["before_1970" if self.days < 0 else "from_1970"]
        if self.m == 2 and self.d == 29:
            f.append("feb29")
        return "+".join(f)


def expand(months):
    for mo in months:
        for d in range(1, mo["len"] + 1):
            yield D(mo, d)


def quick_subset(months, seed):
    """every month boundary (first and last day of every month), every Feb 28/29, every day of the century years,
    of the years around the epoch / the Gregorian reform, and of a seeded sample of years"""
    rng = random.Random(seed * 104729 + 7)
    full_years = set(range(100, 10000, 100)) | {1, 2, 3, 4, 1582, 1583, 1899, 1900, 1901, 1968, 1969, 1970, 1971, 1972, 1999, 2000, 2001, 2024, 2038, 9996, 9997, 9998, 9999}
    full_years |= {rng.randrange(1, 10000) for _ in range(20)}
    out = []
    for mo in months:
        if mo["y"] in full_years:
            out.extend(D(mo, d) for d in range(1, mo["len"] + 1))
        else:
            ds = {1, mo["len"]}
            if mo["m"] == 2:
                ds |= {28}
            out.extend(D(mo, d) for d in sorted(ds))
    return out, len(full_years)


# ----------------------------------------------------------------------------- runner
def run_cases(cases, jobs=None, timeout=3000):
    """cases: list of {"id","ops"} -> {id: res list}.  Uses the calrun binary (rows + TurDB-rendered text)."""
    if not os.path.exists(CALRUN):
        raise vlib.ToolError("harness binary %s missing (cargo build did not produce it)" % CALRUN)
    tag = "%d_%d" % (os.getpid(), random.getrandbits(30))
    inp, outp = os.path.join(vlib.scratch(), "cal_in_%s.ndjson" % tag), os.path.join(vlib.scratch(), "cal_out_%s.ndjson" % tag)
    vlib.write_ndjson(inp, cases)
    rc, out = vlib.sh([CALRUN, "--in", inp, "--out", outp, "--jobs", str(jobs or min(vlib.NCPU, 12))], timeout=timeout,
                      env={"VERIF_SCRATCH": os.path.join(vlib.scratch(), "vh_%s" % tag)})
    if rc != 0:
        raise vlib.ToolError("calrun failed (%d): %s" % (rc, out[-2000:]))
    res = {}
    with open(outp) as f:
        for line in f:
            r = json.loads(line)
            res[r["id"]] = r["res"]
    os.unlink(inp)
    os.unlink(outp)
    for c in cases:
        r = res.get(c["id"])
        if r is None or (r and "fatal" in r[0]):
            raise vlib.ToolError("calrun: case %s did not run: %s" % (c["id"], r))
    return res


def chunks(lst, n):
    for i in range(0, len(lst), n):
        yield lst[i:i + n]


DATE_COLS = [  # (name, SQL over the TEXT column s / DATE column d)
    ("stored", "d"), ("cast", "CAST(s AS DATE)"), ("datediff", "DATEDIFF(s, '1970-01-01')"),
    ("to_days", "TO_DAYS(s) - TO_DAYS('1970-01-01')"), ("from_days", "FROM_DAYS(TO_DAYS(s))"),
    ("date_add", "DATE_ADD(s, 1)"), ("date_sub", "DATE_SUB(s, 1)"), ("add_back", "DATE_SUB(DATE_ADD(s, 400), 400)"),
    ("year", "YEAR(s)"), ("month", "MONTH(s)"), ("day", "DAY(s)"), ("dayofweek", "DAYOFWEEK(s)"), ("dayofyear", "DAYOFYEAR(s)"),
    ("quarter", "QUARTER(s)"), ("last_day", "LAST_DAY(s)"), ("weekday", "WEEKDAY(s)"), ("year_d", "YEAR(d)"), ("dayofweek_d", "DAYOFWEEK(d)")]


def date_table_case(cid, dates, cols):
    """one fresh database: the dates as DATE literals (column d) and as TEXT (column s), one SELECT computing cols"""
    vals = ",".join("(%d,'%s','%s')" % (i, x.text, x.text) for i, x in enumerate(dates))
    sel = ", ".join(sql for _, sql in cols)
    return {"id": cid, "ops": [{"k": "exec", "sql": "CREATE TABLE t (id INT, d DATE, s TEXT)"},
                               {"k": "exec", "sql": "INSERT INTO t VALUES " + vals},
                               {"k": "query", "sql": "SELECT id, %s FROM t" % sel}]}


def default_case(cid, texts, typ="DATE"):
    cols = ", ".join("c%d %s DEFAULT '%s'" % (i, typ, t) for i, t in enumerate(texts))
    return {"id": cid, "ops": [{"k": "exec", "sql": "CREATE TABLE u (id INT, %s)" % cols},
                               {"k": "exec", "sql": "INSERT INTO u (id) VALUES (1)"},
                               {"k": "query", "sql": "SELECT * FROM u"}]}


def micros(v):
    """harness value -> integer microseconds / days, or None"""
    if isinstance(v, dict):
        for k in ("date", "time", "ts"):
            if k in v:
                return v[k]
        if "t" in v:
            m = re.search(r"TimestampTz\((-?\d+), *(-?\d+)\)", v["t"]) or re.search(r"micros: (-?\d+)", v["t"])
            if m:
                return int(m.group(1))
    if isinstance(v, int) and not isinstance(v, bool):
        return v
    return None

"""Renderer for the named value points of spec/Values.tla (C11) and spec/Params.tla (C13).

The specifications talk about NAMED POINTS ([tag, cls], plus the arithmetic meaning TLC computes: byte length, day
number, time of day, vector dimension). This module maps a point to the three concrete forms the harness needs:

  lit(point)     SQL literal text
  param(point)   the JSON encoding of the bound OwnedValue (harness/src/sqlrun.rs json_to_val)
  same(point, observed_json)   the spec's per-type equality Eq against a value printed by val_to_json:
                 type tag included, floats by bits (NaN == NaN), JSON as documents, vectors by f32 bits

and describes an observed value relative to the expected one (`describe`) for signatures. No expected ANSWER is
computed here: the expected point comes out of TLC; this file only says what the point's name denotes.
"""
import json, math, struct

I = {"i_zero": 0, "i_one": 1, "i_neg1": -1, "i16_max": 32767, "i16_min": -32768, "i16_max_p1": 32768, "i16_min_m1": -32769,
     "i32_max": 2 ** 31 - 1, "i32_min": -2 ** 31, "i32_max_p1": 2 ** 31, "i32_min_m1": -2 ** 31 - 1,
     "i64_max": 2 ** 63 - 1, "i64_max_m1": 2 ** 63 - 2, "i64_min": -2 ** 63, "i64_min_p1": -2 ** 63 + 1,
     "n_minus7": -7, "n_42": 42, "i_five": 5, "i_seven": 7, "i_two": 2, "i_three": 3}
F = {"f_zero": 0.0, "f_negzero": -0.0, "f_one_half": 1.5, "f_neg_one_half": -1.5, "f_five": 5.0, "f_tenth": 0.1,
     "f_sum": 0.30000000000000004, "f_nan": float("nan"), "f_inf": float("inf"), "f_ninf": float("-inf"),
     "f_min_sub": 5e-324, "f_min_norm": 2.2250738585072014e-308, "f_max": 1.7976931348623157e308,
     "f_neg_max": -1.7976931348623157e308, "f_1e22": 1e22, "f_2p53_p2": 9007199254740994.0, "f_money": 123.45,
     "f_1e_7": 1e-7, "f_two_half": 2.5}
DEC19 = ("1234567890123456789", 9)          # 1234567890.123456789 : digits, scale
T = {"t_empty": "", "t_1b": "a", "t_quote": "it's \"q\" '' x", "t_backslash": "a\\b\\n\\' \\\\", "t_nul": "a\x00b",
     "t_4byte": "\U0001F600", "t_unicode": "é ñ 日本語 עברית é \U0001F468‍\U0001F469",
     "t_sqlish": "1); DROP TABLE t; --", "t_numeric": "123", "t_newline": "l1\nl2\r\n\tx",
     "vc_quote": "it's \"q\"''", "vc_max_ascii": "abcdefghij", "vc_max_4byte": "\U0001F600" * 10, "ch_full": "abcde", "ch_full_4byte": "\U0001F600" * 5,
     "n_left": "left"}
B = {"b_empty": b"", "b_zero": b"\x00", "b_ff": b"\xff", "b_bin": bytes([0, 255, 16, 128, 127]), "b_utf8": b"abc",
     # 17 bytes with the TOAST marker in front: total_size 5, chunk id 1
     "b_fe17": b"\xfe" + struct.pack("<Q", 5) + struct.pack("<Q", 1), "b_fe16": b"\xfe" + bytes(range(1, 16)),
     "b_fe18": b"\xfe" + bytes(range(1, 18))}
U = {"u_nil": "00" * 16, "u_max": "ff" * 16, "u_v4": "550e8400e29b41d4a716446655440000", "u_upper": "a0eebc999c0b4ef8bb6d6bb9bd380a11",
     "u_fe": "fe0000000000000005000000000000ff"}
J = {"j_null": None, "j_true": True, "j_int": 42, "j_frac": 0.1, "j_exp": 1.5e300, "j_neg": -7.25, "j_str": "hello",
     "j_str_empty": "", "j_str_unicode": "é日\U0001F600", "j_str_escapes": "q\"b\\s/n\nt\tr\r",
     "j_str_quote": "it's", "j_empty_obj": {}, "j_empty_arr": [], "j_arr": [1, "two", None, True, 2.5, [], {}],
     "j_obj": {"a": 1, "b": "x", "c": None, "d": False}, "j_nested": {"a": {"b": {"c": {"d": [1, [2, [3, {"e": "deep"}]]]}}}},
     "j_keys_unsorted": {"zeta": 1, "alpha": 2, "Mid": 3, "": 4, "a": 5, "aa": 6},
     "j_str_64k": {"k": "x" * 70000}, "j_2k": {"key%03d" % i: i for i in range(150)},
     "j_20k": [{"i": i, "s": "item-%d" % i} for i in range(700)]}


# text atoms of spec/Params.tla (TextSeq lists them in ascending byte order; checks/c13.py verifies that)
P = {"p_empty": "", "p_dollar1": "$1", "p_quote2": "''", "p_dashes": "--x", "p_comment": "/*x*/", "p_sqlish": "1); DROP TABLE t; --",
     "p_colon_a": ":a", "p_qmark": "?", "p_null_word": "NULL", "p_backslash": "\\", "p_a": "a", "p_semicolon": "a;b", "p_its": "it's",
     "p_newline": "l1\nl2", "p_or_1_1": "x' OR '1'='1", "p_z": "z"}
T.update(P)
B["b_quote"] = b"'"
# the three dates Params.tla stores: day numbers as checked by the ASSUMEs of Values.tla (DaysFromCivil)
D = {"d_leap": {"y": 2024, "m": 2, "d": 29, "days": 19782}, "d_epoch": {"y": 1970, "m": 1, "d": 1, "days": 0},
     "d_pre_epoch": {"y": 1969, "m": 12, "d": 31, "days": -1}}


def _sized_text(n):
    unit = "0123456789abcdefghijklmnopqrstuvwxyz-"
    s = (unit * (n // len(unit) + 1))[:n]
    return s


def _sized_bad(n):
    unit = bytes([0xff, 0x00, 0xfe, 0x80, 0x41, 0xc3, 0x28, 0x7f, 0xf0, 0x9f])
    return (unit * (n // len(unit) + 1))[:n]


def _f32(x):
    return struct.unpack("<f", struct.pack("<f", x))[0]


def _vec(cls, dim):
    if cls == "v_zero":
        return [0.0] * dim
    if cls == "v_ramp":
        return [_f32(0.5 * i - 1.0) for i in range(dim)]
    if cls == "v_neg_frac":
        return [_f32(-0.1 * (i + 1)) for i in range(dim)]
    ext = [3.4028234663852886e38, -3.4028234663852886e38, 1.401298464324817e-45, 1.1754943508222875e-38, -0.0, 16777216.0, 16777217.0, 0.1]
    return [_f32(ext[i % len(ext)]) for i in range(dim)]


def micros_of(detail):
    return detail["secs"] * 1000000 + detail["us"]


def concrete(point, detail):
    """point {tag, cls} -> python value in a canonical form per tag."""
    tag, cls = point["tag"], point["cls"]
    if tag == "null":
        return None
    if tag == "int":
        return I[cls]
    if tag == "float":
        return DEC19 if cls == "f_dec19" else F[cls]
    if tag == "text":
        if cls in T:
            return T[cls]
        if cls == "t_mb_chunk":
            s = _sized_text(detail["split"]) + "\U0001F600" + _sized_text(detail["len"] - detail["split"] - 4)
            assert len(s.encode()) == detail["len"]
            return s
        return _sized_text(detail["len"])
    if tag == "blob":
        if cls in B:
            return B[cls]
        return _sized_text(detail["len"]).encode() if cls.startswith("bu_") else _sized_bad(detail["len"])
    if tag == "bool":
        return cls == "true"
    if tag == "date":
        return detail["days"]
    if tag == "time":
        return micros_of(detail)
    if tag == "ts":
        return detail["date"]["days"] * 86400 * 1000000 + micros_of(detail["time"])
    if tag == "uuid":
        return U[cls]
    if tag == "json":
        return J[cls]
    if tag == "vec":
        return _vec(cls, detail["dim"])
    raise KeyError(tag)


def _flit(f):
    if math.isnan(f):
        return "'NaN'"          # the spelling prepared.rs itself generates (PostgreSQL: 'NaN'::float8)
    if math.isinf(f):
        return "'Infinity'" if f > 0 else "'-Infinity'"
    r = repr(f)
    if "e" not in r and "." not in r:
        r += ".0"
    return r.replace("e+", "e")


def _time_text(d):
    s = "%02d:%02d:%02d" % (d["h"], d["mi"], d["s"])
    if d["us"]:
        frac = "%06d" % d["us"]
        s += "." + (frac.rstrip("0") if d["us"] % 1000 == 0 else frac)
    return s


def _date_text(d):
    return "%04d-%02d-%02d" % (d["y"], d["m"], d["d"])


def sqlstr(s):
    return "'" + s.replace("'", "''") + "'"


def lit(point, detail, form="native"):
    tag, cls = point["tag"], point["cls"]
    v = concrete(point, detail)
    if tag == "null":
        return "NULL"
    if tag == "int":
        return str(v)
    if tag == "float":
        if cls == "f_dec19":
            return DEC19[0][:-DEC19[1]] + "." + DEC19[0][-DEC19[1]:]
        if form == "int":
            return str(int(v))
        return _flit(v)
    if tag == "text":
        return sqlstr(v)
    if tag == "blob":
        return "X'" + v.hex() + "'"
    if tag == "bool":
        return "TRUE" if v else "FALSE"
    if tag == "date":
        return "'" + _date_text(detail) + "'"
    if tag == "time":
        return "'" + _time_text(detail) + "'"
    if tag == "ts":
        return "'" + _date_text(detail["date"]) + " " + _time_text(detail["time"]) + "'"
    if tag == "uuid":
        h = v.upper() if cls == "u_upper" else v
        return "'%s-%s-%s-%s-%s'" % (h[0:8], h[8:12], h[12:16], h[16:20], h[20:32])
    if tag == "json":
        return sqlstr(json.dumps(v, ensure_ascii=False))
    if tag == "vec":
        return "'[" + ", ".join(_f32lit(x) for x in v) + "]'"
    raise KeyError(tag)


def _f32lit(x):
    if x == 0 and math.copysign(1, x) < 0:
        return "-0.0"
    return "%.9g" % x


def param(point, detail, form="native"):
    tag, cls = point["tag"], point["cls"]
    v = concrete(point, detail)
    if tag == "null":
        return None
    if tag == "int":
        return v
    if tag == "float":
        if cls == "f_dec19":
            return {"dec": [DEC19[0], DEC19[1]]}
        if form == "int":
            return int(v)
        return {"f": "NaN" if math.isnan(v) else ("inf" if v == math.inf else "-inf" if v == -math.inf else repr(v))}
    if tag == "text":
        return v
    if tag == "blob":
        return {"b": v.hex()}
    if tag == "bool":
        return {"bool": v}
    if tag in ("date", "time", "ts", "uuid"):
        return {tag: v}
    if tag == "json":
        return {"json": v}
    if tag == "vec":
        return {"vec": [("-0.0" if (x == 0 and math.copysign(1, x) < 0) else x) for x in v]}
    raise KeyError(tag)


# ------------------------------------------------------------------ observation side
def obs_tag(o):
    if o is None:
        return "null"
    if isinstance(o, bool):
        return "jsonbool"
    if isinstance(o, int):
        return "int"
    if isinstance(o, str):
        return "text"
    if isinstance(o, dict):
        for k, t in (("f", "float"), ("b", "blob"), ("bool", "bool"), ("date", "date"), ("time", "time"), ("ts", "ts"), ("uuid", "uuid"),
                     ("jsonb", "json"), ("vec", "vec"), ("dec", "decimal"), ("t", "other")):
            if k in o:
                return t
    return "other"


def _fbits(f):
    return struct.unpack("<Q", struct.pack("<d", f))[0]


def _f32bits(f):
    return struct.unpack("<I", struct.pack("<f", f))[0]


def _json_eq(a, b):
    if isinstance(a, bool) or isinstance(b, bool) or a is None or b is None:
        return type(a) == type(b) and a == b
    if isinstance(a, (int, float)) and isinstance(b, (int, float)):
        return float(a) == float(b)
    if isinstance(a, str) and isinstance(b, str):
        return a == b
    if isinstance(a, list) and isinstance(b, list):
        return len(a) == len(b) and all(_json_eq(x, y) for x, y in zip(a, b))
    if isinstance(a, dict) and isinstance(b, dict):
        return a.keys() == b.keys() and all(_json_eq(a[k], b[k]) for k in a)
    return False


def same(point, detail, o, char_pad=None):
    """Eq of the spec between the expected point and an observed harness value."""
    tag = point["tag"]
    want = concrete(point, detail)
    if tag == "null":
        return o is None
    if obs_tag(o) != tag:
        return False
    if tag == "int":
        return o == want
    if tag == "float":
        if point["cls"] == "f_dec19":
            return False        # a float cannot be the 19-digit decimal (a {"dec":..} observation is compared below)
        try:
            got = float(o["f"])
        except ValueError:
            return False
        if math.isnan(want):
            return math.isnan(got)
        return _fbits(got) == _fbits(want)
    if tag == "text":
        if char_pad and o != want:
            return o == want + " " * (char_pad - len(want))      # CHAR(n): blank padding is not significant
        return o == want
    if tag == "blob":
        return o["b"] == want.hex()
    if tag == "bool":
        return o["bool"] is want
    if tag in ("date", "time", "ts", "uuid"):
        return o[tag] == want
    if tag == "json":
        if "json" not in o:
            return False
        try:
            return _json_eq(json.loads(o["json"]), want)
        except ValueError:
            return False
    if tag == "vec":
        try:
            got = [float(x) for x in o["vec"]]
        except ValueError:
            return False
        return len(got) == len(want) and all(_f32bits(a) == _f32bits(b) for a, b in zip(got, want))
    return False


def describe(point, detail, o, form="native"):
    """Name the way an observed value deviates from the expected point (the `observed class` of a signature)."""
    tag = point["tag"]
    want = concrete(point, detail)
    ot = obs_tag(o)
    if ot == "null":
        return "null"
    if tag == "null":
        return "not_null:" + ot
    if ot != tag:
        if tag == "blob" and ot == "text" and o.encode() == want:
            return "text:same_bytes"
        if tag == "text" and ot == "blob" and bytes.fromhex(o["b"]) == want.encode():
            return "blob:same_bytes"
        if tag == "json" and ot == "text":
            return "text"
        return "tag:" + ot
    if tag == "float":
        if point["cls"] == "f_dec19":
            return "float:nearest_double" if o["f"] == repr(float(DEC19[0]) / 10 ** DEC19[1]) else "float:other"
        try:
            got = float(o["f"])
        except ValueError:
            return "float:unparsable"
        if not math.isnan(want) and not math.isinf(want) and float(want).is_integer() and abs(want) < 2 ** 62 and _fbits(got) == (int(want) & (2 ** 64 - 1)):
            return "float:bits_of_the_integer"
        if got == want:
            return "float:sign_of_zero"
        return "float:other"
    if tag == "int":
        for bits in (16, 32):
            m = 2 ** bits
            if ((want + m // 2) % m) - m // 2 == o and o != want:
                return "int:wrapped_to_%d_bits" % bits
        return "int:other"
    if tag in ("text", "blob"):
        w = want.encode() if tag == "text" else want
        g = o.encode() if tag == "text" else bytes.fromhex(o["b"])
        if len(g) < len(w) and w.startswith(g):
            return tag + ":truncated"
        if len(g) == len(w):
            return tag + ":same_length_other_bytes"
        if tag == "text" and "�" in o:
            return "text:replacement_characters"
        return tag + ":other_length"
    if tag == "json":
        if "json_err" in o:
            return "json:undecodable"
        return "json:other_document"
    if tag == "vec":
        return "vec:other_dimension" if len(o["vec"]) != len(want) else "vec:other_elements"
    return tag + ":other"

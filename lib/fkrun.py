"""ForeignKey.tla replay (C09): two tables p / c with c.pid REFERENCES p(id) [ON DELETE act]; every explored transition is a
behaviour whose LAST step is judged: accepted iff the model accepts, affected rows, and both tables afterwards (the
effect of CASCADE / SET NULL, nothing after a refusal)."""
import json, os, random
import vlib

N = -99
CLAUSE = {"noaction": "", "restrict": " ON DELETE RESTRICT", "cascade": " ON DELETE CASCADE", "setnull": " ON DELETE SET NULL"}


def lit(v):
    return "NULL" if v == N else str(v)


def idlist(sel):
    return ", ".join(str(i) for i in sorted(sel))


def op_ops(op):
    k = op["k"]
    if k == "ins_p":
        return [{"k": "exec", "sql": "INSERT INTO p VALUES (%d, 0)" % op["i"]}]
    if k == "ins_c":
        return [{"k": "exec", "sql": "INSERT INTO c VALUES " + ", ".join("(%d, %s)" % (r[0], lit(r[1])) for r in op["rows"])}]
    if k == "del_p":
        return [{"k": "exec", "sql": "DELETE FROM p WHERE id IN (%s)" % idlist(op["sel"])} if len(op["sel"]) > 1 else {"k": "exec", "sql": "DELETE FROM p WHERE id = %s" % idlist(op["sel"])}]
    if k == "upd_p_key":
        return [{"k": "exec", "sql": "UPDATE p SET id = %d WHERE id = %d" % (op["j"], op["i"])}]
    if k == "upd_c_fk":
        where = " WHERE id = %s" % idlist(op["sel"]) if len(op["sel"]) == 1 else ""
        return [{"k": "exec", "sql": "UPDATE c SET pid = %s%s" % (lit(op["q"]), where)}]
    if k == "del_c":
        return [{"k": "exec", "sql": "DELETE FROM c WHERE id = %s" % idlist(op["sel"])}]
    if k == "reopen":
        return [{"k": "reopen"}]
    if k in ("begin", "commit", "rollback"):
        return [{"k": "exec", "sql": k.upper()}]
    raise ValueError(k)


def opname(op):
    k = op["k"]
    if k == "ins_c":
        return "ins_c" + ("_2rows" if len(op["rows"]) > 1 else "")
    if k in ("del_p", "upd_c_fk"):
        return k + ("_all" if len(op["sel"]) > 1 else "")
    return k


def describe(act, hist):
    return "[ON DELETE %s] " % act + "; ".join(o.get("sql", o["k"]) for st in hist for o in op_ops(st["op"]))


OBS = [("p", "SELECT id FROM p"), ("c", "SELECT id, pid FROM c"), ("np", "SELECT COUNT(*) FROM p"), ("nc", "SELECT COUNT(*) FROM c"),
       ("c_pid1", "SELECT id FROM c WHERE pid = 1"), ("c_pid2", "SELECT id FROM c WHERE pid = 2"), ("c_null", "SELECT id FROM c WHERE pid IS NULL"),
       ("p1", "SELECT id FROM p WHERE id = 1"), ("p2", "SELECT id FROM p WHERE id = 2")]


def expected(par, chi):
    ch = sorted([[x[0], None if x[1] == N else x[1]] for x in chi], key=json.dumps)
    return {"p": sorted([[i] for i in par]), "c": ch, "np": [[len(par)]], "nc": [[len(chi)]],
            "c_pid1": sorted([[x[0]] for x in chi if x[1] == 1]), "c_pid2": sorted([[x[0]] for x in chi if x[1] == 2]),
            "c_null": sorted([[x[0]] for x in chi if x[1] == N]), "p1": [[1]] if 1 in par else [], "p2": [[2]] if 2 in par else []}


def render(cid, act, hist):
    ops = [{"k": "exec", "sql": "CREATE TABLE p (id INT PRIMARY KEY, u INT)"},
           {"k": "exec", "sql": "CREATE TABLE c (id INT PRIMARY KEY, pid INT REFERENCES p(id)%s)" % CLAUSE[act]}]
    marks = []
    for i, st in enumerate(hist):
        at = len(ops)
        ops += op_ops(st["op"])
        scan = None
        if i + 1 < len(hist):
            scan = len(ops)
            ops += [{"k": "query", "sql": "SELECT id FROM p"}, {"k": "query", "sql": "SELECT id, pid FROM c"}]
        marks.append((at, scan))
    obs_at = len(ops)
    ops += [{"k": "query", "sql": q} for _, q in OBS]
    return {"id": cid, "ops": ops}, marks, obs_at


def norm(r):
    if r is None or "rows" not in r or r["rows"] is None:
        return None
    return sorted(r["rows"], key=json.dumps)


DML = ("ins_p", "ins_c", "del_p", "upd_p_key", "upd_c_fk", "del_c")


def compare(act, hist, marks, obs_at, res):
    """-> list of divergences of the LAST step; [{'kind': 'prefix'}] when the prefix did not follow the model"""
    rs = res["res"]
    for i, st in enumerate(hist[:-1]):
        r = rs[marks[i][0]] if marks[i][0] < len(rs) else None
        if r is None or "panic" in r or ("ok" in r) != st["ok"]:
            return [{"kind": "prefix", "at": i}]
        if st["ok"] and st["op"]["k"] in DML and r["ok"].get("n") != st["n"]:
            return [{"kind": "prefix", "at": i}]
        e = expected(st["par"], st["chi"])
        s = marks[i][1]
        if s is None or s + 1 >= len(rs) or norm(rs[s]) != e["p"] or norm(rs[s + 1]) != e["c"]:
            return [{"kind": "prefix", "at": i}]
    last = hist[-1]
    li = marks[-1][0]
    if li >= len(rs):
        return [{"kind": "prefix", "at": len(hist) - 1}]
    r = rs[li]
    if "panic" in r:
        return [{"kind": "panic", "detail": r["panic"][:200]}]
    out = []
    impl_ok = "ok" in r
    if impl_ok != last["ok"]:
        out.append({"kind": "accepts_invalid" if impl_ok else "rejects_valid", "detail": r.get("err", "")[:160]})
    elif impl_ok and last["op"]["k"] in DML and r["ok"].get("n") != last["n"]:
        out.append({"kind": "affected_count", "expected": last["n"], "observed": r["ok"].get("n")})
    obs = {}
    for j, (name, _) in enumerate(OBS):
        rr = rs[obs_at + j] if obs_at + j < len(rs) else None
        obs[name] = "missing" if rr is None else "panic" if "panic" in rr else ("err:" + rr["err"][:80]) if "err" in rr else norm(rr)
    pre = hist[-2] if len(hist) >= 2 else {"par": [], "chi": []}
    if impl_ok == last["ok"]:
        want, basis = expected(last["par"], last["chi"]), "model_post"
    elif not impl_ok:
        want, basis = expected(pre["par"], pre["chi"]), "pre_state_after_error"
    else:
        want, basis = None, "none"
    if want is not None:
        bad = {k: {"expected": want[k], "observed": obs[k]} for k, _ in OBS if obs[k] != want[k]}
        if bad:
            out.append({"kind": "state", "basis": basis, "queries": sorted(bad), "detail": bad})
    # whatever the model says: the tables TurDB shows must satisfy the declared reference (trace validation of ReferencesHold)
    if isinstance(obs["p"], list) and isinstance(obs["c"], list):
        ps = {x[0] for x in obs["p"]}
        dangling = [x for x in obs["c"] if x[1] is not None and x[1] not in ps]
        if dangling:
            out.append({"kind": "dangling_reference", "children": dangling, "parents": sorted(ps)})
    return out


def why(act, hist):
    """which rule of ForeignKey.tla refuses (or shapes) the last statement: signature material"""
    last = hist[-1]
    op = last["op"]
    pre = hist[-2] if len(hist) >= 2 else {"par": [], "chi": []}
    par, chi = set(pre["par"]), [tuple(x) for x in pre["chi"]]
    k = op["k"]
    if k == "ins_c":
        if any(r[1] != N and r[1] not in par for r in op["rows"]):
            return "no_such_parent"
        return "dup_key" if not last["ok"] else "-"
    if k == "del_p":
        return "referenced" if any(x[1] in set(op["sel"]) & par for x in chi) else "-"
    if k == "upd_p_key":
        return "referenced" if any(x[1] == op["i"] for x in chi) else ("dup_key" if op["j"] in par and op["i"] in par else "-")
    if k == "upd_c_fk":
        return "no_such_parent" if op["q"] != N and op["q"] not in par else "-"
    if k == "ins_p":
        return "dup_key" if not last["ok"] else "-"
    return "-"


def features(hist):
    f = []
    prev = [h["op"]["k"] for h in hist[:-1]]
    if "reopen" in prev:
        f.append("after_reopen")
    if "rollback" in prev:
        f.append("after_rollback")
    if any(k in ("del_p", "del_c") for k in prev):
        f.append("after_delete")
    if hist[-1].get("intxn"):
        f.append("in_txn")
    return f


def signature(act, hist, d):
    """kind : statement : refusing / shaping rule of ForeignKey.tla [: declared action, where the rule depends on it]"""
    op = hist[-1]["op"]
    name = opname(op).replace("_all", "").replace("_2rows", "")
    # an earlier ON DELETE CASCADE that removed children: what it leaves behind (row count, index entries of the removed
    # children) shows in later statements; the history class is part of the signature
    if act == "cascade" and any(h["op"]["k"] == "del_p" and why(act, hist[:i + 1]) == "referenced" and h["ok"] for i, h in enumerate(hist[:-1])):
        return "fk:%s:%s:after_cascade_delete" % (d["kind"], name)
    return "fk:%s:%s:%s%s" % (d["kind"], name, why(act, hist), ":on_delete_" + act if op["k"] == "del_p" else "")


def phase(chk, relevant):
    """-> stats; relevant(d, act, hist) selects the divergences this property judges"""
    thorough = chk.tier == "thorough"
    cfg = vlib.scratch() + "/GenFK.cfg"
    open(cfg, "w").write(open(os.path.join(vlib.SPEC, "Gen_ForeignKey.cfg")).read().replace("MaxOps = 4", "MaxOps = %d" % (5 if thorough else 4)))
    gen = vlib.tlc_emit("MC_ForeignKey.tla", cfg, timeout=2400)
    if gen["violated"]:
        raise vlib.ToolError("ForeignKey.tla violates its own invariant %s" % gen["violated"])
    cases = gen["emitted"]
    total = len(cases)
    rng = random.Random(chk.seed)
    key = lambda c: (c["act"], opname(c["hist"][-1]["op"]), c["hist"][-1]["ok"], why(c["act"], c["hist"]), tuple(features(c["hist"])), len(c["hist"]))
    lim = 60000 if thorough else 8000
    if len(cases) > lim:
        cases = vlib.stratified_sample(cases, key, lim, rng)
    rend, meta = [], {}
    for cid, c in enumerate(cases):
        case, marks, obs_at = render(cid, c["act"], c["hist"])
        rend.append(case)
        meta[cid] = (c, marks, obs_at)
    inp, outp = vlib.scratch() + "/fk_in.ndjson", vlib.scratch() + "/fk_out.ndjson"
    vlib.write_ndjson(inp, rend)
    vlib.run_vh(["sql-run", "--in", inp, "--out", outp, "--jobs", vlib.NCPU], timeout=3000)
    st = {"generated": total, "replayed": len(cases), "conforming": 0, "abandoned_prefix_diverged": 0, "divergences": {}, "judged_by_class": {},
          "tlc": gen["stats"]}
    for r in vlib.read_ndjson(outp):
        c, marks, obs_at = meta[r["id"]]
        divs = compare(c["act"], c["hist"], marks, obs_at, r)
        if any(d["kind"] == "prefix" for d in divs):
            st["abandoned_prefix_diverged"] += 1
            continue
        cls = "%s|%s|%s|%s" % (c["act"], opname(c["hist"][-1]["op"]), "ok" if c["hist"][-1]["ok"] else "err", why(c["act"], c["hist"]))
        st["judged_by_class"][cls] = st["judged_by_class"].get(cls, 0) + 1
        rel = [d for d in divs if relevant(d, c["act"], c["hist"])]
        if not rel:
            st["conforming"] += 1
        for d in rel:
            sig = signature(c["act"], c["hist"], d)
            st["divergences"][sig] = st["divergences"].get(sig, 0) + 1
            chk.classify(sig, {"sql": describe(c["act"], c["hist"]), "fk_act": c["act"], "fk_hist": c["hist"], "divergence": d})
    need = ["cascade|del_p|ok|referenced", "restrict|del_p|err|referenced", "noaction|del_p|err|referenced",
            "cascade|ins_c|err|no_such_parent", "restrict|upd_c_fk|err|no_such_parent", "cascade|upd_p_key|err|referenced", "cascade|rollback|ok|-"]
    missing = [n for n in need if not st["judged_by_class"].get(n)]
    if missing:
        raise vlib.ToolError("foreign-key classes never judged (vacuous or abandoned behind a divergence): %s" % missing)
    return st


def replay(chk, rep, relevant):
    vlib.build_harness()
    act, hist = rep["fk_act"], rep["fk_hist"]
    case, marks, obs_at = render(0, act, hist)
    inp, outp = vlib.scratch() + "/fk_in.ndjson", vlib.scratch() + "/fk_out.ndjson"
    vlib.write_ndjson(inp, [case])
    vlib.run_vh(["sql-run", "--in", inp, "--out", outp, "--jobs", 1], timeout=600)
    r = vlib.read_ndjson(outp)[0]
    divs = compare(act, hist, marks, obs_at, r)
    print("replayed:", describe(act, hist))
    for d in divs:
        print("  divergence: %s" % json.dumps(d)[:500])
        if d["kind"] != "prefix" and relevant(d, act, hist):
            chk.classify(signature(act, hist, d), {"sql": describe(act, hist), "fk_act": act, "fk_hist": hist, "divergence": d})
    chk.cov = {"states": 1, "transitions": len(hist), "traces_validated_against_impl": 1, "samples": [describe(act, hist)]}
    return chk.finish()

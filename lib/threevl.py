"""Plumbing shared by C14 and C19: run the ThreeVL generator (TLC), render expression trees to SQL, observe TurDB,
compare with TLC's answers and localise the blame.  NOTHING here decides a truth value: expected values, the truth
tables of the connectives and the fixed tables all come out of TLC (spec/ThreeVL.tla, spec/MC_ThreeVL.tla).

Trees (as emitted by MC_ThreeVL!Show):  ["col", name] | ["lit", kind, n, chars] | ["tv", "T"|"F"|"N"] | ["opq", name]
                                        | [op, child, ...]
Value vectors: python strings over "TFN", index id-1.
Observed vectors: where-contexts "T" (row returned) / "x" (not returned); select-context "T" "F" "N" "?" (other).
"""
import json, os, itertools, collections
import vlib, oracle

CMP = ("=", "<>", "<", "<=", ">", ">=")
SCALAR = ("col", "lit")
CONNECTIVES = ("and", "or", "not", "isnull", "isnotnull")
SQLOP = {"in": "IN", "notin": "NOT IN", "between": "BETWEEN", "notbetween": "NOT BETWEEN", "like": "LIKE", "notlike": "NOT LIKE"}


# ----------------------------------------------------------------------------- TLC side
def gen_cfg(**kw):
    base = open(os.path.join(vlib.SPEC, "Gen_ThreeVL.cfg")).read()
    dflt = dict(Mode="bfs", Partners=4, Seed=1, EmitNodes=False, CheckLaws="some", Walks=100, WalkLen=6, Stride=1)
    dflt.update(kw)

    def lit(v):
        return ("TRUE" if v else "FALSE") if isinstance(v, bool) else ('"%s"' % v if isinstance(v, str) else str(v))
    out = base
    import re
    for k, v in dflt.items():
        out, n = re.subn(r"\b%s = (\"[^\"]*\"|\w+)" % k, "%s = %s" % (k, lit(v)), out)
        if n != 1:
            raise vlib.ToolError("Gen_ThreeVL.cfg: constant %s not found" % k)
    path = vlib.scratch() + "/Gen3VL_%s.cfg" % "_".join("%s" % dflt[k] for k in sorted(dflt))
    open(path, "w").write(out)
    return path


def unpack(groups, G):
    out = []
    for g in groups:
        for _ in range(G):
            out.append("TFN"[g % 3])
            g //= 3
    return "".join(out)


def key(tree):
    return json.dumps(tree, separators=(",", ":"))


def nodes(tree):
    """truth-valued nodes in pre-order: the same order as ThreeVL!Nodes"""
    if tree[0] in SCALAR:
        return []
    out = [tree]
    for c in tree[1:]:
        if isinstance(c, list):
            out += nodes(c)
    return out


def children(tree):
    return [c for c in tree[1:] if isinstance(c, list)] if tree[0] not in ("col", "lit", "tv", "opq") else []


def depth(tree):
    if tree[0] in SCALAR:
        return 0
    return 1 + max([depth(c) for c in children(tree)] or [0])


def family(tree):
    return "cmp" if tree[0] in CMP else tree[0]


class Generated:
    """what one or several TLC runs emitted"""

    def __init__(self):
        self.table = None       # list of rows {"id":..,"i":[kind,n,chars],..}
        self.utable = None
        self.tt = None          # truth tables: op -> string over the 27 valuations (A major, then B, then C)
        self.cases = {}         # key -> {"e": tree, "v": vector}
        self.expected = {}      # key of any node -> vector over table t (root and sub-nodes)
        self.rewrites = []      # rw / opq records
        self.stats = []

    def absorb(self, emitted, G=10):
        for r in emitted:
            if "table" in r:
                if self.table is None:
                    self.table, self.utable = r["table"], r["utable"]
                    self.tt = {op: unpack(v, 9) for op, v in r["tt"].items()}
                    self.natoms = r["natoms"]
                elif self.table != r["table"]:
                    raise vlib.ToolError("TLC runs disagree on the fixed table")
            elif "e" in r:
                k = key(r["e"])
                v = unpack(r["v"], G)
                self.cases.setdefault(k, {"e": r["e"], "v": v})
                self.expected[k] = v
                if r.get("nodes"):
                    ns = nodes(r["e"])
                    if len(ns) != len(r["nodes"]):
                        raise vlib.ToolError("node order mismatch between TLC and the renderer: %s" % k)
                    for n, pv in zip(ns, r["nodes"]):
                        self.expected[key(n)] = unpack(pv, G)
            elif "kind" in r:
                g = 9 if r["on"] == "v" else 10
                rec = {"kind": r["kind"], "same": r["same"], "on": r["on"], "variants": r["variants"],
                       "vals": [unpack(v, g) for v in r["vals"]], "nodes": []}
                for var, nv in zip(r["variants"], r.get("nodes") or []):
                    ns = nodes(var)
                    if len(ns) != len(nv):
                        raise vlib.ToolError("node order mismatch between TLC and the renderer (rewrite)")
                    rec["nodes"].append({key(n): unpack(pv, g) for n, pv in zip(ns, nv)})
                self.rewrites.append(rec)


def run_gen(gen, what, timeout=1500, workers=8, **consts):
    cfg = gen_cfg(**consts)
    cache = os.environ.get("VERIF_3VL_CACHE")     # development aid only: reuse TLC's output for identical spec + config
    cpath = None
    if cache:
        import hashlib
        h = hashlib.sha1()
        for f in (cfg, os.path.join(vlib.SPEC, "MC_ThreeVL.tla"), os.path.join(vlib.SPEC, "ThreeVL.tla")):
            h.update(open(f, "rb").read())
        cpath = os.path.join(cache, h.hexdigest() + ".json")
        if os.path.exists(cpath):
            d = json.load(open(cpath))
            gen.absorb(d["emitted"])
            gen.stats.append({"run": what, "consts": consts, "tlc": d["stats"], "emitted": len(d["emitted"]), "cached": True})
            return d
    res = vlib.tlc_emit("MC_ThreeVL.tla", cfg, timeout=timeout, workers=workers)
    if res["violated"]:
        raise vlib.ToolError("the ThreeVL oracle violates one of its own laws (%s, %s): fix the specification\n%s"
                             % (what, res["violated"], res["out"][-2500:]))
    vlib.tlc_ok(res, what)
    gen.absorb(res["emitted"])
    gen.stats.append({"run": what, "consts": consts, "tlc": res["stats"], "emitted": len(res["emitted"])})
    if cpath:
        os.makedirs(cache, exist_ok=True)
        json.dump({"emitted": res["emitted"], "stats": res["stats"]}, open(cpath, "w"))
    return res


# ----------------------------------------------------------------------------- rendering
def sql_lit(kind, n, chars):
    if kind == "null":
        return "NULL"
    if kind == "int":
        assert n % 2 == 0
        return str(n // 2)
    if kind == "float":
        return repr(n / 2.0)
    if kind == "text":
        return "'" + "".join(chars).replace("'", "''") + "'"
    raise vlib.ToolError("unknown literal kind %r" % kind)


def render(tree, atoms=None, qual=None):
    """fully parenthesised SQL; atoms: opaque name -> SQL text; qual: column name -> qualified name"""
    op = tree[0]
    if op == "col":
        return (qual or {}).get(tree[1], tree[1])
    if op == "lit":
        return sql_lit(tree[1], tree[2], tree[3])
    if op == "tv":
        return {"T": "TRUE", "F": "FALSE", "N": "NULL"}[tree[1]]
    if op == "opq":
        return "(" + atoms[tree[1]] + ")"
    a = [render(c, atoms, qual) for c in tree[1:]]
    if op in CMP:
        return "(%s %s %s)" % (a[0], op, a[1])
    if op == "and":
        return "(%s AND %s)" % (a[0], a[1])
    if op == "or":
        return "(%s OR %s)" % (a[0], a[1])
    if op == "not":
        return "(NOT %s)" % a[0]
    if op == "isnull":
        return "(%s IS NULL)" % a[0]
    if op == "isnotnull":
        return "(%s IS NOT NULL)" % a[0]
    if op in ("in", "notin"):
        return "(%s %s (%s))" % (a[0], SQLOP[op], ", ".join(a[1:]))
    if op in ("between", "notbetween"):
        return "(%s %s %s AND %s)" % (a[0], SQLOP[op], a[1], a[2])
    if op in ("like", "notlike"):
        return "(%s %s %s)" % (a[0], SQLOP[op], a[1])
    raise vlib.ToolError("cannot render operator %r" % op)


PREC = {"or": 1, "and": 2, "not": 3}


def render_min(tree, atoms=None, qual=None, only=None):
    """SQL with only the parentheses that standard precedence requires (OR < AND < NOT < predicates); the operand of
    IS [NOT] NULL is parenthesised when it is a predicate; the right operand of AND/OR keeps its parentheses when it is
    the same connective (so that the tree shape is what is written).
    only: a set of sites (key(node), operand index) - parentheses are dropped at these sites only."""
    def prec(t):
        return PREC.get(t[0], 4)

    def wrap(t, j, needs_parens):
        c = t[j]
        if needs_parens or c[0] in ("tv", "opq") or (only is not None and (key(t), j) not in only):
            return render(c, atoms, qual) if c[0] in ("tv", "opq") else "(" + r(c) + ")"
        return r(c)

    def r(t):
        op = t[0]
        if op in ("col", "lit", "tv", "opq"):
            return render(t, atoms, qual)
        if op in ("and", "or"):
            return "%s %s %s" % (wrap(t, 1, prec(t[1]) < prec(t)), op.upper(), wrap(t, 2, prec(t[2]) <= prec(t)))
        if op == "not":
            return "NOT " + wrap(t, 1, prec(t[1]) < 3)
        if op in ("isnull", "isnotnull"):
            a = t[1]
            sa = r(a) if a[0] in SCALAR else "(" + r(a) + ")"
            return sa + (" IS NULL" if op == "isnull" else " IS NOT NULL")
        return top(render(t, atoms, qual))
    return r(tree)


def paren_sites(tree):
    """the sites (node, operand index) at which render_min drops a pair of parentheses"""
    out = []
    for n in nodes(tree):
        if n[0] in ("and", "or"):
            for j in (1, 2):
                c = n[j]
                needs = PREC.get(c[0], 4) < PREC[n[0]] if j == 1 else PREC.get(c[0], 4) <= PREC[n[0]]
                if not needs and c[0] not in ("tv", "opq"):
                    out.append((n, j))
        elif n[0] == "not":
            c = n[1]
            if PREC.get(c[0], 4) >= 3 and c[0] not in ("tv", "opq"):
                out.append((n, 1))
    return out


def top(sql):
    """strip the outermost pair of parentheses of a rendered predicate"""
    if sql.startswith("(") and sql.endswith(")"):
        d = 0
        for i, ch in enumerate(sql):
            d += ch == "("
            d -= ch == ")"
            if d == 0 and i < len(sql) - 1:
                return sql
        return sql[1:-1]
    return sql


def setup_sql(gen, with_u=False):
    def val(v):
        return sql_lit(*v)
    rows = ["(%d, %s, %s, %s)" % (r["id"], val(r["i"]), val(r["f"]), val(r["s"])) for r in gen.table]
    out = []
    for t in ("t", "ti"):
        out.append("CREATE TABLE %s (id INT PRIMARY KEY, i INT, f FLOAT, s TEXT)" % t)
        if t == "ti":
            out.append("CREATE INDEX ti_i ON ti (i)")
        for j in range(0, len(rows), 25):
            out.append("INSERT INTO %s VALUES %s" % (t, ", ".join(rows[j:j + 25])))
    if with_u:
        out.append("CREATE TABLE u (uid INT PRIMARY KEY, k INT)")
        out.append("INSERT INTO u VALUES " + ", ".join("(%d, %s)" % (r["uid"], val(r["k"])) for r in gen.utable))
    return out


def model_cell(v):
    kind, n, chars = v
    return None if kind == "null" else n // 2 if kind == "int" else n / 2.0 if kind == "float" else "".join(chars)


def check_tables(gen, setup, with_u=False):
    """the tables TurDB holds must be the tables of the model, otherwise nothing can be judged (tool error)"""
    qs = ["SELECT id, i, f, s FROM t", "SELECT id, i, f, s FROM ti"] + (["SELECT uid, k FROM u"] if with_u else [])
    res = oracle.run_sql(setup, qs, batch=10)
    want = sorted([[r["id"], model_cell(r["i"]), model_cell(r["f"]), model_cell(r["s"])] for r in gen.table], key=lambda r: r[0])
    for q, r in zip(qs[:2], res[:2]):
        got = sorted(oracle.norm_rows(r.get("rows", [])), key=lambda r: r[0]) if "rows" in r else r
        if got != want:
            raise vlib.ToolError("fixed table not stored as in the model (%s): %s" % (q, json.dumps(got)[:400]))
    if with_u:
        wantu = [[r["uid"], model_cell(r["k"])] for r in gen.utable]
        got = sorted(oracle.norm_rows(res[2].get("rows", [])), key=lambda r: r[0]) if "rows" in res[2] else res[2]
        if got != wantu:
            raise vlib.ToolError("table u not stored as in the model: %s" % json.dumps(got)[:300])


# ----------------------------------------------------------------------------- observing TurDB
def tv_of(cell):
    c = oracle.norm(cell)
    if c is None:
        return "N"
    if c is True or (c == 1 and not isinstance(c, bool) and isinstance(c, int)):
        return "T"
    if c is False or (c == 0 and isinstance(c, int)):
        return "F"
    return "?"


def short_err(r):
    m = r.get("err") or r.get("panic") or "missing"
    kind = "panic" if "panic" in r else "error"
    import re
    m = re.sub(r"[0-9]+", "#", str(m))
    m = re.sub(r"'[^']*'|\"[^\"]*\"|`[^`]*`", "..", m)
    m = m.replace(":", " -").replace("|", "/")
    return "%s(%s)" % (kind, m[:60].strip())


class Observer:
    """runs rendered queries in batches and caches the observation per (context, node key)"""
    CONTEXTS = {"where": "SELECT id FROM t WHERE %s", "where/indexed": "SELECT id FROM ti WHERE %s", "select": "SELECT id, %s FROM t"}

    def __init__(self, setup, n, atoms=None, contexts=None, batch=200, kinds=None, pair_nu=None, qual=None, renderers=None):
        """kinds: context -> "ids" (rows [id]) | "values" (rows [id, value]) | "pairs" (rows [id, uid], numbered
        (id - 1) * pair_nu + uid); default: "select" gives values, everything else ids"""
        self.setup, self.n, self.atoms, self.batch, self.qual = setup, n, atoms, batch, qual
        self.ctx = dict(contexts or self.CONTEXTS)
        self.kinds = dict(kinds or {})
        self.pair_nu = pair_nu
        self.renderers = dict(renderers or {})       # context -> function(tree) -> SQL of the predicate
        self.obs = {}
        self.queries = 0

    def kind(self, ctx):
        return self.kinds.get(ctx, "values" if ctx == "select" else "ids")

    def sql(self, ctx, tree):
        if ctx in self.renderers:
            return self.ctx[ctx] % self.renderers[ctx](tree)
        return self.ctx[ctx] % top(render(tree, self.atoms, self.qual))

    def ensure(self, wanted):
        """wanted: iterable of (ctx, tree)"""
        todo, seen = [], set()
        for ctx, tree in wanted:
            k = (ctx, key(tree))
            if k in self.obs or k in seen:
                continue
            seen.add(k)
            todo.append((k, ctx, self.sql(ctx, tree)))
        if not todo:
            return
        res = oracle.run_sql(self.setup, [q for _, _, q in todo], batch=self.batch)
        self.queries += len(todo)
        for (k, ctx, q), r in zip(todo, res):
            self.obs[k] = self.decode(ctx, r)

    def decode(self, ctx, r):
        if "rows" not in r:
            return {"err": short_err(r), "raw": r}
        rows = r["rows"]
        kind = self.kind(ctx)
        vec = ["x" if kind != "values" else "-"] * self.n
        bad = None
        for row in rows:
            rid = row[0] if row else None
            if kind == "pairs" and row and len(row) == 2 and isinstance(row[0], int) and isinstance(row[1], int) \
                    and 1 <= row[1] <= self.pair_nu:
                rid = (row[0] - 1) * self.pair_nu + row[1]
            elif kind == "pairs":
                rid = None
            if not isinstance(rid, int) or isinstance(rid, bool) or not (1 <= rid <= self.n):
                bad = "unknown row %r" % (row[:2],)
                continue
            if kind == "values":
                if vec[rid - 1] != "-":
                    bad = "duplicate row %d" % rid
                vec[rid - 1] = tv_of(row[1]) if len(row) == 2 else "?"
            else:
                if vec[rid - 1] == "T":
                    bad = "duplicate row %d" % rid
                vec[rid - 1] = "T"
        if kind == "values" and "-" in vec:
            bad = bad or "missing row %d in an unfiltered SELECT" % (vec.index("-") + 1)
        if bad:
            return {"err": "rowset(%s)" % bad.split(" ")[0], "detail": bad, "raw": {"rows": rows[:5]}}
        return "".join(vec)

    def get(self, ctx, tree):
        return self.obs[(ctx, key(tree))]


def agrees(ctx, exp, obs, values=None):
    """does the observed vector agree with the expected TFN vector in this context"""
    if isinstance(obs, dict):
        return False
    if (ctx == "select") if values is None else values:
        return exp == obs
    return all((e == "T") == (o == "T") for e, o in zip(exp, obs))


# ----------------------------------------------------------------------------- blame localisation
def scalar_kind(t, row):
    if t[0] == "col":
        return row[t[1]][0]
    if t[0] == "lit":
        return t[1]
    return "bool"


def has_column(tree):
    if tree[0] in ("col", "opq"):
        return True
    if tree[0] in ("lit", "tv"):
        return False
    return any(has_column(c) for c in tree[1:] if isinstance(c, list))


def operand_classes(node, row):
    """value classes of the operands of an atom-level node on one row (a description of the INPUT, no semantics):
    "null" as soon as one operand is NULL on that row, otherwise the kinds of the operands"""
    op = node[0]
    if op == "tv":
        return node[1]
    if op == "opq":
        return "atom"
    ks = [scalar_kind(c, row) for c in node[1:]]
    if "null" in ks:
        return "null"
    if op in CMP:
        return ",".join(sorted(ks))
    if op in ("in", "notin"):
        return "%s in %s" % (ks[0], "/".join(sorted(set(ks[1:]))))
    if op in ("between", "notbetween"):
        return "%s between %s" % (ks[0], "/".join(sorted(set(ks[1:]))))
    return ",".join(ks)


class Blamer:
    """For a failing expression and context: the nodes to blame on every failing row.

    A node FAILS on a row when its own observation (the node run alone in the same context) differs from TLC's
    value; a node is TAINTED when it or a descendant fails.  Blamed are
      * atom-level nodes (operands are columns / literals) that fail, and
      * connectives whose observed value is not what TLC's truth table gives for the OBSERVED values of their
        operands (operands that could not be pinned down - masked failures, errors - count as any of T/F/N).
    Signature: context : operator family : [classes of the operand values] : expected -> observed."""

    def __init__(self, gen, observer, expected_of, row_of):
        self.gen, self.ob, self.expected_of, self.row_of = gen, observer, expected_of, row_of
        self.tt = gen.tt

    def tt_apply(self, op, vals):
        a = "TFN".index(vals[0])
        b = "TFN".index(vals[1]) if len(vals) > 1 else 0
        return self.tt[op][a * 9 + b * 3]

    def need(self, ctx, tree):
        return [(ctx, n) for n in nodes(tree)]

    def fails(self, ctx, node, j):
        exp, obs = self.expected_of(node), self.ob.get(ctx, node)
        if isinstance(obs, dict):
            return True
        return obs[j] != exp[j] if ctx == "select" else (obs[j] == "T") != (exp[j] == "T")

    def blame(self, ctx, tree):
        """-> OrderedDict signature -> details; every failing row of the root is localised (rows that look the same at
        every node - same expected and observed values, same NULL pattern of the input row - are localised once)"""
        sigs = collections.OrderedDict()
        exp_root, obs_root = self.expected_of(tree), self.ob.get(ctx, tree)
        rows = range(len(exp_root))
        if isinstance(obs_root, dict):
            rows = [0]          # an error is not row specific: localise once
        ns = nodes(tree)
        vecs = [(self.expected_of(n), self.ob.get(ctx, n)) for n in ns]
        seen = set()
        for j in rows:
            if isinstance(obs_root, dict) or self.fails(ctx, tree, j):
                row = self.row_of(j)
                k = tuple(e[j] + (o[j] if not isinstance(o, dict) else "E") for e, o in vecs) + \
                    (tuple(sorted((c, v[0]) for c, v in row.items() if isinstance(v, list))) if row else ())
                if k in seen:
                    continue
                seen.add(k)
                taint = {}
                self._taint(ctx, tree, j, taint)
                self._visit(ctx, tree, j, taint, sigs)
        return sigs

    def _taint(self, ctx, node, j, taint):
        """taint[id(node)] = (fails itself, a descendant's query errors, a descendant fails)"""
        f = self.fails(ctx, node, j)
        err = isinstance(self.ob.get(ctx, node), dict)
        eb, fb = False, False
        for c in children(node):
            if c[0] not in SCALAR:
                cf, ce, cb = self._taint(ctx, c, j, taint)
                eb = eb or ce or isinstance(self.ob.get(ctx, c), dict)
                fb = fb or cf or cb
        taint[id(node)] = (f, eb, fb)
        return taint[id(node)]

    def _cands(self, ctx, child, j, taint):
        """the truth values the operand may have had on row j"""
        exp, obs = self.expected_of(child), self.ob.get(ctx, child)
        f, eb, fb = taint[id(child)]
        if isinstance(obs, dict):
            return ["T", "F", "N"]
        if f:
            if ctx == "select":
                return [obs[j]] if obs[j] in "TFN" else ["T", "F", "N"]
            return ["T"] if obs[j] == "T" else ["F", "N"]
        if eb:
            return ["T", "F", "N"]          # something below cannot be observed at all (its own query errors)
        return [exp[j]]

    def _visit(self, ctx, node, j, taint, sigs):
        exp, obs = self.expected_of(node), self.ob.get(ctx, node)
        kids = [c for c in children(node) if c[0] not in SCALAR]
        failing = [c for c in kids if taint[id(c)][0]]
        err_below = [c for c in kids if not taint[id(c)][0] and taint[id(c)][1]]
        masked = [c for c in kids if not taint[id(c)][0] and not taint[id(c)][1] and taint[id(c)][2]]
        if isinstance(obs, dict):
            down = failing + err_below
            for c in down:
                self._visit(ctx, c, j, taint, sigs)
            if not down:
                self._record_error(ctx, node, sigs)
            return
        o = obs[j]
        shown = o if o != "x" else "not_returned"
        fails = taint[id(node)][0]
        if node[0] in CONNECTIVES and kids:
            wrong = False
            if fails:
                cands = [self._cands(ctx, c, j, taint) for c in kids]
                adm = sorted({self.tt_apply(node[0], vs) for vs in itertools.product(*cands)})
                wrong = not ((o in adm) if ctx == "select" else ((o == "T") in {a == "T" for a in adm}))
                if wrong:
                    cl = ["|".join(c) for c in cands]
                    if node[0] in ("and", "or"):
                        cl = sorted(cl)
                    self._record(sigs, "%s:%s:[%s]:%s->%s" % (ctx, family(node), ",".join(cl), "|".join(adm), shown), node, j)
            by_value = [c for c in failing if not isinstance(self.ob.get(ctx, c), dict)]
            by_error = [c for c in failing if isinstance(self.ob.get(ctx, c), dict)] + err_below
            for c in by_value:
                self._visit(ctx, c, j, taint, sigs)
            if not wrong and not by_value:
                # nothing observable at this level explains the failure above: operands that cannot be observed
                # (their own query errors), then operands whose own query hides a failure
                if fails and not by_error and not masked:
                    raise vlib.ToolError("blame localisation is inconsistent at %s row %d" % (key(node), j + 1))
                for c in by_error or masked:
                    self._visit(ctx, c, j, taint, sigs)
            return
        if fails:
            row = self.row_of(j)
            cls = operand_classes(node, row) if row is not None else "?"
            self._record(sigs, "%s:%s:[%s]:%s->%s" % (ctx, family(node), cls, exp[j], shown), node, j)

    def _record_error(self, ctx, node, sigs):
        o = self.ob.get(ctx, node)
        exp = self.expected_of(node)
        expset = "".join(sorted(set(exp)))
        if "T" not in expset:
            # a predicate that is never TRUE (the optimizer can fold it to FALSE / NULL) and fails instead of
            # returning no row: one family whatever the operator
            sig = "%s:never_true:F|N->%s" % (ctx, o["err"])
        elif not has_column(node):
            row = self.row_of(0)
            sig = "%s:constant %s:[%s]:%s->%s" % (ctx, family(node), operand_classes(node, row) if not
                                                 [c for c in children(node) if c[0] not in SCALAR] else "", expset, o["err"])
        else:
            sig = "%s:%s:%s->%s" % (ctx, family(node), expset, o["err"])
        d = sigs.setdefault(sig, {"node": render(node, self.ob.atoms), "key": key(node), "keys": set(), "observed": o.get("detail") or o["err"]})
        d["keys"].add(key(node))

    def _record(self, sigs, sig, node, j):
        d = sigs.setdefault(sig, {"node": render(node, self.ob.atoms), "key": key(node), "keys": set(), "rows": []})
        d["keys"].add(key(node))
        if len(d["rows"]) < 3:
            d["rows"].append(j + 1)


def explain(gen, ob, ctx, tree, expected):
    obs = ob.get(ctx, tree)
    d = {"context": ctx, "sql": ob.sql(ctx, tree), "tree": tree, "expected": expected}
    if isinstance(obs, dict):
        d["observed"] = {k: v for k, v in obs.items()}
    else:
        d["observed"] = obs
        d["differs_at_ids"] = [j + 1 for j in range(len(expected))
                               if (obs[j] != expected[j] if ctx == "select" else (obs[j] == "T") != (expected[j] == "T"))][:12]
    return d

"""Renderer / runner / comparer for the scalar-function oracle (spec/Scalar.tla, MC_Scalar.tla) - property C20.

A case (emitted by TLC) is {"g","f","args","exp","cls","dev"}; values are the records of Scalar.tla:
  {"t":"null"} | {"t":"int","k","o"} (= k*2^62+o) | {"t":"str","cp":[code points]} | {"t":"rat","n","d"} | {"t":"txt","s"}
  | {"t":"err","kind"} | {"t":"dectext","k","o"} | {"t":"floatof","k","o"} | {"t":"rattext","n","d"} | {"t":"date","days"}
  | {"t":"notnull"}
Every case is run in two contexts: `SELECT f(literals)` and `SELECT f(columns) FROM t` with the arguments stored in a
table.  Python renders and compares; it never computes an expected value."""
import json, os, random
from fractions import Fraction
import vlib

P62 = 1 << 62
I64_MIN = -(1 << 63)
LIT_BATCH = 60         # select-list items per statement
ROWS_PER_DB = 300


def ival(v):
    return v["k"] * P62 + v["o"]


def sstr(v):
    return "".join(chr(c) for c in v["cp"])


# ----------------------------------------------------------------------------- rendering
def lit(v, paren_neg=False):
    t = v["t"]
    if t == "null":
        return "NULL"
    if t == "int":
        n = ival(v)
        if n == I64_MIN:
            return "(-9223372036854775807 - 1)"      # the literal -9223372036854775808 does not parse as an integer
        return "(%d)" % n if (n < 0 and paren_neg) else str(n)
    if t == "str":
        return "'" + sstr(v).replace("'", "''") + "'"
    if t == "txt":
        return "'" + v["s"] + "'"
    if t == "rat":
        f = Fraction(v["n"], v["d"])
        s = "%.4f" % float(f)
        assert Fraction(s) == f, v
        s = s.rstrip("0")
        s = s + "0" if s.endswith(".") else s
        return "(%s)" % s if (f < 0 and paren_neg) else s
    raise vlib.ToolError("cannot render value %s" % v)


INFIX = {"ADD": "+", "SUB": "-", "MUL": "*", "DIV": "/", "MODOP": "%"}
CASTS = {"CAST_INT": "BIGINT", "CAST_FLOAT": "FLOAT", "CAST_TEXT": "TEXT", "CAST_DATE": "DATE"}


def expr(f, a):
    """SQL text of the application of f to the already rendered operands a"""
    if f in INFIX:
        return "%s %s %s" % (a[0], INFIX[f], a[1])
    if f == "NEG":
        return "-(%s)" % a[0]
    if f in CASTS:
        return "CAST(%s AS %s)" % (a[0], CASTS[f])
    if f == "CAST_DATE_TEXT":
        return "CAST(CAST(%s AS DATE) AS TEXT)" % a[0]
    if f == "CASE_SIMPLE":
        return "CASE %s WHEN %s THEN %s WHEN %s THEN %s ELSE %s END" % tuple(a)
    if f == "CASE_SEARCHED":
        return "CASE WHEN %s <> 0 THEN %s WHEN %s <> 0 THEN %s ELSE %s END" % tuple(a)
    if f == "CASE_SEARCHED_NOELSE":
        return "CASE WHEN %s <> 0 THEN %s END" % tuple(a)
    return "%s(%s)" % (f, ", ".join(a))


def lit_expr(c):
    return expr(c["f"], [lit(v, paren_neg=True) for v in c["args"]])


COLTYPE = {"int": "BIGINT", "str": "TEXT", "txt": "TEXT", "rat": "FLOAT", "null": "TEXT"}


def typevec(c):
    return tuple(COLTYPE[v["t"]] for v in c["args"])


def param(v):
    t = v["t"]
    if t == "null":
        return None
    if t == "int":
        return ival(v)
    if t == "str":
        return sstr(v)
    if t == "txt":
        return v["s"]
    if t == "rat":
        return {"f": repr(float(Fraction(v["n"], v["d"])))}
    raise vlib.ToolError("no parameter form for %s" % v)


def table_case(cid, f, tv, cases):
    """one fresh database holding the argument tuples of `cases` (same f and column types), one SELECT over it"""
    n = len(tv)
    cols = ", ".join("a%d %s" % (i + 1, t) for i, t in enumerate(tv))
    ops = [{"k": "exec", "sql": "CREATE TABLE t (id INT%s)" % (", " + cols if cols else "")}]
    plain = []
    for i, c in enumerate(cases):
        if any(v["t"] == "int" and ival(v) == I64_MIN for v in c["args"]):
            ops.append({"k": "params", "sql": "INSERT INTO t VALUES (%s)" % ", ".join(["?"] * (n + 1)), "params": [i] + [param(v) for v in c["args"]]})
        else:
            plain.append("(%d%s)" % (i, "".join(", " + lit(v) for v in c["args"])))
    if plain:
        ops.insert(1, {"k": "exec", "sql": "INSERT INTO t VALUES " + ", ".join(plain)})
    ops.append({"k": "query", "sql": "SELECT id, %s FROM t" % expr(f, ["a%d" % (i + 1) for i in range(n)])})
    return {"id": cid, "ops": ops}


# ----------------------------------------------------------------------------- running
def _run(cases, watchdog=120):
    tag = "%d_%d" % (os.getpid(), random.getrandbits(30))
    inp, outp = os.path.join(vlib.scratch(), "sc_in_%s.ndjson" % tag), os.path.join(vlib.scratch(), "sc_out_%s.ndjson" % tag)
    vlib.write_ndjson(inp, cases)
    vlib.run_vh(["sql-run", "--in", inp, "--out", outp, "--jobs", min(vlib.NCPU, 12), "--watchdog", watchdog], timeout=3000)
    res = {r["id"]: r["res"] for r in vlib.read_ndjson(outp)}
    os.unlink(inp); os.unlink(outp)
    for c in cases:
        if c["id"] not in res or (res[c["id"]] and "fatal" in res[c["id"]][0]):
            raise vlib.ToolError("sql-run did not run case %s" % c["id"])
    return res


def run_literal(cases):
    """-> list of observations aligned with cases: {"v": value} | {"err": msg} | {"panic": msg}"""
    obs = [None] * len(cases)
    jobs, idx = [], {}
    for i in range(0, len(cases), LIT_BATCH):
        cid = "L%d" % i
        idx[cid] = list(range(i, min(i + LIT_BATCH, len(cases))))
        jobs.append({"id": cid, "ops": [{"k": "query", "sql": "SELECT " + ", ".join(lit_expr(cases[j]) for j in idx[cid])}]})
    res = _run(jobs)
    retry = []
    for job in jobs:
        r = res[job["id"]][0]
        ids = idx[job["id"]]
        if "rows" in r and len(r["rows"]) == 1 and len(r["rows"][0]) == len(ids):
            for j, v in zip(ids, r["rows"][0]):
                obs[j] = {"v": v}
        else:
            retry += ids            # an error or a panic of one item fails the statement: run every item alone
    if retry:
        jobs = [{"id": "S%d" % j, "ops": [{"k": "query", "sql": "SELECT " + lit_expr(cases[j])}]} for j in retry]
        res = _run(jobs)
        for j in retry:
            r = res["S%d" % j][0]
            if "rows" in r:
                obs[j] = {"v": r["rows"][0][0]} if len(r["rows"]) == 1 and len(r["rows"][0]) == 1 else {"err": "unexpected shape %s" % json.dumps(r)[:100]}
            elif "panic" in r:
                obs[j] = {"panic": r["panic"]}
            else:
                obs[j] = {"err": r.get("err", json.dumps(r)[:200])}
    return obs


def run_table(cases):
    obs = [None] * len(cases)
    groups = {}
    for i, c in enumerate(cases):
        groups.setdefault((c["f"], typevec(c)), []).append(i)
    jobs, idx = [], {}
    for (f, tv), ids in sorted(groups.items()):
        for k in range(0, len(ids), ROWS_PER_DB):
            cid = "T%d" % len(jobs)
            idx[cid] = ids[k:k + ROWS_PER_DB]
            jobs.append(table_case(cid, f, tv, [cases[j] for j in idx[cid]]))
    res = _run(jobs)
    retry = []
    for job in jobs:
        r = res[job["id"]]
        ids = idx[job["id"]]
        setup_ok = all("ok" in x for x in r[:len(job["ops"]) - 1]) and len(r) == len(job["ops"])
        last = r[-1]
        if setup_ok and "rows" in last and len(last["rows"]) == len(ids):
            for row in last["rows"]:
                obs[ids[row[0]]] = {"v": row[1]}
        elif not setup_ok and len(ids) == 1:
            obs[ids[0]] = {"setup": json.dumps(r)[:300]}
        else:
            retry += ids
    if retry:
        jobs = [table_case("R%d" % j, cases[j]["f"], typevec(cases[j]), [cases[j]]) for j in retry]
        res = _run(jobs)
        for j, job in zip(retry, jobs):
            r = res[job["id"]]
            last = r[-1]
            if len(r) < len(job["ops"]) or not all("ok" in x for x in r[:-1]):
                bad = next((x for x in r if "ok" not in x and "rows" not in x), last)
                obs[j] = {"panic": bad["panic"]} if "panic" in bad and len(r) == len(job["ops"]) else {"setup": json.dumps(bad)[:300]}
            elif "rows" in last:
                obs[j] = {"v": last["rows"][0][1]} if len(last["rows"]) == 1 else {"err": "row count %d" % len(last["rows"])}
            elif "panic" in last:
                obs[j] = {"panic": last["panic"]}
            else:
                obs[j] = {"err": last.get("err", json.dumps(last)[:200])}
    return obs


def run_isolated(c, mem_kb=600000, timeout=150):
    """one literal case in a child process with an address-space limit: for applications that may not terminate"""
    inp, outp = os.path.join(vlib.scratch(), "iso_in.ndjson"), os.path.join(vlib.scratch(), "iso_out.ndjson")
    vlib.write_ndjson(inp, [{"id": 0, "ops": [{"k": "query", "sql": "SELECT " + lit_expr(c)}]}])
    if os.path.exists(outp):
        os.unlink(outp)
    cmd = "ulimit -v %d; exec timeout %d %s sql-run --in %s --out %s --jobs 1" % (mem_kb, timeout, vlib.VH, inp, outp)
    rc, out = vlib.sh(["bash", "-c", cmd], timeout=timeout + 30, env={"VERIF_SCRATCH": os.path.join(vlib.scratch(), "vh_iso")})
    if rc == 0 and os.path.exists(outp):
        r = vlib.read_ndjson(outp)[0]["res"][0]
        if "rows" in r:
            return {"v": r["rows"][0][0]}
        return {"panic": r["panic"]} if "panic" in r else {"err": r.get("err", "?")}
    if rc == 124:
        return {"hang": "no result within %d s" % timeout}
    return {"crash": "process died (rc %d) under a %d MB address-space limit: %s" % (rc, mem_kb // 1000, out.strip()[-160:])}


# ----------------------------------------------------------------------------- comparing
def fnum(v):
    """harness value -> exact Fraction if it is a number"""
    if isinstance(v, bool):
        return None
    if isinstance(v, int):
        return Fraction(v)
    if isinstance(v, dict) and "f" in v:
        try:
            f = float(v["f"])
        except ValueError:
            return None
        if f != f or f in (float("inf"), float("-inf")):
            return None
        return Fraction(f)
    return None


def matches(o, e):
    """does observation o ({"v"}|{"err"}|{"panic"}) realise the admissible result e?"""
    t = e["t"]
    if t == "err":
        return "err" in o
    if "v" not in o:
        return False
    v = o["v"]
    if t == "null":
        return v is None
    if t == "notnull":
        return v is not None
    if t == "int":
        n = ival(e)
        if isinstance(v, int) and not isinstance(v, bool):
            return v == n
        # a float that is exactly the integer (MOD/ROUND return doubles for integers): numerically the same value
        return isinstance(v, dict) and "f" in v and abs(n) <= (1 << 53) and fnum(v) == n
    if t == "str":
        return v == sstr(e)
    if t == "txt":
        return v == e["s"]
    if t == "rat":
        x = fnum(v)
        return x is not None and float(x) == e["n"] / e["d"]
    if t == "dectext":
        return v == str(ival(e))
    if t == "floatof":
        return isinstance(v, dict) and "f" in v and fnum(v) == Fraction(float(ival(e)))
    if t == "rattext":
        if not isinstance(v, str):
            return False
        try:
            return Fraction(v) == Fraction(e["n"], e["d"]) and "e" not in v.lower() and "/" not in v
        except (ValueError, ZeroDivisionError):
            return False
    if t == "date":
        return v == e["days"] or v == {"date": e["days"]}
    raise vlib.ToolError("unknown expected value %s" % e)


def exp_class(c):
    return "|".join(sorted({("error:" + e["kind"]) if e["t"] == "err" else {"dectext": "str", "txt": "str", "rattext": "str", "floatof": "rat", "notnull": "value"}.get(e["t"], e["t"]) for e in c["exp"]}))


def obs_class(c, o):
    if "panic" in o:
        return "panic"
    if "hang" in o or "crash" in o:
        return "exhausts_memory_or_hangs"      # killed by the address-space limit or by the timeout: one class
    if "err" in o:
        return "error"
    if "setup" in o:
        return "setup_failed"
    for name, dv in c["dev"]:
        if matches(o, dv):
            return name
    return "null" if o["v"] is None else "other_value"


def judge(c, o):
    """None when the observation is admissible, else the signature"""
    if "setup" not in o and any(matches(o, e) for e in c["exp"]):
        return None
    return "%s/%d|%s|exp=%s|obs=%s" % (c["f"], len(c["args"]), c["cls"], exp_class(c), obs_class(c, o))


def show(v):
    t = v["t"]
    if t == "int":
        return ival(v)
    if t in ("dectext",):
        return str(ival(v))
    if t == "str":
        return sstr(v)
    if t == "rat":
        return "%d/%d" % (v["n"], v["d"])
    return {k: x for k, x in v.items()}

"""Rendering of Relational.tla behaviours to SQL scripts, and comparison of the real results with the model.

A behaviour is hist = [step...], step = {op, ok, n, rows, intxn}. The whole history is executed; the LAST step is the
one under test (every prefix is emitted by TLC as its own behaviour). After the last step a fixed family of
observation queries is run: full scan, COUNT(*), primary-key lookups, unique-index lookups, non-indexed filter, range.
"""
import json

N = -99
COLS = ["id", "a", "b"]


def lit(v):
    return "NULL" if v == N or v is None else str(v)


def pyval(v):
    return None if v == N else v


def pred_sql(p):
    k = p["k"]
    if k == "all":
        return ""
    if k == "eq":
        return " WHERE %s = %s" % (p["c"], lit(p["v"]))
    if k == "ge":
        return " WHERE %s >= %s" % (p["c"], lit(p["v"]))
    if k == "isnull":
        return " WHERE %s IS NULL" % p["c"]
    raise ValueError(k)


RETURNING = " RETURNING id, a, b"
# how the model's Checkpoint step is issued: the API call (default) or the statement PRAGMA wal_checkpoint (set by C04)
CHECKPOINT_OPS = [{"k": "checkpoint"}]
DML = ("insert", "update", "delete", "truncate", "upsert")


def bad_sql(b, i, table="t"):
    """Relational.tla BadKinds -> a statement that is wrong in itself; i is an id no row has"""
    return {
        "unknown_table": "INSERT INTO nosuch VALUES (%d, NULL, 0)" % i,
        "unknown_column_in_list": "INSERT INTO %s (id, zz, b) VALUES (%d, NULL, 0)" % (table, i),
        "unknown_column_in_set": "UPDATE %s SET zz = 1" % table,
        "unknown_column_in_where": "DELETE FROM %s WHERE zz = 1" % table,
        "too_many_values": "INSERT INTO %s VALUES (%d, NULL, 0, 7)" % (table, i),
        "text_into_int": "INSERT INTO %s VALUES (%d, NULL, 'abc')" % (table, i),
        "second_row_text_into_int": "INSERT INTO %s VALUES (%d, NULL, 0), (%d, NULL, 'abc')" % (table, i, i + 10),
        "second_row_too_many_values": "INSERT INTO %s VALUES (%d, NULL, 0), (%d, NULL, 0, 7)" % (table, i, i + 10),
        "second_row_unknown_function": "INSERT INTO %s VALUES (%d, NULL, 0), (%d, NULL, nosuchfn(1))" % (table, i, i + 10),
        "update_all_text_into_int": "UPDATE %s SET b = 'abc'" % table,
        "update_all_unknown_function": "UPDATE %s SET b = nosuchfn(b)" % table,
        "delete_where_unknown_function": "DELETE FROM %s WHERE nosuchfn(id) = 1" % table,
        "not_sql": "INSERT INTO %s VALUES (%d, NULL, 0) VALUES" % (table, i),
    }[b]


def opname(op):
    """statement kind as it appears in finding signatures"""
    if op["k"] == "update":
        return "update(%s)" % op.get("c", "")
    if op["k"] == "bad":
        return "bad(%s)" % op["b"]
    if op["k"] == "upsert":
        return "upsert(nothing)" if op["act"] == "nothing" else "upsert(on_%s_set_%s)" % (op["tgt"], op["c"])
    return op["k"]


def op_sql(op, table="t", returning=False):
    """-> list of harness ops for one model step; returning: the DML statement carries RETURNING id, a, b"""
    k = op["k"]
    ret = RETURNING if returning else ""
    if k == "insert":
        vals = ", ".join("(%s)" % ", ".join(lit(x) for x in r) for r in op["rows"])
        return [{"k": "exec", "sql": "INSERT INTO %s VALUES %s%s" % (table, vals, ret)}]
    if k == "update":
        return [{"k": "exec", "sql": "UPDATE %s SET %s = %s%s%s" % (table, op["c"], lit(op["v"]), pred_sql(op["p"]), ret)}]
    if k == "delete":
        return [{"k": "exec", "sql": "DELETE FROM %s%s%s" % (table, pred_sql(op["p"]), ret)}]
    if k == "upsert":
        tail = "ON CONFLICT DO NOTHING" if op["act"] == "nothing" else "ON CONFLICT (%s) DO UPDATE SET %s = %s" % (op["tgt"], op["c"], lit(op["v"]))
        return [{"k": "exec", "sql": "INSERT INTO %s VALUES (%s) %s%s" % (table, ", ".join(lit(x) for x in op["row"]), tail, ret)}]
    if k == "bad":
        return [{"k": "exec", "sql": bad_sql(op["b"], op["id"], table)}]
    if k == "truncate":
        return [{"k": "exec", "sql": "TRUNCATE TABLE %s" % table}]
    if k == "reopen":
        return [{"k": "reopen"}]
    if k == "checkpoint":
        return list(CHECKPOINT_OPS)
    if k == "begin":
        return [{"k": "exec", "sql": "BEGIN"}]
    if k == "commit":
        return [{"k": "exec", "sql": "COMMIT"}]
    if k == "rollback":
        return [{"k": "exec", "sql": "ROLLBACK"}]
    if k == "drophandle":
        # the whole history runs on handle 1 (a clone of handle 0, see render_case); a new clone continues
        return [{"k": "drop_handle", "h": 1}, {"k": "clone", "h": 1}]
    if k == "savepoint":
        return [{"k": "exec", "sql": "SAVEPOINT sp%d" % op["name"]}]
    if k == "rollback_to":
        return [{"k": "exec", "sql": "ROLLBACK TO SAVEPOINT sp%d" % op["name"]}]
    if k == "release":
        return [{"k": "exec", "sql": "RELEASE SAVEPOINT sp%d" % op["name"]}]
    raise ValueError(k)


SCHEMAS = {
    "pk": ["CREATE TABLE t (id INT PRIMARY KEY, a INT UNIQUE, b INT NOT NULL CHECK (b < 3))"],
    "pk_idx_b": ["CREATE TABLE t (id INT PRIMARY KEY, a INT UNIQUE, b INT NOT NULL CHECK (b < 3))", "CREATE INDEX t_b ON t (b)"],
}

OBS = [("scan", "SELECT id, a, b FROM t"),
       ("count", "SELECT COUNT(*) FROM t"),
       ("pk1", "SELECT id, a, b FROM t WHERE id = 1"), ("pk2", "SELECT id, a, b FROM t WHERE id = 2"), ("pk3", "SELECT id, a, b FROM t WHERE id = 3"),
       ("ua1", "SELECT id, a, b FROM t WHERE a = 1"), ("ua2", "SELECT id, a, b FROM t WHERE a = 2"),
       ("b0", "SELECT id, a, b FROM t WHERE b = 0"), ("b1", "SELECT id, a, b FROM t WHERE b = 1"),
       ("range", "SELECT id, a, b FROM t WHERE id >= 2"),
       ("arange", "SELECT id, a, b FROM t WHERE a >= 1"), ("brange", "SELECT id, a, b FROM t WHERE b BETWEEN 0 AND 1"),
       ("anull", "SELECT id, a, b FROM t WHERE a IS NULL")]


def expected_obs(rows):
    rs = [tuple(pyval(x) for x in r) for r in rows]
    def sel(f):
        return sorted([list(r) for r in rs if f(r)], key=lambda r: json.dumps(r))
    return {
        "scan": sel(lambda r: True), "count": [[len(rs)]],
        "pk1": sel(lambda r: r[0] == 1), "pk2": sel(lambda r: r[0] == 2), "pk3": sel(lambda r: r[0] == 3),
        "ua1": sel(lambda r: r[1] == 1), "ua2": sel(lambda r: r[1] == 2),
        "b0": sel(lambda r: r[2] == 0), "b1": sel(lambda r: r[2] == 1),
        "range": sel(lambda r: r[0] is not None and r[0] >= 2), "anull": sel(lambda r: r[1] is None),
        "arange": sel(lambda r: r[1] is not None and r[1] >= 1), "brange": sel(lambda r: r[2] is not None and 0 <= r[2] <= 1),
    }


def render_case(cid, hist, schema="pk", prelude=None, config_ops=None, reopen_ops=None, returning=False):
    """returning: the LAST step (if it is INSERT / UPDATE / DELETE) is issued with RETURNING id, a, b"""
    ops = [{"k": "exec", "sql": s} for s in SCHEMAS[schema]]
    ops += (config_ops or [])
    ops += (prelude or [])
    marks = []   # (index of the harness op carrying the model step, index of the prefix-validation scan or None)
    for i, st in enumerate(hist):
        o = op_sql(st["op"], returning=returning and i + 1 == len(hist))
        at = len(ops)
        ops += o
        if st["op"]["k"] == "reopen" and reopen_ops:
            ops += reopen_ops       # settings that are not persisted are restored after every reopen
        scan_at = None
        if i + 1 < len(hist):
            # prefix validation: the visible rows after every earlier step must be the model's
            scan_at = len(ops)
            ops.append({"k": "query", "sql": "SELECT id, a, b FROM t"})
        marks.append((at, scan_at))
    obs_at = len(ops)
    ops += [{"k": "query", "sql": q} for _, q in OBS]
    if any(st["op"]["k"] == "drophandle" for st in hist):
        # histories that drop the handle holding the transaction run on handle 1, a clone of handle 0 made after the
        # schema exists; handle 0 only keeps the database open
        ns = len(SCHEMAS[schema]) + len(config_ops or []) + len(prelude or [])
        ops = ops[:ns] + [{"k": "clone", "h": 1}] + [o if o.get("k") in ("clone", "drop_handle") else dict(o, h=1) for o in ops[ns:]]
        marks = [(a + 1, None if b is None else b + 1) for a, b in marks]
        obs_at += 1
    return {"id": cid, "ops": ops}, marks, obs_at


def norm_rows(res):
    if res is None or "rows" not in res or res["rows"] is None:
        return None
    return sorted(res["rows"], key=lambda r: json.dumps(r))


def compare_case(hist, marks, obs_at, res, nprelude_ok=True, returning=False):
    """-> list of divergence dicts for the LAST step (kind, detail); also flags an unusable prefix"""
    out = []
    results = res["res"]
    if results and "fatal" in results[0]:
        return [{"kind": "fatal", "detail": results[0]["fatal"]}]
    # the prefix must have gone as the model says, otherwise this behaviour cannot judge its last step
    for i, st in enumerate(hist[:-1]):
        r = results[marks[i][0]] if marks[i][0] < len(results) else None
        if r is None:
            return [{"kind": "prefix_missing", "at": i}]
        if "panic" in r:
            return [{"kind": "prefix_diverged", "at": i, "detail": "panic"}]
        ok = "ok" in r
        if ok != st["ok"]:
            return [{"kind": "prefix_diverged", "at": i, "detail": "ok mismatch"}]
        if ok and st["op"]["k"] in DML and r["ok"].get("n") != st["n"]:
            return [{"kind": "prefix_diverged", "at": i, "detail": "n mismatch"}]
        scan = results[marks[i][1]] if marks[i][1] is not None and marks[i][1] < len(results) else None
        if scan is None or norm_rows(scan) != expected_obs(st["rows"])["scan"]:
            return [{"kind": "prefix_diverged", "at": i, "detail": "visible rows differ from the model"}]
    last = hist[-1]
    li = marks[-1][0]
    if li >= len(results):
        return [{"kind": "prefix_diverged", "at": len(hist) - 1, "detail": "not executed"}]
    r = results[li]
    if "panic" in r:
        out.append({"kind": "panic", "detail": r["panic"][:200]})
        return out
    impl_ok = "ok" in r
    if impl_ok != last["ok"]:
        out.append({"kind": "accepts_invalid" if impl_ok else "rejects_valid", "detail": r.get("err", "")[:160]})
    elif impl_ok and last["op"]["k"] in DML:
        if r["ok"].get("n") != last["n"]:
            out.append({"kind": "affected_count", "expected": last["n"], "observed": r["ok"].get("n")})
        if returning and last["op"]["k"] in ("insert", "update", "delete", "upsert"):
            want_ret = sorted([[pyval(x) for x in row] for row in last["ret"]], key=lambda x: json.dumps(x))
            got = r["ok"].get("rows")
            got_ret = sorted(got, key=lambda x: json.dumps(x)) if isinstance(got, list) else got
            if got_ret != want_ret:
                out.append({"kind": "returning", "expected": want_ret, "observed": got_ret})
    # observations
    obs = {}
    for j, (name, _) in enumerate(OBS):
        rr = results[obs_at + j] if obs_at + j < len(results) else None
        if rr is None:
            obs[name] = "missing"
        elif "panic" in rr:
            obs[name] = "panic"
        elif "err" in rr:
            obs[name] = "err:" + rr["err"][:80]
        else:
            obs[name] = norm_rows(rr)
    # which state should be visible: the model's post state if the statement did what the model says; if the
    # implementation REJECTED the statement (whatever the model says) the pre-state must be visible (C06)
    pre_rows = hist[-2]["rows"] if len(hist) >= 2 else []
    if impl_ok == last["ok"]:
        want = expected_obs(last["rows"])
        basis = "model_post"
    elif not impl_ok:
        want = expected_obs(pre_rows)
        basis = "pre_state_after_error"
    else:
        want = None   # implementation accepted something invalid: no reference state; only index/scan agreement is judged
        basis = "none"
    if want is not None:
        bad = {name: {"expected": want[name], "observed": obs[name]} for name, _ in OBS if obs[name] != want[name]}
        if bad:
            out.append({"kind": "state", "basis": basis, "queries": sorted(bad), "detail": bad})
    # C10: index paths agree with the scan of the SAME database, whatever the model says
    if isinstance(obs["scan"], list):
        scan = [tuple(r) for r in obs["scan"]]
        def proj(f):
            return sorted([list(r) for r in scan if f(r)], key=lambda r: json.dumps(r))
        derived = {"pk1": proj(lambda r: r[0] == 1), "pk2": proj(lambda r: r[0] == 2), "pk3": proj(lambda r: r[0] == 3),
                   "ua1": proj(lambda r: r[1] == 1), "ua2": proj(lambda r: r[1] == 2),
                   "b0": proj(lambda r: r[2] == 0), "b1": proj(lambda r: r[2] == 1),
                   "range": proj(lambda r: r[0] is not None and r[0] >= 2), "anull": proj(lambda r: r[1] is None),
                   "arange": proj(lambda r: r[1] is not None and r[1] >= 1), "brange": proj(lambda r: r[2] is not None and 0 <= r[2] <= 1),
                   "count": [[len(scan)]]}
        bad = {k: {"from_scan": v, "observed": obs[k]} for k, v in derived.items() if obs[k] != v}
        if bad:
            out.append({"kind": "index_vs_scan", "queries": sorted(bad), "detail": bad})
    return out


def upsert_why(hist):
    """for a refused ON CONFLICT ... DO UPDATE of Relational.tla: which rule of the model refuses it (signature material)"""
    last = hist[-1]
    op = last["op"]
    if op["k"] != "upsert" or last["ok"]:
        return ""
    pre = [tuple(r) for r in (hist[-2]["rows"] if len(hist) >= 2 else [])]
    r = tuple(op["row"])
    if op["act"] == "nothing":
        return "why=row_invalid"
    ti = 0 if op["tgt"] == "id" else 1
    hit = [x for x in pre if x[ti] == r[ti] and r[ti] != N]
    if not hit:
        return "why=collision_on_the_other_key"          # an ordinary INSERT that another key refuses
    ci = COLS.index(op["c"])
    img = list(hit[0]); img[ci] = op["v"]
    if ci == 2 and op["v"] == N:
        return "why=not_null"
    if ci == 2 and op["v"] >= 3:
        return "why=check"
    if ci == 1 and op["v"] != N and any(x[1] == op["v"] and x != hit[0] for x in pre):
        return "why=unique"
    return "why=other"


def upsert_class(hist):
    """Which part of the ON CONFLICT semantics of Relational.tla a behaviour exercises (signature material):
    'do_update_branch'         the last statement is ON CONFLICT (tgt) DO UPDATE and an existing row collides on tgt
    'conflict_on_other_key'    the last statement is ON CONFLICT (tgt) DO UPDATE, nothing collides on tgt but a row collides
                               on the other key (the model: an ordinary INSERT, refused)
    'after_do_update_branch'   an earlier statement of the history took the DO UPDATE branch
    ''                         none of these"""
    last = hist[-1]
    op = last["op"]
    if op["k"] == "upsert" and op["act"] == "update":
        pre = [tuple(r) for r in (hist[-2]["rows"] if len(hist) >= 2 else [])]
        r = tuple(op["row"])
        ti = 0 if op["tgt"] == "id" else 1
        oi = 1 - ti
        if any(x[ti] == r[ti] and r[ti] != N for x in pre):
            return "do_update_branch"
        if any(x[oi] == r[oi] and r[oi] != N for x in pre):
            return "conflict_on_other_key"
    if "after_upsert_update" in features(hist):
        return "after_do_update_branch"
    return ""


def features(hist):
    """spec-defined features of the last step, used in finding signatures"""
    last = hist[-1]
    op = last["op"]
    f = []
    prev_ops = [h["op"]["k"] for h in hist[:-1]]
    if "reopen" in prev_ops:
        f.append("after_reopen")
    if "delete" in prev_ops or "truncate" in prev_ops or any(h["op"]["k"] == "update" and h["op"]["c"] == "id" for h in hist[:-1]):
        f.append("after_delete")
    if any(h["op"]["k"] in ("rollback", "rollback_to") for h in hist[:-1]):
        f.append("after_rollback")
    for i, h in enumerate(hist[:-1]):
        if h["op"]["k"] == "upsert" and h["op"]["act"] == "update" and h["ok"] and i > 0 and len(h["rows"]) == len(hist[i - 1]["rows"]):
            f.append("after_upsert_update")       # an earlier ON CONFLICT .. DO UPDATE took its UPDATE branch
            break
    if last.get("intxn"):
        f.append("in_txn")
    if op["k"] == "insert" and len(op["rows"]) > 1:
        f.append("multi_row")
    if op["k"] == "upsert" and upsert_why(hist):
        f.append(upsert_why(hist))
    return f

"""Shared machinery of C28 (ordered map) and C29 (page structure): generation with TLC from BTreeMap.tla, replay on
the real BTree (harness subcommand btree-replay), evaluation of BTreeShape!WellFormed by TLC on the dumped trees.

Expected results, post-states and the key order come from TLC (MC_BTreeMap.tla); WellFormed verdicts come from TLC
(Trace_BTreeShape.tla).  This file renders, samples, runs and classifies.
"""
import os, json, random, re, collections, threading, subprocess
import vlib

HINTS = ["none", "fresh", "stale"]


# ----------------------------------------------------------------------------------------------- generation
def _split(emitted):
    uni = [e["u"] for e in emitted if "u" in e]
    if not uni:
        raise vlib.ToolError("TLC did not print the universe record")
    return uni[0], [e for e in emitted if "steps" in e]


def gen_bfs(cfgname, max_ops, workers=6):
    cfg = vlib.scratch() + "/" + cfgname
    c = open(os.path.join(vlib.SPEC, cfgname)).read()
    c = re.sub(r"MaxOps = \d+", "MaxOps = %d" % max_ops, c)
    open(cfg, "w").write(c)
    g = vlib.tlc_emit("MC_BTreeMap.tla", cfg, timeout=2400, workers=workers)
    uni, cases = _split(g["emitted"])
    return uni, cases, g["stats"]


def gen_walks(cfgname, num, seed, motif=None):
    """-simulate walks; with motif: only walks of that motif (one TLC run per motif, so that every motif the property
    names is present whatever the seed)"""
    c = open(os.path.join(vlib.SPEC, cfgname)).read()
    depth = int(re.search(r"MaxOps = (\d+)", c).group(1))
    cfg = os.path.join(vlib.SPEC, cfgname)
    if motif:
        cfg = vlib.scratch() + "/%s.%s.cfg" % (cfgname, motif)
        open(cfg, "w").write(re.sub(r"Motifs = \{[^}]*\}", 'Motifs = {"%s"}' % motif, c))
    g = vlib.tlc_emit("MC_BTreeMap.tla", cfg, timeout=2400, workers=1,
                      simulate="num=%d" % num, seed=seed, extra=["-depth", str(depth + 1)])
    uni, walks = _split(g["emitted"])
    if len(walks) != num:
        raise vlib.ToolError("TLC produced %d of %d walks (%s %s)" % (len(walks), num, cfgname, motif))
    for w in walks:
        if len(w["steps"]) != depth:
            raise vlib.ToolError("a walk has %d steps instead of %d" % (len(w["steps"]), depth))
        if motif and w["w"] != motif:
            raise vlib.ToolError("walk of motif %s in a run for %s" % (w["w"], motif))
    return uni, walks


def model_check(thorough):
    """the reference model checked against itself: scans/lookups/laws of a map, byte order (three TLC runs, concurrently)"""
    c = open(os.path.join(vlib.SPEC, "MC_BTreeMap.cfg")).read()
    if not thorough:
        c = c.replace("MaxOps = 3", "MaxOps = 2")
    cfgs = {"u6": (c, 4)}
    for name, nk, kb in (("u40", 40, "KB_U40"), ("u20", 20, "KB_U20")):
        cfgs[name] = (c.replace("NKeys = 6  KB <- KB_U6", "NKeys = %d  KB <- %s" % (nk, kb)).replace("Vals = {1, 3, 6, 8}", "Vals = {1}")
                      .replace("Preloads <- Pre_U6", "Preloads <- NoPreload").replace("MaxOps = 3", "MaxOps = 0").replace("MaxOps = 2", "MaxOps = 0")
                      .replace("INVARIANTS TypeOK ScansConsistent MapLaws OrderOk PreloadsOk", "INVARIANTS TypeOK ScansConsistent OrderOk"), 1)
    res = {}

    def one(name):
        try:
            p = vlib.scratch() + "/MC_BTreeMap_%s.cfg" % name
            open(p, "w").write(cfgs[name][0])
            r = vlib.run_tlc("MC_BTreeMap.tla", p, workers=cfgs[name][1], timeout=2400)
            vlib.tlc_ok(r, "MC_BTreeMap " + name)
            if r["violated"]:
                raise vlib.ToolError("the reference model BTreeMap (%s) violates its own invariants: %s" % (name, r["violated"]))
            res[name] = r["stats"]
        except Exception as e:  # noqa
            res[name] = e
    ths = [threading.Thread(target=one, args=(n,)) for n in cfgs]
    [t.start() for t in ths]; [t.join() for t in ths]
    for v in res.values():
        if isinstance(v, Exception):
            raise v
    return res


# ----------------------------------------------------------------------------------------------- replay
def replay(cases, uni, tag, procs=4, jobs=3, maxfaildumps=2):
    """-> (results by id, list of dumped trees).  Cases are spread over several harness processes (a process with many
    threads is slowed down by mmap/munmap contention)."""
    d = vlib.scratch()
    upath = os.path.join(d, "uni_%s.json" % tag)
    json.dump(uni, open(upath, "w"))
    parts = [cases[i::procs] for i in range(procs)]
    outs, errs, ths = [], [], []

    def work(i, part):
        inp, outp, tp = [os.path.join(d, "%s_%s_%d.ndjson" % (tag, k, i)) for k in ("in", "out", "trees")]
        vlib.write_ndjson(inp, part)
        try:
            rc, out = vlib.sh([vlib.VH, "btree-replay", "--in", inp, "--out", outp, "--universe", upath, "--trees", tp, "--jobs", str(jobs),
                               "--maxfaildumps", str(maxfaildumps)], timeout=3000,
                              env={"VERIF_SCRATCH": os.path.join(d, "vh_%s_%d" % (tag, i))})
            if rc != 0:
                raise vlib.ToolError("harness failed (%d): %s" % (rc, out[-2000:]))
            outs.append((vlib.read_ndjson(outp), vlib.read_ndjson(tp)))
        except Exception as e:  # noqa
            errs.append(e)
    for i, part in enumerate(parts):
        if part:
            t = threading.Thread(target=work, args=(i, part)); t.start(); ths.append(t)
    [t.join() for t in ths]
    if errs:
        raise errs[0] if isinstance(errs[0], vlib.ToolError) else vlib.ToolError("replay: %r" % errs[0])
    res, trees = {}, []
    for r, t in outs:
        for x in r:
            res[x["id"]] = x
        trees += t
    if len(res) != len(cases):
        raise vlib.ToolError("harness answered %d of %d cases" % (len(res), len(cases)))
    return res, trees


def tlc_shape(trees, procs=4):
    """TLC evaluates BTreeShape!Failed on every dumped tree -> {tree id: sorted list of failed clauses}"""
    if not trees:
        return {}
    d = vlib.scratch()
    # identical trees (many enumerated cases end in the same pages) are judged once
    by_content, alias = {}, {}
    for t in trees:
        key = json.dumps(t["tree"], sort_keys=True)
        if key in by_content:
            alias[t["id"]] = by_content[key]["id"]
        else:
            by_content[key] = t
    uniq = list(by_content.values())
    parts = [uniq[i::procs] for i in range(procs)]
    verdicts, errs, ths = {}, [], []

    def work(i, part):
        tp = os.path.join(d, "shape_trace_%d.ndjson" % i)
        vlib.write_ndjson(tp, [{"id": t["id"], "tree": t["tree"]} for t in part])
        try:
            r = vlib.run_tlc("Trace_BTreeShape.tla", os.path.join(vlib.SPEC, "Trace_BTreeShape.cfg"), workers=1, timeout=2400,
                             env={"TRACE": tp, "JAVA_TOOL_OPTIONS": "-Xss512m -Dtlc2.tool.queue.IStateQueue=StateDeque"})
            vlib.tlc_ok(r, "Trace_BTreeShape")
            vs = vlib.parse_emitted(r["out"])
            if len(vs) != len(part):
                raise vlib.ToolError("Trace_BTreeShape judged %d of %d trees:\n%s" % (len(vs), len(part), r["out"][-1500:]))
            for v in vs:
                verdicts[v["id"]] = sorted(v["failed"])
        except Exception as e:  # noqa
            errs.append(e)
    for i, part in enumerate(parts):
        if part:
            t = threading.Thread(target=work, args=(i, part)); t.start(); ths.append(t)
    [t.join() for t in ths]
    if errs:
        raise errs[0] if isinstance(errs[0], vlib.ToolError) else vlib.ToolError("tlc_shape: %r" % errs[0])
    for tid, rep in alias.items():
        verdicts[tid] = verdicts[rep]
    verdicts["#distinct"] = len(uniq)
    return verdicts


# ----------------------------------------------------------------------------------------------- the common run
def class_key(c):
    last = c["steps"][-1]
    r = last["r"]
    rk = r if isinstance(r, (str, bool)) else ("scan%d" % min(len(r), 3) if isinstance(r, list) and (not r or isinstance(r[0], list)) else "val")
    return (c.get("pre"), last["o"], str(rk), min(len(last["post"]), 4), last["mayrefuse"])


def pipeline(chk, want_shape_tlc):
    """Generates, replays and (optionally) lets TLC judge the dumped trees.  -> dict"""
    thorough = chk.tier == "thorough"
    rng = random.Random(chk.seed)
    vlib.scratch()          # created before any thread asks for it
    vlib.build_harness(); chk.mark("build")
    groups = []   # (tag, universe, cases)
    gstats = {}
    # --- all generators run concurrently (TLC is the slow part)
    walks_cfg = [("u40", "Gen_BTreeMap_walk40.cfg", {"sorted": 6, "reverse": 6, "random": 6, "eqprefix": 6} if thorough else {"sorted": 2, "reverse": 2, "random": 2, "eqprefix": 2}),
                 ("u20", "Gen_BTreeMap_walk20.cfg", {"deep": 6, "reverse": 5, "random": 5} if thorough else {"deep": 2, "reverse": 1, "random": 1})]
    got = {}

    def job(name, f, *a, **kw):
        def g():
            try:
                got[name] = f(*a, **kw)
            except Exception as e:  # noqa
                got[name] = e
        t = threading.Thread(target=g); t.start()
        return t
    ths = [job("bfs", gen_bfs, "Gen_BTreeMap_bfs.cfg", 3 if thorough else 2, workers=6),
           job("big", gen_bfs, "Gen_BTreeMap_big.cfg", 4, workers=2),
           job("full", gen_bfs, "Gen_BTreeMap_full.cfg", 3, workers=2)]
    ths += [job(tag + ":" + mo, gen_walks, cfg, n, chk.seed, mo) for tag, cfg, motifs in walks_cfg for mo, n in motifs.items()]
    [t.join() for t in ths]
    for k, v in got.items():
        if isinstance(v, Exception):
            raise v if isinstance(v, vlib.ToolError) else vlib.ToolError("generator %s: %r" % (k, v))
    # --- per-transition enumeration over U6 from every preload
    uni6, bfs, st = got["bfs"]
    gstats["bfs"] = dict(st, emitted=len(bfs))
    if not thorough:
        bfs = vlib.stratified_sample(bfs, class_key, 9000, rng)
    elif len(bfs) > 40000:
        bfs = vlib.stratified_sample(bfs, class_key, 40000, rng)
    for i, c in enumerate(bfs):
        c["hint"] = HINTS[i % 3]
        c["store"] = "mmap" if i % 12 == 0 else "mem"
        c["dump"] = "last" if i % (4 if thorough else 12) == 0 else "none"
    groups.append(("u6", uni6, bfs))
    # --- cells that are not SplitSafe
    unib, big, st = got["big"]
    gstats["big"] = dict(st, emitted=len(big))
    for i, c in enumerate(big):
        c["hint"] = HINTS[i % 3]; c["store"] = "mem"; c["dump"] = "last" if i % (4 if thorough else 20) == 0 else "none"
    groups.append(("ubig", unib, big))
    # --- a full root interior page (six children): inserts that split the child at every position, then the interior page
    unif, full, st = got["full"]
    gstats["full"] = dict(st, emitted=len(full))
    if not thorough:
        # the third insert into one leaf's key range is what splits; keep every such case and a sample of the others
        def third(c):
            ks = sorted(x["k"] for x in c["steps"][-3:]) if len(c["steps"]) >= 21 else []
            return len(ks) == 3 and ks[2] - ks[0] <= 6
        full = [c for c in full if third(c)] + vlib.stratified_sample([c for c in full if not third(c)], lambda c: len(c["steps"]), 600, rng)
    for i, c in enumerate(full):
        c["hint"] = HINTS[i % 3]; c["store"] = "mem"; c["dump"] = "last" if (thorough or i % 3 == 0) else "none"
    groups.append(("ufull", unif, full))
    # --- walks, each under the three hint modes
    for tag, cfg, motifs in walks_cfg:
        uni = got[tag + ":" + next(iter(motifs))][0]
        walks = [w for mo in motifs for w in got[tag + ":" + mo][1]]
        cs = []
        for wi, w in enumerate(walks):
            for hi, h in enumerate(HINTS):
                cs.append({"w": w["w"], "steps": w["steps"], "hint": h, "store": "mmap",
                           "dump": "all" if hi == wi % 3 and (thorough or wi % 2 == 0) else "every:%d" % (5 if thorough else 12)})
        groups.append((tag, uni, cs))
        gstats[tag] = {"walks": len(walks), "steps": sum(len(w["steps"]) for w in walks), "motifs": dict(collections.Counter(w["w"] for w in walks))}
    chk.mark("tlc_gen")
    # --- ids, replay
    nid = 0
    for tag, uni, cs in groups:
        for c in cs:
            c["id"] = nid; c["grp"] = tag; nid += 1
    results, trees, cases = {}, [], {}
    for tag, uni, cs in groups:
        r, t = replay(cs, uni, tag, procs=4, jobs=3)
        results.update(r); trees += t
        for c in cs:
            cases[c["id"]] = c
    chk.mark("replay")
    verdicts = {}
    if want_shape_tlc:
        verdicts = tlc_shape(trees, procs=6)
        chk.mark("tlc_shape")
    return {"groups": groups, "cases": cases, "results": results, "trees": trees, "verdicts": verdicts, "gstats": gstats,
            "universes": {tag: uni for tag, uni, _ in groups}}


def nonvacuity(P):
    """classes the properties name must have been exercised; counts for the evidence"""
    res = P["results"]; cases = P["cases"]
    cnt = collections.Counter()
    for cid, r in res.items():
        c = cases[cid]
        s = r["stats"]
        cnt["cases"] += 1
        cnt["steps_executed"] += r["executed"]
        if s["depth"] >= 2: cnt["cases_with_leaf_split"] += 1
        if s["depth"] >= 3: cnt["cases_with_interior_split"] += 1
        if s["depth"] >= 3 and c.get("grp") == "ufull": cnt["cases_splitting_a_full_root_interior_page"] += 1
        if s["empty_leaf_steps"] > 0: cnt["cases_with_emptied_leaf"] += 1
        if s["max_leaf_cells"] >= 8: cnt["cases_with_8plus_cells_in_a_leaf"] += 1
        if s["fastpath_hits"] > 0: cnt["cases_taking_the_hint_fastpath"] += 1
        cnt["hint_" + c["hint"]] += 1
        cnt["refusals_followed_by_caller_fallback"] += r["refusals"]
        cnt["repairs_to_model_state"] += r["repairs"]
        if r["status"].startswith("abandoned"): cnt["abandoned"] += 1
        if r["status"].startswith("ended_mayfail"): cnt["ended_at_admissible_failure"] += 1
        for st in c["steps"][:r["executed"]]:
            cnt["op_" + st["o"]] += 1
    need = ["cases_with_leaf_split", "cases_with_interior_split", "cases_with_emptied_leaf", "cases_with_8plus_cells_in_a_leaf",
            "cases_taking_the_hint_fastpath", "cases_splitting_a_full_root_interior_page", "hint_none", "hint_fresh", "hint_stale", "op_ins", "op_ifabs", "op_app", "op_upd", "op_del",
            "op_get", "op_fwd", "op_back"]
    missing = [k for k in need if cnt[k] == 0]
    if missing:
        raise vlib.ToolError("classes named by the property were never exercised: %s" % missing)
    if cnt["abandoned"] > 0.5 * cnt["cases"]:
        raise vlib.ToolError("more than half of the behaviours were abandoned: the check lost its coverage")
    return dict(cnt)


def errnorm(obs):
    if isinstance(obs, dict):
        m = obs.get("err") or obs.get("panic") or ""
        return re.sub(r"\d+", "N", m)[:80].strip().replace(" ", "_")
    return ""


def case_brief(c, upto=None):
    steps = c["steps"] if upto is None else c["steps"][:upto + 1]
    return {"grp": c["grp"], "hint": c["hint"], "pre": c.get("pre"), "motif": c.get("w"),
            "ops": [[s["o"], s["k"], s["v"]] for s in steps]}

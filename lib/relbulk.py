"""C43 plumbing: RelBulk.tla behaviours -> harness cases (rel-run) -> comparison with the outcomes TLC admits.

TLC (RelBulk.tla) states for every step the set of admissible outcomes, each with the table in COMPACT form
(progressions + exceptional rows) and the expected answers of the observation queries (lookups by id / a, counts by b,
COUNT(*), probes). This module decompresses progressions (Row(id) = <id, A(id), B(id)> - the only two formulas that are
mirrored from the spec, cross-checked against rows TLC prints), renders, runs and compares."""
import json
import reldl
from reldl import N, lit

DDL = {
    "plain": ["CREATE TABLE t (id INT, a INT, b INT)"],
    "pk": ["CREATE TABLE t (id INT PRIMARY KEY, a INT, b INT)"],
    "uniq": ["CREATE TABLE t (id INT PRIMARY KEY, a INT UNIQUE, b INT)"],
    "idx": ["CREATE TABLE t (id INT PRIMARY KEY, a INT, b INT)", "CREATE INDEX t_b ON t (b)"],
    "nn": ["CREATE TABLE t (id INT PRIMARY KEY, a INT, b INT NOT NULL)"],
    "all": ["CREATE TABLE t (id INT PRIMARY KEY, a INT UNIQUE, b INT NOT NULL)", "CREATE INDEX t_b ON t (b)"],
    "ai": ["CREATE TABLE t (id INT PRIMARY KEY AUTO_INCREMENT, a INT, b INT)"],
}
INS3 = "INSERT INTO t VALUES (?, ?, ?)"


def A(i):
    return N if i % 10 == 5 else i + 1000000


def B(i):
    return i % 3


def row(i):
    return [i, A(i), B(i)]


def expand(segs, extra):
    out = []
    for g in segs:
        minus = set(g["minus"])
        for k in range(g["c"]):
            i = g["s"] + k * g["st"]
            if i not in minus:
                out.append(row(i))
    out += [list(r) for r in extra]
    return reldl.sorted_rows(out)


def batch_rows(op):
    """the rows of a bulk step in presented order (model values, NULL = -99)"""
    if op["k"] == "bulk_ai":
        n, far, x, first = op["n"], op["far"], op["x"], op["first"]
        ids = [first + i for i in range(n)] if far == 0 else [first, x] + [x + i for i in range(1, n - 1)]
        return [[(x if (far == 2 and p == 1) else N), A(i), B(i)] for p, i in enumerate(ids)]
    d, base = op["d"], op["base"]
    sp = {s["p"]: s["row"] for s in op["specials"]}
    rows = []
    for p in range(1, d["n"] + 1):
        logical = p if d["ord"] == "asc" else d["n"] + 1 - p
        r = row(base + (logical - 1) * d["st"])
        if p in sp:
            if p not in (d["dupAt"], d["nullAt"]) and sp[p] != r:
                raise ValueError("renderer and spec disagree on the row at position %d: %s vs %s" % (p, sp[p], r))
            r = list(sp[p])
        rows.append(r)
    return rows


def hval(v):
    return None if v == N else v


def step_ops(st, api_override=None):
    op = st["op"]
    k = op["k"]
    if k in ("bulk", "bulk_ai"):
        rows = [[hval(x) for x in r] for r in batch_rows(op)]
        return [{"k": "bulk", "api": api_override or op["api"], "table": "t", "schema": "root", "sql": INS3, "rows": rows}]
    if k == "ins1":
        r = op["row"]
        if op["gen"]:
            return [{"k": "exec", "sql": "INSERT INTO t (a, b) VALUES (%s, %s)" % (lit(r[1]), lit(r[2]))}]
        return [{"k": "exec", "sql": "INSERT INTO t VALUES (%s)" % ", ".join(lit(x) for x in r)}]
    if k == "insdup":
        return [{"k": "exec", "sql": "INSERT INTO t VALUES (%s)" % ", ".join(lit(x) for x in op["row"])}]
    if k == "del1":
        return [{"k": "exec", "sql": "DELETE FROM t WHERE id = %d" % op["id"]}]
    if k == "deltail":
        return [{"k": "exec", "sql": "DELETE FROM t WHERE id >= %d" % op["x"]}]
    if k == "upd1":
        return [{"k": "exec", "sql": "UPDATE t SET b = 9 WHERE id = %d" % op["id"]}]
    if k == "reopen":
        return [{"k": "reopen"}]
    if k in ("begin", "commit", "rollback"):
        return [{"k": "exec", "sql": k.upper()}]
    raise ValueError(k)


def describe_step(st, api_override=None):
    op = st["op"]
    if op["k"] == "bulk":
        d = op["d"]
        return "%s(n=%d step=%d %s%s%s base=%d)" % (api_override or op["api"], d["n"], d["st"], d["ord"],
                                                   " dup:%s@%d" % (d["dupKind"], d["dupAt"]) if d["dupAt"] else "",
                                                   " null@%d" % d["nullAt"] if d["nullAt"] else "", op["base"])
    if op["k"] == "bulk_ai":
        return "%s(n=%d ids generated%s)" % (api_override or op["api"], op["n"], ", explicit %d at 2" % op["x"] if op["far"] else "")
    o = step_ops(st)[0]
    return o.get("sql", o["k"])


def describe(hist, api_override=None):
    return "[%s] " % hist[0]["tv"] + "; ".join(describe_step(s, api_override if i == len(hist) - 1 else None) for i, s in enumerate(hist))


SCAN = "SELECT id, a, b FROM t"


def cont_of(st):
    return [o for o in st["outs"] if o["kind"] == st["cont"]][0]


def render(cid, hist, api_override=None):
    """-> (case, layout). layout records where each result sits."""
    ops = [{"k": "exec", "sql": s} for s in DDL[hist[0]["tv"]]]
    lay = {"steps": [], "obs": {}}
    for i, st in enumerate(hist):
        last = i == len(hist) - 1
        at = len(ops)
        ops += step_ops(st, api_override if last else None)
        scan_at = len(ops)
        ops.append({"k": "query", "sql": SCAN})
        lay["steps"].append((at, scan_at))
    # observation of the state after the last step: union of what any admissible outcome wants to see
    last = hist[-1]
    ids = sorted({x["v"] for o in last["outs"] for x in o["obs"]["byid"]})
    avs = sorted({x["v"] for o in last["outs"] for x in o["obs"]["bya"]})
    def q(name, sql):
        lay["obs"][name] = len(ops)
        ops.append({"k": "query", "sql": sql})
    q("count", "SELECT COUNT(*) FROM t")
    for v in ids:
        q("byid:%d" % v, "SELECT id, a, b FROM t WHERE id = %d" % v)
    for v in avs:
        q("bya:%d" % v, "SELECT id, a, b FROM t WHERE a = %d" % v)
    for v in (0, 1, 2, 9):
        q("byb:%d" % v, "SELECT id, a, b FROM t WHERE b = %d" % v)
    q("bnull", "SELECT id, a, b FROM t WHERE b IS NULL")
    # probes: all outcomes of one step share probe names; rows may differ per outcome -> take them from the continuing outcome
    c = cont_of(last)
    lay["probes"] = []
    for pr in sorted(c["obs"]["probes"], key=lambda p: p["name"]):
        lay["probes"].append((pr["name"], len(ops)))
        lay.setdefault("probe_rows", {})[pr["name"]] = list(pr["row"])
        ops.append({"k": "exec", "sql": "INSERT INTO t VALUES (%s)" % ", ".join(lit(x) for x in pr["row"])})
    if hist[0]["tv"] == "ai":
        lay["probes"].append(("next_ai", len(ops)))
        ops.append({"k": "exec", "sql": "INSERT INTO t (a, b) VALUES (424242, 1) RETURNING id"})
    return {"id": cid, "ops": ops}, lay


def api_result(r, per_row):
    """-> (ok, n, nerr) as the model states it, or None after a panic"""
    if r is None or "panic" in r:
        return None
    if "err" in r:
        return (False, None, None)
    o = r["ok"]
    if o.get("type") == "bulk":
        if per_row:
            return (True, o["n"], o["nerr"])
        return (True, o["n"], 0)
    return (True, o.get("n", 0), 0)


def match_result(obs, o, st, per_row):
    """does the reported result agree with outcome o"""
    ok, n, nerr = obs
    k = st["op"]["k"]
    if k in ("begin", "commit", "rollback", "reopen"):
        return ok == o["ok"]
    if ok != o["ok"]:
        return False
    if not ok:
        return True            # an error carries no count
    if per_row:
        return n == o["n"] and nerr == o["nerr"]
    return n == o["n"]


def compare(hist, lay, res, per_row_last=False):
    """-> dict(kind=..., ...) list describing how the observation differs from EVERY admissible outcome of the last step;
    [] when one outcome matches completely. A prefix that does not follow the model gives [{'kind':'prefix_diverged'}]."""
    if not res or any("fatal" in r for r in res[:1]):
        return [{"kind": "fatal", "detail": json.dumps(res[:1])[:200]}]
    nddl = len(DDL[hist[0]["tv"]])
    for r in res[:nddl]:
        if "ok" not in r:
            return [{"kind": "fatal", "detail": "schema: " + json.dumps(r)[:200]}]
    # prefix
    for i, st in enumerate(hist[:-1]):
        at, scan_at = lay["steps"][i]
        if scan_at >= len(res):
            return [{"kind": "prefix_diverged", "at": i, "detail": "not executed (panic earlier)"}]
        o = cont_of(st)
        per_row = st["op"].get("api") == "insert_cached"
        ar = api_result(res[at], per_row)
        if ar is None or not match_result(ar, o, st, per_row):
            return [{"kind": "prefix_diverged", "at": i, "detail": "result %s" % json.dumps(res[at])[:120]}]
        rows = reldl.rows_of(res[scan_at])
        if rows is None or reldl.sorted_rows(rows) != expand(o["segs"], o["extra"]):
            return [{"kind": "prefix_diverged", "at": i, "detail": "visible rows differ from the model"}]
    st = hist[-1]
    at, scan_at = lay["steps"][-1]
    if at >= len(res):
        return [{"kind": "prefix_diverged", "at": len(hist) - 1, "detail": "not executed"}]
    if "panic" in res[at]:
        return [{"kind": "panic", "detail": res[at]["panic"][:200]}]
    ar = api_result(res[at], per_row_last)
    def get(i):
        return res[i] if i < len(res) else None
    scan = reldl.rows_of(get(scan_at))
    obs = {"scan": reldl.sorted_rows(scan) if scan is not None else "err:" + json.dumps(get(scan_at))[:100]}
    for name, i in lay["obs"].items():
        r = get(i)
        rows = reldl.rows_of(r)
        obs[name] = reldl.sorted_rows(rows) if rows is not None else ("panic" if r and "panic" in r else "err:" + json.dumps(r)[:100])
    probes = {}
    for name, i in lay["probes"]:
        r = get(i)
        probes[name] = None if r is None else ("panic" if "panic" in r else ("ok" in r, r))
    best = None
    for o in sorted(st["outs"], key=lambda o: (o["kind"] != st["cont"], o["kind"])):
        d = diff_outcome(st, o, ar, obs, probes, per_row_last, hist, lay.get("probe_rows", {}))
        if not d:
            return []
        # prefer explaining against an outcome that agrees on error / no error
        score = (0 if (ar and ar[0] == o["ok"]) else 1, len(d))
        if best is None or score < best[0]:
            best = (score, d, o["kind"])
    for x in best[1]:
        x["against"] = best[2]
    return best[1]


def diff_outcome(st, o, ar, obs, probes, per_row, hist, probe_rows):
    """Differences between the observation and ONE admissible outcome. Blame is localised: when the visible rows are not
    the outcome's rows, that is the divergence (which refused row was stored / what is missing), and lookups and COUNT(*)
    are then judged against the rows the SAME database shows in its scan (index path vs scan path); only when the visible
    rows are the outcome's rows are result, COUNT(*) and lookups judged against the numbers TLC printed."""
    d = []
    tv = hist[0]["tv"]
    want = expand(o["segs"], o["extra"])
    scan_ok = obs["scan"] == want
    eo = o["obs"]
    if not scan_ok:
        if isinstance(obs["scan"], str):
            return [{"kind": "scan_error", "detail": obs["scan"]}]
        ws, os_ = {json.dumps(r) for r in want}, {json.dumps(r) for r in obs["scan"]}
        extra_rows = [json.loads(x) for x in sorted(os_ - ws)]
        missing = [json.loads(x) for x in sorted(ws - os_)]
        d.append({"kind": "scan", "unexpected_rows": extra_rows[:6], "missing_rows": missing[:6], "n_unexpected": len(extra_rows), "n_missing": len(missing),
                  "n_expected": len(want), "n_observed": len(obs["scan"]), "duplicates_of_same_row": len(obs["scan"]) != len(os_),
                  "refused": refused_classes(st, extra_rows), "null_id": any(r[0] == N for r in extra_rows),
                  # generated ids apart, are these the expected rows? (AUTO_INCREMENT table: blame the missing generation only)
                  "same_but_for_null_ids": sorted(json.dumps(r[1:]) for r in want) == sorted(json.dumps(r[1:]) for r in obs["scan"])
                                           and all(r[0] == N or r in want for r in obs["scan"])})
    else:
        if not match_result(ar, o, st, per_row):
            d.append({"kind": "result", "expected": [o["ok"], o["n"], o["nerr"]], "observed": list(ar)})
    scan = obs["scan"]
    def sel(f):
        return reldl.sorted_rows([r for r in scan if f(r)])
    if obs["count"] != [[len(scan)]]:
        d.append({"kind": "count", "visible": len(scan), "observed": obs["count"] if isinstance(obs["count"], str) else obs["count"][:1]})
    col = {"id": 0, "a": 1, "b": 2}
    for by, key in (("id", "byid"), ("a", "bya")):
        for x in eo[key]:
            got = obs.get("%s:%d" % (key, x["v"]))
            exp = sel(lambda r: r[col[by]] == x["v"])
            if got != exp:
                d.append({"kind": "lookup", "by": by, "v": x["v"], "expected": exp[:4], "observed": got if isinstance(got, str) else got[:4],
                          "n_expected": len(exp), "n_observed": None if isinstance(got, str) else len(got)})
    for x in eo["byb"]:
        got = obs.get("byb:%d" % x["v"])
        exp = sel(lambda r: r[2] == x["v"])
        if got != exp:
            d.append({"kind": "lookup", "by": "b", "v": x["v"], "n_expected": len(exp), "n_observed": None if isinstance(got, str) else len(got),
                      "observed": got if isinstance(got, str) else None})
        elif scan_ok and len(exp) != x["n"]:
            raise ValueError("renderer and spec disagree on the number of rows with b = %s: %d vs %d" % (x["v"], len(exp), x["n"]))
    got = obs.get("bnull")
    exp = sel(lambda r: r[2] == N)
    if got != exp:
        d.append({"kind": "lookup", "by": "b", "v": "NULL", "n_expected": len(exp), "n_observed": None if isinstance(got, str) else len(got), "observed": got if isinstance(got, str) else None})
    if scan_ok and eo["count"] != len(scan):
        raise ValueError("renderer and spec disagree on the number of rows: %d vs %d" % (len(scan), eo["count"]))
    # probes: statements executed after the observation; judged against the model (their target rows are in the table
    # whenever the visible rows contain the outcome's rows)
    for pr in eo["probes"]:
        p = probes.get(pr["name"])
        if probe_rows.get(pr["name"]) != list(pr["row"]):
            continue            # the probe that was executed was computed for another outcome
        if pr["name"] == "fresh" and isinstance(scan, list) and any(r[0] == pr["row"][0] for r in scan):
            continue            # the table holds rows the model does not: "fresh" is not fresh, the scan divergence says so
        if p is None or p == "panic":
            d.append({"kind": "probe", "name": pr["name"], "expected_ok": pr["ok"], "observed": "panic" if p == "panic" else "not executed"})
        elif p[0] != pr["ok"]:
            d.append({"kind": "probe", "name": pr["name"], "expected_ok": pr["ok"], "observed": json.dumps(p[1])[:140]})
    if tv == "ai":
        p = probes.get("next_ai")
        want_id = hist[-1]["ai"]
        got_id = None
        if p and p != "panic" and p[0]:
            rows = p[1]["ok"].get("rows") or []
            got_id = rows[0][0] if rows and rows[0] else None
        if got_id != want_id:
            d.append({"kind": "probe", "name": "next_ai", "expected": want_id, "observed": got_id if got_id is not None else (json.dumps(p[1])[:140] if p and p != "panic" else str(p))})
    return d


def refused_classes(st, rows):
    """which refused special rows of the batch were stored nevertheless (names from the descriptor)"""
    op = st["op"]
    if op["k"] != "bulk":
        return []
    d = op["d"]
    out = set()
    bad = set(op.get("bad", []))
    sp = {s["p"]: s["row"] for s in op["specials"]}
    for p in bad:
        if list(sp.get(p, [])) in [list(r) for r in rows]:
            out.add(d["dupKind"] if p == d["dupAt"] else "null_in_not_null")
    return sorted(out)

"""C21 plumbing: RelDDL.tla behaviours -> harness cases (rel-run) -> comparison with the post-state TLC printed.

TLC states for every step: result (ok / err, affected rows), the complete post-state (schemas, tables with their ordered
columns and flags, rows, named indexes) and the answers of lookups through every column. This module renders the
statements, asks TurDB for the same things (SELECT * with column names, COUNT(*), lookups, the catalog as the shipped
CLI prints it with .schema / .indexes, a probe for the schema) and compares. Values: NULL = -99."""
import json, re
import reldl
from reldl import N, lit

DECL = {"V1": "(id INT PRIMARY KEY, a INT UNIQUE, b INT NOT NULL, c INT DEFAULT 7)", "V2": "(id INT PRIMARY KEY, z INT)"}
SETUP = {"empty": [], "t2": ["CREATE TABLE t " + DECL["V1"], "INSERT INTO t VALUES (1, 10, 100, 1000)", "INSERT INTO t (id, a, b) VALUES (2, 20, 200)"]}
TKS = ["root.t", "s1.t"]


def tname(tk):
    return "t" if tk == "root.t" else "s1.t"


def step_ops(st):
    op, tk = st["op"], st["tk"]
    k = op["k"]
    t = tname(tk) if tk in TKS else None
    if k == "create_schema":
        return [{"k": "exec", "sql": "CREATE SCHEMA s1"}]
    if k == "drop_schema":
        return [{"k": "exec", "sql": "DROP SCHEMA s1"}]
    if k == "create_table":
        return [{"k": "exec", "sql": "CREATE TABLE %s %s" % (t, DECL[op["v"]])}]
    if k == "drop_table":
        return [{"k": "exec", "sql": "DROP TABLE %s" % t}]
    if k == "truncate":
        return [{"k": "exec", "sql": "TRUNCATE TABLE %s" % t}]
    if k == "create_index":
        return [{"k": "exec", "sql": "CREATE %sINDEX %s ON %s (%s)" % ("UNIQUE " if op["uq"] else "", op["name"], t, op["col"])}]
    if k == "drop_index":
        return [{"k": "exec", "sql": "DROP INDEX %s" % op["name"]}]
    if k == "alter_add":
        return [{"k": "exec", "sql": "ALTER TABLE %s ADD COLUMN d INT%s" % (t, "" if op["dflt"] == N else " DEFAULT %d" % op["dflt"])}]
    if k == "alter_drop":
        return [{"k": "exec", "sql": "ALTER TABLE %s DROP COLUMN %s" % (t, op["col"])}]
    if k == "alter_rename":
        return [{"k": "exec", "sql": "ALTER TABLE %s RENAME COLUMN %s TO %s" % (t, op["col"], op["new"])}]
    if k == "insert":
        cols, vals = op["cols"], op["vals"]
        if not cols:
            return [{"k": "exec", "sql": "INSERT INTO %s VALUES (%d, %d)" % (t, op["i"], 10 * op["i"])}]
        if op["form"] == "omit" and len(cols) > 1:
            return [{"k": "exec", "sql": "INSERT INTO %s (%s) VALUES (%s)" % (t, ", ".join(cols[:-1]), ", ".join(lit(v) for v in vals[:-1]))}]
        return [{"k": "exec", "sql": "INSERT INTO %s VALUES (%s)" % (t, ", ".join(lit(v) for v in vals))}]
    if k == "update":
        return [{"k": "exec", "sql": "UPDATE %s SET %s = %d WHERE %s = %s" % (t, op["col"], op["v"], op["wcol"], lit(op["wval"]))}]
    if k == "delete":
        return [{"k": "exec", "sql": "DELETE FROM %s WHERE %s = %s" % (t, op["wcol"], lit(op["wval"]))}]
    if k == "reopen":
        return [{"k": "reopen"}]
    raise ValueError(k)


def describe(hist, start="t2"):
    return "[start=%s] " % start + "; ".join(step_ops(s)[0].get("sql", "reopen") for s in hist)


def has_s1(hist):
    return "s1.t" in hist[0]["cont"]["tabs"]


def render(cid, hist, start="t2", with_s1=None):
    with_s1 = has_s1(hist) if with_s1 is None else with_s1
    ops = [{"k": "exec", "sql": s} for s in SETUP[start]]
    lay = {"nsetup": len(ops), "steps": [], "sel": {}, "obs": {}}
    tks = TKS if with_s1 else TKS[:1]
    for i, st in enumerate(hist):
        at = len(ops)
        ops += step_ops(st)
        if i < len(hist) - 1:
            sel = {}
            for tk in tks:
                sel[tk] = len(ops)
                ops.append({"k": "exec", "sql": "SELECT * FROM %s" % tname(tk)})
            lay["steps"].append((at, sel))
        else:
            lay["steps"].append((at, None))
    post = hist[-1]["cont"]
    posts = [post] + [p for p in hist[-1]["ref"]] + (list(hist[-1]["alts"].values()) if isinstance(hist[-1]["alts"], dict) else [])
    def q(name, op):
        lay["obs"][name] = len(ops)
        ops.append(op)
    for tk in tks:
        q("sel:" + tk, {"k": "exec", "sql": "SELECT * FROM %s" % tname(tk)})
        q("count:" + tk, {"k": "query", "sql": "SELECT COUNT(*) FROM %s" % tname(tk)})
        q("schema:" + tk, {"k": "dot", "cmd": ".schema %s" % tk})
    q("indexes", {"k": "dot", "cmd": ".indexes"})
    seen = set()
    for p in posts:
        for lk in p["lookups"]:
            key = "lk:%s:%s:%d" % (lk["tk"], lk["col"], lk["v"])
            if key not in seen:
                seen.add(key)
                q(key, {"k": "query", "sql": "SELECT * FROM %s WHERE %s = %d" % (tname(lk["tk"]), lk["col"], lk["v"])})
    if with_s1:
        q("schema_probe", {"k": "exec", "sql": "CREATE SCHEMA s1"})       # last: it changes the catalog
    return {"id": cid, "ops": ops}, lay


def parse_schema(text):
    """'.schema t' output -> list of dict(name, nn, pk, uq, dflt)"""
    cols = []
    for line in text.splitlines():
        m = re.match(r"^\s+(\w+)\s+(\w+(?:\s+PRECISION)?)(.*?),?$", line)
        if not m:
            continue
        rest = m.group(3)
        d = re.search(r"DEFAULT\s+(\S+)", rest)
        dv = N
        if d:
            try:
                dv = int(d.group(1).rstrip(","))
            except ValueError:
                dv = d.group(1)
        cols.append({"name": m.group(1), "type": m.group(2), "nn": "NOT NULL" in rest, "pk": "PRIMARY KEY" in rest, "uq": "UNIQUE" in rest, "dflt": dv})
    return cols


def parse_indexes(text):
    out = []
    for line in text.splitlines():
        m = re.match(r"^(UNIQUE )?INDEX (\S+) ON (\S+) \((.*)\)$", line.strip())
        if m:
            out.append({"name": m.group(2), "table": m.group(3), "cols": [c.strip() for c in m.group(4).split(",")], "uq": bool(m.group(1))})
    return out


def sel_result(r):
    """exec SELECT * -> ('ok', columns, sorted rows) | ('err', msg) | ('panic', msg)"""
    if r is None:
        return ("missing",)
    if "panic" in r:
        return ("panic", r["panic"][:160])
    if "err" in r:
        return ("err", r["err"][:160])
    o = r["ok"]
    return ("ok", o.get("columns", []), reldl.sorted_rows([[reldl.val(x) for x in row] for row in o.get("rows", [])]))


def diff_table(tk, exp, got):
    """exp: model table record; got: sel_result"""
    d = []
    if not exp["ex"]:
        if got[0] == "ok":
            d.append({"kind": "table_exists", "tk": tk, "expected": "no such table", "observed": {"columns": got[1], "rows": got[2][:4]}})
        elif got[0] != "err":
            d.append({"kind": "select_failed", "tk": tk, "observed": list(got)})
        return d
    if got[0] != "ok":
        d.append({"kind": "table_missing" if got[0] == "err" else "select_failed", "tk": tk, "observed": list(got)})
        return d
    names = [c["name"] for c in exp["cols"]]
    rows = reldl.sorted_rows([list(r) for r in exp["rows"]])
    if got[1] != names:
        d.append({"kind": "columns", "tk": tk, "expected": names, "observed": got[1]})
    if got[2] != rows:
        d.append({"kind": "rows", "tk": tk, "expected": rows[:6], "observed": got[2][:6], "n_expected": len(rows), "n_observed": len(got[2]),
                  "shape": row_shape(rows, got[2])})
    return d


def row_shape(exp, got):
    """how the observed rows differ: more / fewer rows, or same number with other values (which positions)"""
    if len(got) > len(exp):
        return "more_rows"
    if len(got) < len(exp):
        return "fewer_rows"
    pos = set()
    for a, b in zip(exp, got):
        if len(a) != len(b):
            return "row_width"
        for i, (x, y) in enumerate(zip(a, b)):
            if x != y:
                pos.add("null_instead_of_value" if y == N else "value_instead_of_null" if x == N else "other_value")
    return "+".join(sorted(pos)) or "order"


def prefix_ok(hist, lay, res, upto, with_s1=None):
    with_s1 = has_s1(hist) if with_s1 is None else with_s1
    tks = TKS if with_s1 else TKS[:1]
    for r in res[:lay["nsetup"]]:
        if "ok" not in r:
            return "setup failed: " + json.dumps(r)[:150]
    for i in range(upto):
        st = hist[i]
        at, sel = lay["steps"][i]
        if at >= len(res):
            return "step %d not executed" % i
        r = res[at]
        if "panic" in r:
            return "step %d panicked" % i
        if ("ok" in r) != st["ok"]:
            return "step %d result differs" % i
        for tk in tks:
            if sel[tk] >= len(res) or diff_table(tk, st["cont"]["tabs"][tk], sel_result(res[sel[tk]])):
                return "step %d visible tables differ" % i
    return None


def compare_last(hist, lay, res, with_s1=None):
    """-> (divergences against the state the model continues with, name of the post-state that matches completely or None)"""
    with_s1 = has_s1(hist) if with_s1 is None else with_s1
    st = hist[-1]
    tks = TKS if with_s1 else TKS[:1]
    at, _ = lay["steps"][-1]
    if at >= len(res):
        return [{"kind": "not_executed"}], None
    r = res[at]
    if "panic" in r:
        return [{"kind": "panic", "detail": r["panic"][:200]}], None
    impl_ok = "ok" in r
    cands = [("cont", st["cont"])] + [("ref", p) for p in st["ref"]] + (sorted(st["alts"].items()) if isinstance(st["alts"], dict) else [])
    def get(name):
        i = lay["obs"].get(name)
        return res[i] if i is not None and i < len(res) else None
    head = []
    if impl_ok != st["ok"]:
        head.append({"kind": "accepts_invalid" if impl_ok else "rejects_valid", "detail": (r.get("err") or "")[:160]})
    elif impl_ok and st["op"]["k"] in ("insert", "update", "delete", "truncate") and r["ok"].get("n") != st["n"]:
        head.append({"kind": "affected_count", "expected": st["n"], "observed": r["ok"].get("n")})
    results = {}
    for name, post in cands:
        d = []
        for tk in tks:
            d += diff_table(tk, post["tabs"][tk], sel_result(get("sel:" + tk)))
            exp = post["tabs"][tk]
            if exp["ex"]:
                c = get("count:" + tk)
                crow = reldl.rows_of(c)
                if crow != [[len(exp["rows"])]]:
                    d.append({"kind": "count", "tk": tk, "expected": len(exp["rows"]), "observed": crow if crow is not None else json.dumps(c)[:100]})
                sc = get("schema:" + tk)
                if sc is None or "out" not in sc:
                    d.append({"kind": "catalog_listing_failed", "tk": tk, "observed": json.dumps(sc)[:120]})
                else:
                    got = parse_schema(sc["out"])
                    want = [{"name": c["name"], "nn": c["nn"] or c["pk"], "pk": c["pk"], "uq": c["uq"], "dflt": c["dflt"]} for c in exp["cols"]]
                    gotc = [{k: g[k] for k in ("name", "nn", "pk", "uq", "dflt")} for g in got]
                    if gotc != want:
                        flags = sorted({k for a, b in zip(want, gotc) for k in a if a[k] != b[k]}) if len(want) == len(gotc) else ["column_list"]
                        d.append({"kind": "catalog", "tk": tk, "flags": flags, "expected": want, "observed": gotc})
        ix = get("indexes")
        if ix is not None and "out" in ix:
            got = [x for x in parse_indexes(ix["out"]) if not (x["name"].endswith("_pkey") or x["name"].endswith("_key"))]
            goti = sorted((x["name"], x["table"], tuple(x["cols"]), x["uq"]) for x in got)
            want = []
            for x in post["idxs"]:
                cols = post["tabs"][x["tk"]]["cols"]
                nm = [c["name"] for c in cols if c["cid"] == x["cid"]]
                want.append((x["name"], "t", tuple(nm), x["uq"]))
            if goti != sorted(want):
                d.append({"kind": "index_list", "expected": sorted(want), "observed": goti})
        for lk in post["lookups"]:
            g = get("lk:%s:%s:%d" % (lk["tk"], lk["col"], lk["v"]))
            rows = reldl.rows_of(g)
            want = reldl.sorted_rows([list(x) for x in lk["rows"]])
            if rows is None or reldl.sorted_rows(rows) != want:
                d.append({"kind": "lookup", "tk": lk["tk"], "col": lk["col"], "v": lk["v"], "expected": want[:4],
                          "observed": reldl.sorted_rows(rows)[:4] if rows is not None else json.dumps(g)[:120]})
        if with_s1:
            p = get("schema_probe")
            exists = None if p is None else ("err" in p)
            if exists is not None and exists != ("s1" in post["schemas"]):
                d.append({"kind": "schema_exists", "expected": "s1" in post["schemas"], "observed": exists, "detail": json.dumps(p)[:120]})
        results[name] = d
    if any(x["kind"] in ("accepts_invalid", "rejects_valid") for x in head):
        return head, None              # the statement itself is the divergence; the state after it has no reference
    if not head:
        for name, _ in cands:
            if not results[name]:
                return [], name
    # a statement the implementation refused must have changed nothing: the pre-state is the cont of the previous step,
    # which the prefix check has already compared through SELECT *; here the divergence is the refusal / acceptance itself
    base = "ref" if "ref" in results else "cont"
    return head + results[base], None

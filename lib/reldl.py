"""Plumbing shared by the checks C12 (AutoInc.tla), C21 (RelDDL.tla) and C43 (RelBulk.tla): generating behaviours with
TLC from a config with overridden constants, cutting random walks, running cases on the harness subcommand `rel-run`
(harness/src/relx.rs), small result helpers. Nothing in here knows what the expected answers are."""
import json, os, re
import vlib

N = -99


def cfg_with(base_name, overrides, tag=""):
    """Copy spec/<base_name> into the scratch dir with `Name = value` constants replaced."""
    text = open(os.path.join(vlib.SPEC, base_name)).read()
    for k, v in overrides.items():
        if isinstance(v, bool):
            v = "TRUE" if v else "FALSE"
        text, n = re.subn(r"\b%s\s*=\s*[^\s]+" % re.escape(k), "%s = %s" % (k, v), text, count=1)
        if n != 1:
            raise vlib.ToolError("constant %s not found in %s" % (k, base_name))
    path = os.path.join(vlib.scratch(), "%s.%s.cfg" % (base_name[:-4], tag or abs(hash(json.dumps(overrides, sort_keys=True, default=str))) % 10**8))
    open(path, "w").write(text)
    return path


def bfs(module, base_cfg, overrides, timeout=1800, workers=8):
    res = vlib.tlc_emit(module, cfg_with(base_cfg, overrides, "bfs"), timeout=timeout, workers=workers)
    if res["violated"]:
        raise vlib.ToolError("the reference model violates its own invariant %s (%s %s)" % (res["violated"], module, base_cfg))
    return res["emitted"], res["stats"]


def walks(module, base_cfg, overrides, num, depth, seed, timeout=900):
    """TLC -simulate: the per-transition lines of consecutive steps of one walk grow by one step; keep the last of each walk."""
    res = vlib.run_tlc(module, cfg_with(base_cfg, overrides, "sim"), workers=1, timeout=timeout, simulate="num=%d" % num, seed=seed,
                       extra=["-depth", str(depth)])
    if res["violated"]:
        raise vlib.ToolError("the reference model violates its own invariant %s in a random walk (%s)" % (res["violated"], module))
    em = vlib.parse_emitted(res["out"])
    # in simulation mode the ACTION_CONSTRAINT is evaluated (and prints) for every candidate successor of the current
    # state; the candidates of one level have the same length. A new walk starts when the length falls back to 1.
    # The walk itself is (any of) the longest history printed for it.
    out, cur = [], None
    prev_len = 0
    for e in em:
        n = len(e["hist"])
        if n == 1 and prev_len > 1:
            out.append(cur)
            cur = None
        if cur is None or n >= len(cur["hist"]):
            cur = e
        prev_len = n
    if cur is not None:
        out.append(cur)
    if num and not out:
        raise vlib.ToolError("TLC -simulate printed no behaviour:\n" + res["out"][-1500:])
    return out


def maximal(emitted):
    """Of the per-transition histories of a BFS keep those that are not a proper prefix of another one."""
    keys = [json.dumps(e["hist"], sort_keys=True) for e in emitted]
    prefixes = set()
    for e in emitted:
        if len(e["hist"]) > 1:
            prefixes.add(json.dumps(e["hist"][:-1], sort_keys=True))
    return [e for e, k in zip(emitted, keys) if k not in prefixes]


def run_cases(cases, timeout=3000, jobs=None, watchdog=120):
    inp, outp = os.path.join(vlib.scratch(), "rel_in.ndjson"), os.path.join(vlib.scratch(), "rel_out.ndjson")
    vlib.write_ndjson(inp, cases)
    vlib.run_vh(["rel-run", "--in", inp, "--out", outp, "--jobs", jobs or vlib.NCPU, "--watchdog", watchdog], timeout=timeout)
    out = {}
    for r in vlib.read_ndjson(outp):
        out[r["id"]] = r["res"]
    return out


def is_ok(r):
    return isinstance(r, dict) and ("ok" in r or "rows" in r or "out" in r)


def val(v):
    """harness value -> model value (NULL = -99); anything that is not an int stays as it is"""
    return N if v is None else v


def rows_of(r):
    if r is None or "err" in r or "panic" in r:
        return None
    rows = r["rows"] if "rows" in r else r.get("ok", {}).get("rows")
    if rows is None:
        return None
    return [[val(x) for x in row] for row in rows]


def sorted_rows(rows):
    return sorted(rows, key=lambda r: json.dumps(r))


def lit(v):
    return "NULL" if v == N or v is None else str(v)
